#!/usr/bin/env python3
"""Fill the generated regions of DESIGN.md (findings table; sensitivity table from seeded/ and reverts results)."""
import json, os, re, glob
root = os.path.join(os.path.dirname(__file__), "..")
d = json.load(open(os.path.join(root, "known_findings.json")))
rows = ["| prop | id | status | commit | what |", "|---|---|---|---|---|"]
for f in d["findings"]:
    rows.append(f"| {f['property']} | {f['id']} | {f['status']} | {f.get('commit','—')} | {f['what']} |")
table = "\n".join(rows)
p = os.path.join(root, "DESIGN.md")
s = open(p).read()
s = re.sub(r"<!-- FINDINGS-TABLE -->(.*?<!-- /FINDINGS-TABLE -->)?", "<!-- FINDINGS-TABLE -->\n" + table + "\n<!-- /FINDINGS-TABLE -->", s, flags=re.S)
sens = os.path.join(root, "sensitivity.md")
if os.path.exists(sens):
    s = re.sub(r"<!-- SENSITIVITY -->(.*?<!-- /SENSITIVITY -->)?", "<!-- SENSITIVITY -->\n" + open(sens).read() + "\n<!-- /SENSITIVITY -->", s, flags=re.S)
open(p, "w").write(s)
print("DESIGN.md tables regenerated")
