#!/bin/bash
# Re-run every recorded seeded change against the CURRENT checks (no test-suite run): updates
# seeded/<id>/meta.json["final_evaluation"].  usage: tools/reeval_seeds.sh [jobs] [id-prefix]
cd "$(dirname "$0")/.."
jobs=${1:-3}; pre=${2:-}
one() {
  d=$1; id=$(basename $d)
  checks=$(python3 -c "import json;m=json.load(open('$d/meta.json'));print(' '.join(dict.fromkeys([m['property']]+[c['check'] for c in m.get('checks',[])])))")
  out=$(mktemp /tmp/reeval-XXXXXX.json)
  SUITE=0 tools/eval_seed.sh $d $out $checks > /dev/null 2>&1
  python3 - "$d" "$out" <<'P'
import json, sys
d, out = sys.argv[1:3]
try:
    r = json.load(open(out))
except Exception as e:
    print(d, "EVAL FAILED", e); sys.exit(0)
m = json.load(open(d + "/meta.json"))
m["final_evaluation"] = {
    "what": "tools/reeval_seeds.sh: current checks against the patched tree (demo re-run, test-suite not re-run)",
    "demo_exit_clean_tree": r["demo_clean_exit"], "demo_exit_with_patch": r["demo_patched_exit"],
    "checks": [{"check": c["check"], "exit": c["exit"], "caught": c["exit"] == 1,
                "concrete_replay": c["exit"] == 1 and "no-failing-input-found" not in c["violations"].split(";")[0],
                "first_violation": c["detail"][:300]} for c in r["checks"]]}
json.dump(m, open(d + "/meta.json", "w"), indent=1)
print(d.split("/")[-1], [(c["check"], c["exit"], "concrete" if "no-failing" not in c["violations"].split(";")[0] and c["exit"] == 1 else "") for c in r["checks"]])
P
  rm -f $out
}
export -f one
ls -d seeded/${pre}* | xargs -P $jobs -I{} bash -c 'one {}'
