#!/bin/bash
# Run every reverse patch of a fix commit through the check of its property (private worktree);
# writes reverts/results.json.  usage: tools/run_reverts.sh [name-prefix]
cd "$(dirname "$0")/.."
log=$(mktemp)
for f in reverts/${1:-}*.diff; do
  b=$(basename $f .diff); p=${b%%-*}
  echo "##### $b $p" >> $log
  tools/try_patch.sh $f $p >> $log 2>&1
done
python3 - "$log" <<'P'
import json, re, sys, os
res = {}
if os.path.exists("reverts/results.json"):
    res = json.load(open("reverts/results.json"))
cur = None
for line in open(sys.argv[1]):
    m = re.match(r"##### (\S+) (\S+)", line)
    if m:
        cur = m.group(1); res[cur] = {"check": m.group(2), "exit": None, "concrete": False, "first": "", "n_violations": 0}
    elif cur and line.startswith("VIOLATION"):
        res[cur]["n_violations"] += 1
        if "no-failing-input-found" not in line:
            res[cur]["concrete"] = True
    elif cur and line.startswith("  ") and not res[cur]["first"]:
        res[cur]["first"] = line.strip()
    elif cur and line.startswith("exit="):
        res[cur]["exit"] = int(line.strip().split("=")[1])
json.dump(res, open("reverts/results.json", "w"), indent=1, sort_keys=True)
print(json.dumps({k: (v["exit"], v["concrete"]) for k, v in res.items()}))
P
rm -f $log
