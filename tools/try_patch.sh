#!/bin/bash
# usage: tools/try_patch.sh <patch.diff> C16 [C13 ...]
# Applies the patch in a private scratch worktree of /repo (never in /repo itself), runs the
# quick checks against it (MICI_REPO), removes the worktree.  TIER=thorough for the thorough tier.
set -u
patch=$(realpath "$1"); shift
wt=$(mktemp -d /tmp/wt-XXXXXX)
git -C /repo worktree add -q --detach "$wt" HEAD || exit 3
trap 'git -C /repo worktree remove --force "$wt" >/dev/null 2>&1; rm -rf "$wt"' EXIT
# carry over uncommitted changes of /repo (normally none)
git -C "$wt" apply "$patch" || { echo "PATCH DOES NOT APPLY"; exit 3; }
cd /verif
for p in "$@"; do
  echo "=== $p on $(basename "$patch")"
  MICI_REPO="$wt" VERIF_EVIDENCE_DIR="$wt/.evidence" timeout 3000 ./check "$p" --tier "${TIER:-quick}" 2>&1 | grep -E "^(VIOLATION|KNOWN-FINDING|OK|MACHINERY)|^  " | head -8
  echo "exit=${PIPESTATUS[0]}"
done
