#!/bin/bash
# usage: tools/try_patch.sh <patch.diff> C16 [C13 ...]   -- apply patch to /repo, run quick checks, undo
set -u
patch=$(realpath "$1"); shift
cd /verif
git -C /repo apply "$patch" || { echo "PATCH DOES NOT APPLY"; exit 3; }
trap 'git -C /repo checkout -- . ' EXIT
for p in "$@"; do
  echo "=== $p on $(basename $patch)"
  timeout 3000 ./check "$p" --tier "${TIER:-quick}" 2>&1 | grep -E "^(VIOLATION|KNOWN-FINDING|OK|MACHINERY)|^  " | head -8
  echo "exit=${PIPESTATUS[0]}"
done
