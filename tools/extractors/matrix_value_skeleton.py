"""Translator plug-in `matrix_value_skeleton` (builder B10): the value-semantics MACHINERY of
`src/mici/matrices.py` and `mici.utils.hash_array` as statement trees.

`matrix_eq` ties, per class, which FIELDS `_compute_hash` / `_check_equality` use.  This plug-in ties the code
those tables rest on (pure `ast`, mici is never imported) and writes
`lean/MiciVerif/Generated/MatrixValueSkeleton.lean`:

* statement trees (`MiciVerif.Skel.S` / `Skel.E` of `Model/SamplerSkeleton.lean`, reused unchanged) plus
  parameter lists of `utils.hash_array`, `_make_array_triangular`, the base-class `Matrix.__init__` /
  `transpose` / `__hash__` / `__getstate__` / `__eq__`, the `ExplicitArrayMatrix` / `ImplicitArrayMatrix`
  constructors, `array`, `_compute_hash`, `_check_equality`, every lazy-cache property (`inv`, `sqrt`,
  `eigval`, `eigvec` + `_compute_eigendecomposition`, `lu_and_piv`, `DenseDefiniteMatrix.factor`, the three
  `capacitance_matrix`), the constructors that initialise those slots or freeze caller arrays
  (`InvertibleMatrix`, `SymmetricMatrix`, `PositiveDefiniteMatrix`, `DenseDefiniteMatrix`, `DenseSquareMatrix`,
  `InverseLUFactoredSquareMatrix`, `DenseSymmetricMatrix`, `EigendecomposedSymmetricMatrix`,
  `SoftAbsRegularizedPositiveDefiniteMatrix`, `TriangularMatrix`, `InverseTriangularMatrix`) and the
  `_construct_transpose` / `_construct_inv` methods that hand cached data to a new object
  (`SymmetricMatrix`, `DenseSquareMatrix`, `SquareLowRankUpdateMatrix`, `TriangularMatrix`,
  `InverseTriangularMatrix`);
* tables over the WHOLE module: `lazyDefs` (every definition, in any class, of a watched name: the lazy
  properties, `T`, `__hash__`, `__eq__`, pickling / copy / attribute hooks, `__slots__`), `matrixMembers`
  (members of `class Matrix`), `freezeSites` (every statement mentioning `writeable` / `setflags`, with the
  enclosing function and `for` header), `triangularCalls` (every call of `np.tril` / `np.triu` /
  `_make_array_triangular` and every subscript store into a parameter of `_make_array_triangular`),
  `noneStores` (every `self._x = None` in a constructor: the cache slots), `dropped`.

Conventions (trusted; those of `sampler_skeleton.py` / `state_skeleton.py`, whose `expr` / `Tr` are used
UNCHANGED after the following source-to-source normalisation of the function bodies):

* a float literal `x` is `float("<repr x>")` (tree: `.call "float" (E.l [.s "0.0"])`);
* `a @ b`, `a / b`, `a ** b`, and other binary operators outside `+ - * // %` are calls of `{@}`, `{/}`, `{**}`, …
  (tree: `.call "{@}" (E.l [a, b])`); unary minus of a non-literal is `.call "{neg}" (E.l [a])`, unary `+` / `~`
  likewise `{pos}` / `{invert}`;
* decorators are appended to the parameter list as `.kw "@" <decorator>`;
* docstrings, annotations and `msg = <string>` statements are dropped (the latter listed in `dropped`).

Fail closed: `S.unknown` / `E.unk` for anything outside the subset, for a missing / duplicated function or
class, or for an exception inside the extractor; the expected trees (`Model/MatrixValueSkeleton.lean`) contain
no such node, so `C19S.skel_value_understood` and the `skel_*_eq_model` theorems fail.
"""
from __future__ import annotations

import ast
import copy
import traceback
from pathlib import Path

from .sampler_skeleton import elist, lean_str, src_of
from .state_skeleton import Tr, expr, find_function, params, strlist

TARGET = "MatrixValueSkeleton.lean"

U, M = "utils.py", "matrices.py"

# (Lean name, python function name, class or None, file)
FUNCTIONS = [
    ("hashArray", "hash_array", None, U),
    ("makeArrayTriangular", "_make_array_triangular", None, M),
    ("matrixInit", "__init__", "Matrix", M),
    ("matrixTranspose", "transpose", "Matrix", M),
    ("matrixHash", "__hash__", "Matrix", M),
    ("matrixGetstate", "__getstate__", "Matrix", M),
    ("matrixEq", "__eq__", "Matrix", M),
    ("explicitInit", "__init__", "ExplicitArrayMatrix", M),
    ("explicitArray", "array", "ExplicitArrayMatrix", M),
    ("explicitComputeHash", "_compute_hash", "ExplicitArrayMatrix", M),
    ("explicitCheckEquality", "_check_equality", "ExplicitArrayMatrix", M),
    ("implicitInit", "__init__", "ImplicitArrayMatrix", M),
    ("implicitArray", "array", "ImplicitArrayMatrix", M),
    ("invertibleInit", "__init__", "InvertibleMatrix", M),
    ("invertibleInv", "inv", "InvertibleMatrix", M),
    ("symmetricInit", "__init__", "SymmetricMatrix", M),
    ("symmetricComputeEig", "_compute_eigendecomposition", "SymmetricMatrix", M),
    ("symmetricEigval", "eigval", "SymmetricMatrix", M),
    ("symmetricEigvec", "eigvec", "SymmetricMatrix", M),
    ("symmetricConstructTranspose", "_construct_transpose", "SymmetricMatrix", M),
    ("posdefInit", "__init__", "PositiveDefiniteMatrix", M),
    ("posdefSqrt", "sqrt", "PositiveDefiniteMatrix", M),
    ("denseDefiniteInit", "__init__", "DenseDefiniteMatrix", M),
    ("denseDefiniteFactor", "factor", "DenseDefiniteMatrix", M),
    ("denseSquareInit", "__init__", "DenseSquareMatrix", M),
    ("denseSquareLuAndPiv", "lu_and_piv", "DenseSquareMatrix", M),
    ("denseSquareConstructTranspose", "_construct_transpose", "DenseSquareMatrix", M),
    ("denseSquareConstructInv", "_construct_inv", "DenseSquareMatrix", M),
    ("inverseLUInit", "__init__", "InverseLUFactoredSquareMatrix", M),
    ("denseSymmetricInit", "__init__", "DenseSymmetricMatrix", M),
    ("eigendecomposedInit", "__init__", "EigendecomposedSymmetricMatrix", M),
    ("softabsInit", "__init__", "SoftAbsRegularizedPositiveDefiniteMatrix", M),
    ("triangularInit", "__init__", "TriangularMatrix", M),
    ("triangularConstructInv", "_construct_inv", "TriangularMatrix", M),
    ("triangularConstructTranspose", "_construct_transpose", "TriangularMatrix", M),
    ("inverseTriangularInit", "__init__", "InverseTriangularMatrix", M),
    ("inverseTriangularConstructInv", "_construct_inv", "InverseTriangularMatrix", M),
    ("inverseTriangularConstructTranspose", "_construct_transpose", "InverseTriangularMatrix", M),
    ("squareLowRankCapacitance", "capacitance_matrix", "SquareLowRankUpdateMatrix", M),
    ("squareLowRankConstructTranspose", "_construct_transpose", "SquareLowRankUpdateMatrix", M),
    ("squareLowRankConstructInv", "_construct_inv", "SquareLowRankUpdateMatrix", M),
    ("symmetricLowRankCapacitance", "capacitance_matrix", "SymmetricLowRankUpdateMatrix", M),
    ("posdefLowRankCapacitance", "capacitance_matrix", "PositiveDefiniteLowRankUpdateMatrix", M),
]

WATCHED = {
    "transpose", "T", "inv", "sqrt", "eigval", "eigvec", "array", "lu_and_piv", "factor", "capacitance_matrix",
    "_compute_eigendecomposition", "__hash__", "__eq__", "__ne__", "__getstate__", "__setstate__", "__reduce__",
    "__reduce_ex__", "__copy__", "__deepcopy__", "__setattr__", "__getattr__", "__getattribute__", "__delattr__",
    "__slots__", "__new__", "__init_subclass__", "__class_getitem__", "__getnewargs__", "__getnewargs_ex__",
}

BINNAME = {ast.MatMult: "{@}", ast.Div: "{/}", ast.Pow: "{**}", ast.LShift: "{<<}", ast.RShift: "{>>}",
           ast.BitOr: "{|}", ast.BitAnd: "{&}", ast.BitXor: "{^}"}
HANDLED_BIN = (ast.Add, ast.Sub, ast.Mult, ast.FloorDiv, ast.Mod)


class Normalise(ast.NodeTransformer):
    """the source-to-source normalisation described in the module docstring"""

    def visit_Constant(self, node):  # noqa: N802
        if isinstance(node.value, float):
            return ast.Call(func=ast.Name(id="float", ctx=ast.Load()), args=[ast.Constant(value=repr(node.value))], keywords=[])
        return node

    def visit_BinOp(self, node):  # noqa: N802
        self.generic_visit(node)
        if isinstance(node.op, HANDLED_BIN):
            return node
        name = BINNAME.get(type(node.op))
        if name is None:
            return node  # left to `expr`: `.unk`
        return ast.Call(func=ast.Name(id=name, ctx=ast.Load()), args=[node.left, node.right], keywords=[])

    def visit_UnaryOp(self, node):  # noqa: N802
        self.generic_visit(node)
        if isinstance(node.op, ast.Not):
            return node
        if isinstance(node.op, ast.USub) and isinstance(node.operand, ast.Constant) and isinstance(node.operand.value, int) \
                and not isinstance(node.operand.value, bool):
            return node
        name = {ast.USub: "{neg}", ast.UAdd: "{pos}", ast.Invert: "{invert}"}[type(node.op)]
        return ast.Call(func=ast.Name(id=name, ctx=ast.Load()), args=[node.operand], keywords=[])

    def visit_AugAssign(self, node):  # noqa: N802
        self.generic_visit(node)
        return node  # operators outside `+ - * // %` are left to `Tr`: `.unknown`


HEADER = """/- GENERATED by tools/extractors/matrix_value_skeleton.py from src/mici/matrices.py and src/mici/utils.py of
   the tree under test.  Do not edit.  Statement trees (`Skel.S`, expressions `Skel.E`) of the value-semantics
   machinery of the matrix classes (hashing, equality, pickling, lazy-cache properties, freezing of arrays,
   triangular masking) and tables over the whole module; see the extractor's docstring for the conventions
   (float literals, `@` / `/` / `**`, decorators), for what is dropped (table `dropped`) and how it fails
   closed (`S.unknown`, `E.unk`). -/
import MiciVerif.Model.SamplerSkeleton
namespace MiciVerif.Generated.MatrixValueSkeleton
open MiciVerif.Skel

"""


def _functions_of(tree):
    """(qualified name, FunctionDef) for every function / method of the module, classes one level deep"""
    for n in tree.body:
        if isinstance(n, ast.FunctionDef):
            yield n.name, n
        elif isinstance(n, ast.ClassDef):
            for m in n.body:
                if isinstance(m, ast.FunctionDef):
                    yield n.name + "." + m.name, m


def _stmts_with_loops(fn):
    """every statement of the function with the headers of the enclosing `for` loops"""
    out = []

    def walk(stmts, loops):
        for st in stmts:
            out.append((st, loops))
            inner = loops + [f"for {src_of(st.target)} in {src_of(st.iter)}"] if isinstance(st, ast.For) else loops
            for field in ("body", "orelse", "finalbody"):
                sub = getattr(st, field, None)
                if isinstance(sub, list) and sub and isinstance(sub[0], ast.stmt):
                    walk(sub, inner)
            for h in getattr(st, "handlers", []) or []:
                walk(h.body, inner)

    walk(fn.body, [])
    return out


def _own_text(st) -> str:
    """first line(s) of a statement without its nested blocks"""
    if isinstance(st, (ast.If, ast.For, ast.While, ast.With, ast.Try, ast.FunctionDef, ast.ClassDef)):
        return src_of(st).split("\n")[0]
    return " ".join(src_of(st).split())


def tables(mtree) -> dict[str, list]:
    lazy, members, freeze, tri, nones = [], [], [], [], []
    for c in mtree.body:
        if not isinstance(c, ast.ClassDef):
            continue
        for st in c.body:
            names = []
            if isinstance(st, ast.FunctionDef):
                names = [st.name]
                text = "".join("@" + src_of(d) + " " for d in st.decorator_list) + "def " + st.name
            elif isinstance(st, (ast.Assign, ast.AnnAssign)):
                tgts = st.targets if isinstance(st, ast.Assign) else [st.target]
                names = [t.id for t in tgts if isinstance(t, ast.Name)]
                text = "stmt " + _own_text(st)[:120]
            elif isinstance(st, ast.Expr) and isinstance(st.value, ast.Constant) and isinstance(st.value.value, str):
                continue
            else:
                text = "stmt " + _own_text(st)[:120]
            if c.name == "Matrix":
                members.append(text)
            if any(n in WATCHED for n in names):
                lazy.append((c.name, text))
    for qual, fn in _functions_of(mtree):
        tri_params = {a.arg for a in fn.args.args + fn.args.kwonlyargs} if qual == "_make_array_triangular" else set()
        for st, loops in _stmts_with_loops(fn):
            own = _own_text(st)
            if not isinstance(st, (ast.If, ast.For, ast.While, ast.With, ast.Try)) and ("writeable" in own or "setflags" in own):
                freeze.append((qual, " / ".join(loops), own))
            if not isinstance(st, (ast.If, ast.For, ast.While, ast.With, ast.Try)):
                for node in ast.walk(st):
                    if isinstance(node, ast.Call) and src_of(node.func) in ("np.tril", "np.triu", "_make_array_triangular"):
                        tri.append((qual, src_of(node)))
            if tri_params:
                tgts = []
                if isinstance(st, ast.Assign):
                    tgts = st.targets
                elif isinstance(st, (ast.AugAssign, ast.AnnAssign)):
                    tgts = [st.target]
                elif isinstance(st, ast.Delete):
                    tgts = st.targets
                for t in tgts:
                    base = t
                    while isinstance(base, (ast.Subscript, ast.Attribute)):
                        base = base.value
                    if isinstance(t, (ast.Subscript, ast.Attribute)) and isinstance(base, ast.Name) and base.id in tri_params:
                        tri.append((qual, "IN-PLACE " + own))
            if qual.endswith(".__init__") and isinstance(st, ast.Assign) and len(st.targets) == 1 \
                    and isinstance(st.value, ast.Constant) and st.value.value is None and src_of(st.targets[0]).startswith("self."):
                nones.append((qual.split(".")[0], src_of(st.targets[0])[5:]))
    return {"lazy": lazy, "members": members, "freeze": freeze, "tri": tri, "nones": nones}


def emit(repo: Path, out: Path) -> None:  # noqa: C901, PLR0912
    chunks = [HEADER]
    dropped: list[tuple[str, str, str]] = []
    trees, errs = {}, {}
    for f in (U, M):
        try:
            trees[f] = ast.parse((repo / "src" / "mici" / f).read_text())
            errs[f] = ""
        except Exception as e:  # noqa: BLE001
            trees[f], errs[f] = None, f"cannot parse {f}: " + repr(e)[:200]
    for lean_name, py_name, cls, f in FUNCTIONS:
        body = sig = None
        reason = errs[f]
        where = (cls + "." if cls else "") + py_name
        try:
            if trees[f] is not None:
                fn, reason = find_function(trees[f], py_name, cls)
                if fn is not None:
                    fn = ast.fix_missing_locations(Normalise().visit(copy.deepcopy(fn)))
                    tr = Tr(where)
                    body = tr.block(fn.body, 0)
                    sig = elist(params(fn) + [f"(.kw \"@\" {expr(d)})" for d in fn.decorator_list])
                    dropped += tr.dropped
        except Exception as e:  # noqa: BLE001
            reason = "extractor error: " + repr(e)[:200] + " " + traceback.format_exc()[-200:]
            body = None
        if body is None:
            body = f"(S.b [.unknown {lean_str(reason)}])"
            sig = f"(E.l [.unk {lean_str(reason)}])"
        chunks.append(f"/-- parameters (and decorators) of `{where}` ({f}) -/\ndef {lean_name}Sig : E :=\n  {sig}\n\n")
        chunks.append(f"/-- body of `{where}` ({f}) -/\ndef {lean_name} : S :=\n  {body}\n\n")
    try:
        tb = tables(trees[M]) if trees[M] is not None else None
        terr = errs[M]
    except Exception as e:  # noqa: BLE001
        tb, terr = None, "extractor error: " + repr(e)[:200]
    if tb is None:
        bad2 = [("<" + terr + ">", "")]
        bad3 = [("<" + terr + ">", "", "")]
        tb = {"lazy": bad2, "members": ["<" + terr + ">"], "freeze": bad3, "tri": bad2, "nones": bad2}

    def rows2(xs):
        return ",\n".join(f"  ({lean_str(a)}, {lean_str(b)})" for a, b in xs)

    def rows3(xs):
        return ",\n".join(f"  ({lean_str(a)}, {lean_str(b)}, {lean_str(c)})" for a, b, c in xs)

    chunks.append("/-- every definition, in any class of matrices.py, of a watched name (lazy properties, `T`, `__hash__`,\n"
                  "`__eq__`, pickling / copy / attribute hooks, `__slots__`): (class, decorators + `def name` | `stmt …`) -/\n"
                  f"def lazyDefs : List (String × String) := [\n{rows2(tb['lazy'])}]\n\n")
    chunks.append("/-- members of `class Matrix`, in source order -/\n"
                  f"def matrixMembers : List String :=\n  {strlist(tb['members'])}\n\n")
    chunks.append("/-- every statement of matrices.py that mentions `writeable` / `setflags`: (function, enclosing `for`\n"
                  "headers, statement) -/\n"
                  f"def freezeSites : List (String × String × String) := [\n{rows3(tb['freeze'])}]\n\n")
    chunks.append("/-- every call of `np.tril` / `np.triu` / `_make_array_triangular` in matrices.py and every in-place store\n"
                  "into a parameter of `_make_array_triangular`: (function, source) -/\n"
                  f"def triangularCalls : List (String × String) := [\n{rows2(tb['tri'])}]\n\n")
    chunks.append("/-- every `self._x = None` of a constructor in matrices.py (the lazily filled slots): (class, attribute) -/\n"
                  f"def noneStores : List (String × String) := [\n{rows2(tb['nones'])}]\n\n")
    chunks.append("/-- statements the extractor dropped: (function, allow-list entry, first line of the source) -/\n"
                  f"def dropped : List (String × String × String) := [\n{rows3(dropped)}]\n\n")
    chunks.append("end MiciVerif.Generated.MatrixValueSkeleton\n")
    (out / TARGET).write_text("".join(chunks))
