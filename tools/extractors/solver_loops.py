"""Translator plug-in `solver_loops`: the BODIES of the five iterative solvers of
`src/mici/solvers.py` -> shallow Lean definitions (C12, C04).

Reads (pure `ast`, never importing mici) `solvers.py` of the tree under test and writes

* `Generated/SolverLoops.lean`      `solve_fixed_point_direct`, `solve_fixed_point_steffensen`
                                    against the vocabulary of `Model/Solvers.lean`
                                    (`Fault`, `Out`, `XNorm`; theorems in `Props/C12S.lean`);
* `Generated/SolverLoopsProj.lean`  `solve_projection_onto_manifold_{quasi_newton, newton,
                                    newton_with_line_search}` against the vocabulary of
                                    `Model/Constrained.lean` (`Oracles`, `Tol`, `Outcome`, `Vec`, `Mat`,
                                    `innerProduct`, `deltaMu`, `sgn`; theorems in `Props/C04S.lean`).

(Two files so that a change of a projection solver can never make the module of the fixed-point
solvers fail to compile, and vice versa.)

Statement translation (shared by both vocabularies)
  for i in range(N): body      a fuel-recursive function `<solver>_loop_<k> … : (fuel) → (i) → carried… → R`;
                               the carried variables are the variables assigned in the body that are
                               read before being written (computed by a definite-assignment scan), `i`
                               is the iteration index.  The OUTER loop is translated in tail form: its
                               fuel-`0` case is the translation of everything that follows the loop.  If
                               that code reads a name that only the loop body assigns (the final error
                               message formats `error`), it raises UnboundLocalError when N = 0:
                               `if N = 0 then <unbound> else …`.
  nested for … else            a fuel-recursive function returning `Except (Fault × pos) (outputs)`:
                               `break` = `.ok outputs`, exhaustion = the `else` block then `.ok outputs`,
                               an exception = `.error (fault, state.pos at that moment)`.
  try: … except (A, B) as e: raise ConvergenceError(msg) from e
                               every user / system call inside the `try` body gets the handler as its
                               `.error` branch; outside every `try` the exception propagates
                               (fixed-point vocabulary: `.foreignErr`; projection vocabulary: not
                               expressible -> not translated).
  raise ConvergenceError(msg)  `.convErr` / `.convergenceError <reason> i pos`; the reason is read off the
                               constant part of the message (`diverged`, `did not converge`; in a
                               handler: `fault`) exactly as the correspondence harness does.
  if test: <block ending in raise / return / break>      `if test then … else <rest>`
  x = e, x += e, state.pos -= e                         `let x : T := …` (shadowing), `state.pos` / `state.mom`
                                                        are the variables `state_pos` / `state_mom`.
  msg = f"…"                   skipped (evaluation of messages is not modelled)

Fixed-point vocabulary: `func(x)` is `func <call number> x` (call number = k*i + j for the j-th of
the k `func` calls of an iteration), `norm(a - b)` is `normDiff a b`, comparisons of `error` are
`XNorm.gt/ge/lt/le`, `np.isnan(error)` is `XNorm.isnan`, and the three statements computing
Steffensen's update (matched textually) are `upd x0 x1 x2`.

Projection vocabulary: `system.constr(state)` = `O.constr state_pos`, `system.jacob_constr(s)` =
`O.jacob s_pos`, `system.dh2_flow_dmom(s, dt)` = `O.flowD s_pos dt`,
`system.jacob_constr_inner_product(a, b[, c]).inv` = `O.inv (innerProduct a b c)`, `norm(v)` =
`O.normC v` / `O.normP v` by the type of `v`; `@`, `.T`, unary minus, `+`, `-`, `scalar * array`
are Mathlib's `*ᵥ`, `ᵀ`, `-`, `+`, `-`, `•` on the function views with Python's operator
precedence (`np.sign(t) * A @ v` is `(sgn t • A.fn) *ᵥ v.fn`), `A.T @ (B @ v)` is `deltaMu A B v`,
`abs` is `|·|`, `np.sign` is `sgn`, `np.isnan` is `isNaN` (False over a field), a `None` placeholder
is the zero of the type the variable gets later, the returned `state` is
`.ok state_pos state_mom mu i`.

Fail closed: a function that is missing, has another signature or contains a construct outside
this subset is emitted as `def <name>_translated : Bool := false` plus a stub, with the reason as
a comment; the `src_*_eq_model` theorems require `<name>_translated = true`.
"""
from __future__ import annotations

import ast
import re
import traceback
from fractions import Fraction
from pathlib import Path


class Untranslatable(Exception):
    pass


def U(msg, node=None):
    where = f" (line {node.lineno})" if node is not None and hasattr(node, "lineno") else ""
    return Untranslatable(msg + where)


def clean(reason: str) -> str:
    return reason.replace("-/", "- /").replace("/-", "/ -").replace("\n", " ")[:300]


# ---------------------------------------------------------------------------------------
# generic analysis helpers


def vname(node):
    """Variable key of an assignment target / load: `x` or `state.pos`."""
    if isinstance(node, ast.Name):
        return node.id
    if isinstance(node, ast.Attribute) and isinstance(node.value, ast.Name) and node.attr in ("pos", "mom"):
        return f"{node.value.id}.{node.attr}"
    return None


STATE_OBJS = ("state", "state_prev")


def loads(node) -> list[str]:
    """Variable keys read by an expression / statement (a bare `state` reads both fields)."""
    out = []

    def visit(n):
        if isinstance(n, ast.Attribute) and vname(n) is not None:
            out.append(vname(n))
            return
        if isinstance(n, ast.Name) and isinstance(n.ctx, ast.Load):
            if n.id in STATE_OBJS:
                out.extend([n.id + ".pos", n.id + ".mom"])
            else:
                out.append(n.id)
        for ch in ast.iter_child_nodes(n):
            visit(ch)

    visit(node)
    return out


def targets_of(stmt) -> list[str]:
    tg = []
    if isinstance(stmt, ast.Assign):
        for t in stmt.targets:
            elts = t.elts if isinstance(t, ast.Tuple) else [t]
            for e in elts:
                k = vname(e)
                if k is None:
                    if isinstance(e, ast.Subscript) and vname(e.value):
                        k = vname(e.value)
                    else:
                        raise U("unsupported assignment target", stmt)
                tg.append(k)
    elif isinstance(stmt, ast.AugAssign):
        k = vname(stmt.target)
        if k is None:
            raise U("unsupported assignment target", stmt)
        tg.append(k)
    elif isinstance(stmt, ast.AnnAssign):
        raise U("annotated assignment", stmt)
    return tg


def terminates(block) -> bool:
    return bool(block) and isinstance(block[-1], (ast.Raise, ast.Return, ast.Break, ast.Continue))


def is_msg_stmt(stmt) -> bool:
    """`msg = f"…"` / `msg = ("…" f"…")`"""
    if not isinstance(stmt, ast.Assign):
        return False
    return any(isinstance(n, ast.JoinedStr) or (isinstance(n, ast.Constant) and isinstance(n.value, str))
               for n in ast.walk(stmt.value)) and all(isinstance(t, ast.Name) for t in stmt.targets)


class Scan:
    """Definite-assignment scan of a loop body: which variables are read before they are written
    (`exposed`), which are assigned on a path that continues (`assigned`, in order), the sets of
    definitely assigned variables at every `break` and at the end of the body."""

    def __init__(self):
        self.exposed: list[str] = []
        self.assigned: list[str] = []
        self.break_defs: list[set] = []

    def read(self, names, defd):
        for k in names:
            if k not in defd and k not in self.exposed:
                self.exposed.append(k)

    def block(self, stmts, defd: set, counts=True):
        """returns the definitely-assigned set after the block, or None if it never falls through"""
        defd = set(defd)
        for s in stmts:
            if isinstance(s, (ast.Assign, ast.AugAssign)):
                self.read(loads(s.value), defd)
                if isinstance(s, ast.AugAssign):
                    self.read(loads(s.target), defd)
                if isinstance(s, ast.Assign):
                    for t in s.targets:
                        for e in (t.elts if isinstance(t, ast.Tuple) else [t]):
                            if isinstance(e, ast.Subscript):
                                self.read(loads(e), defd)
                for k in targets_of(s):
                    defd.add(k)
                    if counts and k not in self.assigned:
                        self.assigned.append(k)
            elif isinstance(s, ast.Expr):
                self.read(loads(s.value), defd)
            elif isinstance(s, ast.If):
                self.read(loads(s.test), defd)
                term = terminates(s.body) and isinstance(s.body[-1], (ast.Raise, ast.Return))
                d1 = self.block(s.body, defd, counts and not term)
                d2 = self.block(s.orelse, defd, counts)
                if d1 is None and d2 is None:
                    return None
                defd = d2 if d1 is None else d1 if d2 is None else (d1 & d2)
            elif isinstance(s, ast.For):
                self.read(loads(s.iter), defd)
                inner = Scan()
                inner.block(s.body, set(), counts)
                self.read(inner.exposed, defd)
                for k in inner.assigned:
                    if counts and k not in self.assigned:
                        self.assigned.append(k)
                # definitely assigned after the loop: what every exit path assigns
                d_else = inner_else = self.block(s.orelse, defd, counts)
                exits = list(inner.break_defs)
                sets = [defd | b for b in exits]
                if inner_else is not None:
                    sets.append(d_else)
                defd = set.intersection(*sets) if sets else defd
            elif isinstance(s, ast.Try):
                d = self.block(s.body, defd, counts)
                for h in s.handlers:
                    self.block(h.body, defd, False)
                if s.orelse or s.finalbody:
                    raise U("try … else / finally", s)
                if d is None:
                    return None
                defd = d
            elif isinstance(s, ast.Raise):
                if s.exc is not None:
                    self.read(loads(s.exc), defd)
                return None
            elif isinstance(s, ast.Return):
                if s.value is not None:
                    self.read(loads(s.value), defd)
                return None
            elif isinstance(s, ast.Break):
                self.break_defs.append(set(defd))
                return None
            elif isinstance(s, ast.Pass):
                pass
            else:
                raise U(f"unsupported statement {type(s).__name__}", s)
        return defd


def real_reads(stmts) -> list[str]:
    """reads of a statement list that the translation evaluates (messages and raise arguments excluded)"""
    out = []
    for s in stmts:
        if is_msg_stmt(s) or isinstance(s, ast.Raise):
            continue
        out += loads(s)
    return out


def const_text(node) -> str:
    """constant part of a (possibly implicit-concatenated) f-string expression"""
    return " ".join(n.value for n in ast.walk(node) if isinstance(n, ast.Constant) and isinstance(n.value, str))


def handler_names(h: ast.ExceptHandler) -> list[str]:
    t = h.type
    if t is None:
        return ["BaseException"]
    if isinstance(t, ast.Tuple):
        return [ast.unparse(e) for e in t.elts]
    return [ast.unparse(t)]


def indent(lines, k=2):
    return [" " * k + ln for ln in lines]


def atom(t: str) -> str:
    """parenthesise a term unless it is atomic"""
    if re.fullmatch(r"[\w.']+", t) or (t.startswith("(") and t.endswith(")") and balanced(t[1:-1])) \
            or (t.startswith("|") and t.endswith("|")):
        return t
    return "(" + t + ")"


def balanced(s: str) -> bool:
    d = 0
    for ch in s:
        d += ch == "("
        d -= ch == ")"
        if d < 0:
            return False
    return d == 0


# ---------------------------------------------------------------------------------------
# the statement translator (continuation passing; produces lists of Lean source lines)


class Ctx:
    def __init__(self, tr, env, handlers, loop, cont, defd_msgs=None):
        self.tr = tr            # Translator (vocabulary + aux definitions)
        self.env = env          # ordered dict: variable key -> (lean name, kind)
        self.handlers = handlers  # enclosing try handlers, innermost last: list[ast.Try]
        self.loop = loop        # innermost loop descriptor or None
        self.cont = cont        # continuation: Ctx -> lines   (what follows the current block)

    def with_(self, **kw):
        c = Ctx(self.tr, self.env, self.handlers, self.loop, self.cont)
        for k, v in kw.items():
            setattr(c, k, v)
        return c

    def bind(self, key, lean, kind):
        env = dict(self.env)
        env.pop(key, None)   # re-insert at the end only if new; keep original position otherwise
        env = dict(self.env)
        env[key] = (lean, kind)
        return self.with_(env=env)


class Translator:
    """One solver function.  Subclasses give the vocabulary."""

    def __init__(self, fn: ast.FunctionDef):
        self.fn = fn
        self.name = fn.name
        self.aux: list[str] = []      # auxiliary definitions (handlers, loops), in dependency order
        self.nloops = 0
        self.nhandlers = 0
        self.ntmp = 0

    # -- to be provided by the vocabulary --------------------------------------------------
    def lean_type(self, kind): raise NotImplementedError
    def expr(self, node, ctx, pre): raise NotImplementedError          # -> (term, kind)
    def exc_branch(self, ctx): raise NotImplementedError               # -> (pattern, [lines]) for `.error`
    def raise_outcome(self, stmt, ctx, in_handler): raise NotImplementedError
    def return_outcome(self, stmt, ctx): raise NotImplementedError
    def unbound_outcome(self): raise NotImplementedError
    def fixed_params(self): raise NotImplementedError                  # [(lean name, type)] always passed
    def result_type(self): raise NotImplementedError
    def placeholder(self, kind): raise NotImplementedError

    # -- statements ---------------------------------------------------------------------
    def fresh(self, base):
        self.ntmp += 1
        return f"{base}_{self.ntmp}"

    def emit_pre(self, pre, ctx, body_fn):
        """pre: list of (pattern, kinds, oracle term, [(key, lean, kind)]); wraps `body_fn(ctx')`"""
        lines = []
        for pat, term, binds in pre:
            epat, elines = self.exc_branch(ctx)
            lines.append(f"match {term} with")
            if len(elines) == 1:
                lines.append(f"| .error {epat} => {elines[0]}")
            else:
                lines.append(f"| .error {epat} =>")
                lines += indent(elines)
            lines.append(f"| .ok {pat} =>")
            for key, lean, kind in binds:
                ctx = ctx.bind(key, lean, kind)
        return lines + body_fn(ctx)

    def block(self, stmts, ctx: Ctx):
        if not stmts:
            return ctx.cont(ctx)
        s, rest = stmts[0], stmts[1:]
        nxt = lambda c: self.block(rest, c)  # noqa: E731
        if isinstance(s, ast.Expr) and isinstance(s.value, ast.Constant):
            return nxt(ctx)
        if is_msg_stmt(s):
            return nxt(ctx)
        macro = self.macro(stmts, ctx)
        if macro is not None:
            return macro
        if isinstance(s, ast.Assign):
            return self.assign(s, ctx, nxt)
        if isinstance(s, ast.AugAssign):
            op = {ast.Add: ast.Add, ast.Sub: ast.Sub, ast.Mult: ast.Mult}.get(type(s.op))
            if op is None:
                raise U("unsupported augmented assignment", s)
            load_t = ast.copy_location(
                ast.Attribute(value=s.target.value, attr=s.target.attr, ctx=ast.Load())
                if isinstance(s.target, ast.Attribute) else ast.Name(id=s.target.id, ctx=ast.Load()), s)
            val = ast.copy_location(ast.BinOp(left=load_t, op=s.op, right=s.value), s)
            return self.assign_one(vname(s.target), val, s, ctx, nxt)
        if isinstance(s, ast.If):
            if s.orelse or not terminates(s.body):
                raise U("`if` whose body does not end in raise/return/break, or with an else branch", s)
            pre = []
            test, kind = self.expr(s.test, ctx, pre)
            if kind not in ("Prop", "Bool"):
                raise U("`if` test is not a comparison", s)

            def body(c):
                then = self.block(s.body, c.with_(cont=self.fall_off))
                return [f"if {test} then"] + indent(then) + ["else"] + nxt(c)

            return self.emit_pre(pre, ctx, body)
        if isinstance(s, ast.Raise):
            return self.raise_outcome(s, ctx, False)
        if isinstance(s, ast.Return):
            return self.return_outcome(s, ctx)
        if isinstance(s, ast.Break):
            if ctx.loop is None or ctx.loop["kind"] != "value":
                raise U("`break` outside a nested loop", s)
            return [ctx.loop["ok"](ctx)]
        if isinstance(s, ast.Try):
            if s.orelse or s.finalbody:
                raise U("try … else / finally", s)
            self.check_handlers(s)
            outer = ctx.handlers
            inner = ctx.with_(handlers=outer + [s], cont=lambda c: nxt(c.with_(handlers=outer, cont=ctx.cont)))
            return self.block(s.body, inner)
        if isinstance(s, ast.For):
            return self.for_loop(s, rest, ctx)
        if isinstance(s, ast.Pass):
            return nxt(ctx)
        raise U(f"unsupported statement {type(s).__name__}", s)

    def fall_off(self, ctx):
        raise U("a block that should end in raise / return / break falls through")

    def macro(self, stmts, ctx):
        return None

    def check_handlers(self, t: ast.Try):
        for h in t.handlers:
            body = [x for x in h.body if not is_msg_stmt(x)]
            if len(body) != 1 or not isinstance(body[0], ast.Raise):
                raise U("exception handler is not `msg = …; raise …`", h)

    def assign(self, s: ast.Assign, ctx, nxt):
        if len(s.targets) != 1:
            raise U("chained assignment", s)
        t = s.targets[0]
        if isinstance(t, ast.Tuple):
            if isinstance(s.value, ast.Tuple) and len(s.value.elts) == len(t.elts):
                # a, b = e1, e2  (no target may be read by a later element)
                def go(k, c):
                    if k == len(t.elts):
                        return nxt(c)
                    return self.assign_one(vname(t.elts[k]), s.value.elts[k], s, c, lambda c2: go(k + 1, c2))
                tnames = {vname(e) for e in t.elts}
                if any(set(loads(v)) & tnames for v in s.value.elts):
                    raise U("simultaneous assignment reading its own targets", s)
                return go(0, ctx)
            return self.assign_tuple(t, s.value, s, ctx, nxt)
        key = vname(t)
        if key is None:
            raise U("unsupported assignment target", s)
        return self.assign_one(key, s.value, s, ctx, nxt)

    def assign_tuple(self, t, value, s, ctx, nxt):
        raise U("tuple assignment", s)

    def lean_var(self, key):
        return key.replace(".", "_")

    def assign_one(self, key, value, s, ctx, nxt):
        if key is None:
            raise U("unsupported assignment target", s)
        pre = []
        direct = self.oracle(value, ctx, pre)
        lean = self.lean_var(key)
        if direct is not None:
            term, kind = direct
            pre.append((lean, term, [(key, lean, kind)]))
            return self.emit_pre(pre, ctx, nxt)
        term, kind = self.expr(value, ctx, pre)

        def body(c):
            if kind == "none":
                # `x = None`: placeholder; its type is the one the variable gets later
                k2 = self.none_kinds.get(key)
                if k2 is None:
                    raise U(f"cannot determine the type of the None placeholder `{key}`", s)
                return [f"let {lean} : {self.lean_type(k2)} := {self.placeholder(k2)}"] + nxt(c.bind(key, lean, k2))
            self.none_kinds.setdefault(key, kind)
            return [f"let {lean} : {self.lean_type(kind)} := {self.value_term(term, kind)}"] + nxt(c.bind(key, lean, kind))

        return self.emit_pre(pre, ctx, body)

    none_kinds: dict = {}

    def value_term(self, term, kind):
        return term

    def oracle(self, node, ctx, pre):
        """if `node` is directly a user / system call: (oracle term, kind) else None"""
        return None

    # -- loops --------------------------------------------------------------------------
    def range_arg(self, s: ast.For, ctx):
        it = s.iter
        if not (isinstance(it, ast.Call) and isinstance(it.func, ast.Name) and it.func.id == "range"
                and len(it.args) == 1 and not it.keywords and isinstance(it.args[0], ast.Name)):
            raise U("loop is not `for … in range(<name>)`", s)
        n = it.args[0].id
        if n not in ctx.env or ctx.env[n][1] != "Nat":
            raise U(f"loop bound `{n}` is not an iteration-count parameter", s)
        if not isinstance(s.target, ast.Name):
            raise U("loop target", s)
        return n, (None if s.target.id == "_" else s.target.id)

    def for_loop(self, s: ast.For, rest, ctx: Ctx):
        bound, idx = self.range_arg(s, ctx)
        nested = ctx.loop is not None
        sc = Scan()
        end_defs = sc.block(s.body, set() if idx is None else {idx})
        if idx in sc.assigned:
            raise U("loop index assigned in the body", s)
        carried = [k for k in sc.assigned if k in sc.exposed]
        self.nloops += 1
        lname = f"{self.name}_loop_{self.nloops}"
        for k in carried:
            if k not in ctx.env:
                raise U(f"`{k}` is read in the loop before it is assigned", s)
        if not nested:
            if s.orelse:
                raise U("for … else on the outer loop", s)
            # everything after the loop is the fuel-0 case; variables the loop assigns and that code reads
            after = list(rest)
            after_try = []
            for t in reversed(ctx.handlers):
                pass
            post_reads = self.reads_after(s)
            for k in sc.assigned:
                if k in post_reads["real"] and k not in carried:
                    if k not in ctx.env:
                        raise U(f"`{k}` is read after the loop but only assigned inside it", s)
                    carried.append(k)
            unbound = [k for k in post_reads["msg"] if k in sc.assigned and k not in ctx.env and k not in carried]
            return self.tail_loop(s, lname, bound, idx, carried, unbound, rest, ctx, sc.assigned)
        return self.value_loop(s, lname, bound, idx, carried, sc, rest, ctx)

    def reads_after(self, loop: ast.For):
        """reads of the statements executed after the (outer) loop finishes normally"""
        real, msg = [], []

        def after(stmts, node):
            """statements following `node` in the statement list containing it (searching nested blocks)"""
            for k, st in enumerate(stmts):
                if st is node:
                    return stmts[k + 1:], True
                if isinstance(st, ast.Try):
                    r, found = after(st.body, node)
                    if found:
                        return r + stmts[k + 1:], True
            return [], False

        r, found = after(self.fn.body, loop)
        if not found:
            raise U("outer loop not at function / try level", loop)
        for st in r:
            if is_msg_stmt(st) or isinstance(st, ast.Raise):
                msg += loads(st)
            else:
                real += loads(st)
                if isinstance(st, ast.Try):
                    pass
        return {"real": real, "msg": msg}

    def params_for(self, lines, ctx, exclude):
        """variables of the environment that the generated text mentions -> parameters"""
        text = "\n".join(lines)
        ps = []
        for lean, ty in self.fixed_params():
            if lean not in exclude and re.search(rf"(?<![\w.]){re.escape(lean)}(?![\w'])", text):
                ps.append((lean, ty))
        for key, (lean, kind) in ctx.env.items():
            if lean in exclude or any(lean == p[0] for p in ps) or kind in ("fixed",):
                continue
            if re.search(rf"(?<![\w.]){re.escape(lean)}(?![\w'])", text):
                ps.append((lean, self.lean_type(kind)))
        return ps

    def tail_loop(self, s, lname, bound, idx, carried, unbound, rest, ctx, assigned=()):
        cvars = [(k, ctx.env[k][0], ctx.env[k][1]) for k in carried]
        call_holder = {}

        def rec_call(c):
            args = " ".join(atom(c.env[k][0]) for k, _, _ in cvars)
            ix = f" ({idx} + 1)" if idx else ""
            return [f"{lname}{call_holder['params']} fuel{ix} {args}".rstrip()]

        loop = {"kind": "tail", "name": lname, "idx": idx}
        benv = dict(ctx.env)
        if idx:
            benv[idx] = (idx, "Nat")
        # the body may contain a marker for the recursive call's parameter list: two passes
        call_holder["params"] = " §PARAMS§"
        body_ctx = ctx.with_(env=benv, loop=loop, cont=rec_call)
        body = self.block(s.body, body_ctx)
        zero_ctx = ctx.with_(env=benv, loop=None)
        zero = self.block(rest, zero_ctx.with_(cont=ctx.cont))
        if unbound:
            zero = [f"if {bound} = 0 then {self.unbound_outcome()} else  -- UnboundLocalError: "
                    f"`{unbound[0]}` is read after the loop but only assigned inside it"] + zero
        exclude = {lean for _, lean, _ in cvars} | ({idx} if idx else set()) | {"fuel"}
        exclude |= {self.lean_var(k) for k in assigned if k not in carried}   # written before read in the body
        params = self.params_for(body + zero, ctx, exclude)
        ptxt = "".join(f" {p}" for p, _ in params)
        body = [ln.replace(" §PARAMS§", ptxt) for ln in body]
        sig = " ".join(f"({p} : {ty})" for p, ty in params)
        tys = ["Nat"] + (["Nat"] if idx else []) + [self.lean_type(k) for _, _, k in cvars]
        pats = ", ".join(([idx] if idx else []) + [lean for _, lean, _ in cvars])
        d = [f"def {lname} {sig} : {' → '.join(tys)} → {self.result_type()}".replace("  ", " "),
             f"  | 0, {pats} =>"] + indent(zero, 4) + [f"  | fuel + 1, {pats} =>"] + indent(body, 4)
        self.aux.append("\n".join(d))
        init = " ".join(atom(ctx.env[k][0]) for k, _, _ in cvars)
        ix = " 0" if idx else ""
        return [f"{lname}{ptxt} {bound}{ix} {init}".rstrip()]

    def value_loop(self, s, lname, bound, idx, carried, sc, rest, ctx):
        raise U("nested loop", s)

    # -- function ------------------------------------------------------------------------
    def translate(self) -> str:
        raise NotImplementedError


# ---------------------------------------------------------------------------------------
# vocabulary A: fixed-point solvers  (Model/Solvers.lean)


STEFF_UPDATE = [
    "denom = x2 - 2 * x1 + x0",
    "denom[abs(denom) == 0.0] = np.finfo(x0.dtype).eps",
    "x = x0 - (x1 - x0) ** 2 / denom",
]


class FixedPoint(Translator):
    PARAMS = ["func", "x0", "convergence_tol", "divergence_tol", "max_iters", "norm"]

    def __init__(self, fn):
        super().__init__(fn)
        self.none_kinds = {}
        self.uses_upd = any(ast.unparse(st) == STEFF_UPDATE[0] for st in ast.walk(fn) if isinstance(st, ast.stmt))
        self.func_calls = 0
        self.calls_per_iter = None

    def lean_type(self, kind):
        return {"alpha": "α", "xnorm": "XNorm", "Nat": "Nat", "Rat": "Rat"}[kind]

    def result_type(self):
        return "Out α"

    def fixed_params(self):
        ps = [("func", "Nat → α → Except Fault α")]
        if self.uses_upd:
            ps.append(("upd", "α → α → α → Except Fault α"))
        ps += [("normDiff", "α → α → Except Fault XNorm"), ("convergence_tol", "Rat"), ("divergence_tol", "Rat"),
               ("max_iters", "Nat")]
        return ps

    def params_for(self, lines, ctx, exclude):
        # fixed signature (the Props module refers to it): all fixed parameters, always
        return [p for p in self.fixed_params()]

    def unbound_outcome(self):
        return ".foreignErr"

    def placeholder(self, kind):
        raise U("None placeholder in a fixed-point solver")

    def handler_def(self, t: ast.Try):
        """`Fault → Out α` for the handlers of `t` (generated once per try)"""
        if hasattr(t, "_lean_handler"):
            return t._lean_handler
        caught = set()
        for h in t.handlers:
            body = [x for x in h.body if not isinstance(x, ast.Assign)]
            r = body[0]
            exc = r.exc.func if isinstance(r.exc, ast.Call) else r.exc
            res = ".convErr" if exc is not None and ast.unparse(exc) == "ConvergenceError" else ".foreignErr"
            for nm in handler_names(h):
                caught.add((nm.split(".")[-1], res))
        res = {}
        for fault, names in (("valueError", ("ValueError", "Exception", "BaseException")),
                             ("linAlgError", ("LinAlgError", "Exception", "BaseException")),
                             ("foreign", ("BaseException",))):
            hit = [r for (nm, r) in caught if nm in names]
            res[fault] = hit[0] if hit else ".foreignErr"
        self.nhandlers += 1
        hname = f"{self.name}_handler_{self.nhandlers}"
        tup = ", ".join(n for h in t.handlers for n in handler_names(h))
        self.aux.append(
            f"/-- `except ({tup}) as e: … raise … from e` (line {t.handlers[0].lineno}) -/\n"
            f"def {hname} : Fault → Out α\n"
            f"  | .valueError => {res['valueError']}\n  | .linAlgError => {res['linAlgError']}\n"
            f"  | .foreign => {res['foreign']}")
        t._lean_handler = hname
        return hname

    def exc_branch(self, ctx):
        if not ctx.handlers:
            return "_", [".foreignErr"]
        return "f", [f"{self.handler_def(ctx.handlers[-1])} f"]

    def raise_outcome(self, s, ctx, in_handler):
        exc = s.exc.func if isinstance(s.exc, ast.Call) else s.exc
        nm = ast.unparse(exc).split(".")[-1] if exc is not None else "?"
        if ctx.handlers:
            h = self.handler_def(ctx.handlers[-1])
            caught = {n.split(".")[-1] for hh in ctx.handlers[-1].handlers for n in handler_names(hh)}
            if nm == "ValueError" and caught & {"ValueError", "Exception", "BaseException"}:
                return [f"{h} .valueError"]
            if nm == "LinAlgError" and caught & {"LinAlgError", "Exception", "BaseException"}:
                return [f"{h} .linAlgError"]
            if caught & {"Exception", "BaseException", nm}:
                return [f"{h} .foreign"] if nm != "ConvergenceError" else [".convErr"]
        return [".convErr" if nm == "ConvergenceError" else ".foreignErr"]

    def return_outcome(self, s, ctx):
        if not isinstance(s.value, ast.Name) or ctx.env.get(s.value.id, (None, None))[1] != "alpha":
            raise U("return value is not an iterate", s)
        return [f".ok {ctx.env[s.value.id][0]}"]

    def macro(self, stmts, ctx):
        if len(stmts) >= 3 and [ast.unparse(x) for x in stmts[:3]] == STEFF_UPDATE:
            for k in ("x0", "x1", "x2"):
                if ctx.env.get(k, (None, None))[1] != "alpha":
                    raise U("Steffensen update on non-iterates", stmts[0])
            pre = [("x", f"upd {ctx.env['x0'][0]} {ctx.env['x1'][0]} {ctx.env['x2'][0]}", [("x", "x", "alpha")])]
            return self.emit_pre(pre, ctx, lambda c: self.block(stmts[3:], c))
        if any(ast.unparse(stmts[0]) == u for u in STEFF_UPDATE):
            raise U("Steffensen update statements changed", stmts[0])
        return None

    def oracle(self, node, ctx, pre):
        if isinstance(node, ast.Call) and isinstance(node.func, ast.Name) and not node.keywords:
            if node.func.id == "func" and len(node.args) == 1 and isinstance(node.args[0], ast.Name):
                a = node.args[0].id
                if ctx.env.get(a, (None, None))[1] != "alpha":
                    raise U("func applied to a non-iterate", node)
                if ctx.loop is None or ctx.loop.get("idx") is None:
                    raise U("func called outside the indexed loop", node)
                j, k, i = self.func_calls, self.calls_per_iter, ctx.loop["idx"]
                self.func_calls += 1
                ix = i if k == 1 else (f"({k} * {i})" if j == 0 else f"({k} * {i} + {j})")
                return f"func {ix} {ctx.env[a][0]}", "alpha"
            if node.func.id == "norm" and len(node.args) == 1:
                d = node.args[0]
                if (isinstance(d, ast.BinOp) and isinstance(d.op, ast.Sub) and isinstance(d.left, ast.Name)
                        and isinstance(d.right, ast.Name)
                        and all(ctx.env.get(z.id, (None, None))[1] == "alpha" for z in (d.left, d.right))):
                    return f"normDiff {ctx.env[d.left.id][0]} {ctx.env[d.right.id][0]}", "xnorm"
                raise U("norm of something else than a difference of iterates", node)
        return None

    def expr(self, node, ctx, pre):
        if isinstance(node, ast.Name):
            if node.id not in ctx.env:
                raise U(f"unknown name {node.id}", node)
            return ctx.env[node.id]
        if isinstance(node, ast.BoolOp):
            parts = [self.expr(v, ctx, pre) for v in node.values]
            if any(k != "Bool" for _, k in parts):
                raise U("boolean operator on non-tests", node)
            op = " || " if isinstance(node.op, ast.Or) else " && "
            return "(" + op.join(t for t, _ in parts) + ")", "Bool"
        if isinstance(node, ast.Compare) and len(node.ops) == 1:
            le, lk = self.expr(node.left, ctx, pre)
            ri, rk = self.expr(node.comparators[0], ctx, pre)
            op = {ast.Gt: "gt", ast.GtE: "ge", ast.Lt: "lt", ast.LtE: "le"}.get(type(node.ops[0]))
            if op and lk == "xnorm" and rk == "Rat":
                return f"{le}.{op} {ri}", "Bool"
            flip = {"gt": "lt", "ge": "le", "lt": "gt", "le": "ge"}
            if op and lk == "Rat" and rk == "xnorm":
                return f"{ri}.{flip[op]} {le}", "Bool"
            raise U("comparison not of the form error <op> tolerance", node)
        if isinstance(node, ast.Call) and ast.unparse(node.func) in ("np.isnan", "numpy.isnan", "math.isnan") \
                and len(node.args) == 1:
            t, k = self.expr(node.args[0], ctx, pre)
            if k != "xnorm":
                raise U("isnan of a non-error", node)
            return f"{t}.isnan", "Bool"
        if isinstance(node, ast.UnaryOp) and isinstance(node.op, ast.Not):
            t, k = self.expr(node.operand, ctx, pre)
            if k != "Bool":
                raise U("not of a non-test", node)
            return f"(!{t})", "Bool"
        if self.oracle(node, ctx, []) is not None:
            t, k = self.oracle(node, ctx, pre)
            nm = self.fresh("tmp")
            pre.append((nm, t, []))
            return nm, k
        raise U(f"unsupported expression `{ast.unparse(node)[:60]}`", node)

    def translate(self):
        args = [a.arg for a in self.fn.args.args]
        if args != self.PARAMS or self.fn.args.vararg or self.fn.args.kwarg or self.fn.args.kwonlyargs:
            raise U(f"signature {args}")
        loops = [n for n in ast.walk(self.fn) if isinstance(n, ast.For)]
        if len(loops) != 1:
            raise U(f"{len(loops)} loops")
        self.calls_per_iter = sum(
            1 for n in ast.walk(ast.Module(body=loops[0].body, type_ignores=[]))
            if isinstance(n, ast.Call) and isinstance(n.func, ast.Name) and n.func.id == "func")
        outside = sum(1 for n in ast.walk(self.fn)
                      if isinstance(n, ast.Call) and isinstance(n.func, ast.Name) and n.func.id == "func")
        if outside != self.calls_per_iter:
            raise U("func called outside the loop")
        env = {"x0": ("x0", "alpha"), "convergence_tol": ("convergence_tol", "Rat"),
               "divergence_tol": ("divergence_tol", "Rat"), "max_iters": ("max_iters", "Nat")}
        ctx = Ctx(self, env, [], None, lambda c: (_ for _ in ()).throw(U("function body falls off its end")))
        body = self.block(self.fn.body, ctx)
        sig = " ".join(f"({p} : {ty})" for p, ty in self.fixed_params())
        main = [f"def {self.name} {sig} (x0 : α) : Out α :="] + indent(body)
        return "\n\n".join(self.aux + ["\n".join(main)])

    def stub(self):
        sig = " ".join(f"({p} : {ty})" for p, ty in self.fixed_params())
        return f"def {self.name} {sig} (x0 : α) : Out α := .foreignErr"


# ---------------------------------------------------------------------------------------
# vocabulary B: projection solvers  (Model/Constrained.lean)


VEC = ("vecN", "vecC")
MATMUL = {("matNN", "vecN"): "vecN", ("matCC", "vecC"): "vecC", ("matCN", "vecN"): "vecC", ("matNC", "vecC"): "vecN"}


class Projection(Translator):
    BASE = ["state", "state_prev", "time_step", "system", "constraint_tol", "position_tol", "divergence_tol", "max_iters"]

    def __init__(self, fn):
        super().__init__(fn)
        self.none_kinds = {}
        self.lenient = False
        self.raise_msg = {}
        self.index_raises(fn.body)

    def index_raises(self, stmts):
        last = None
        for st in stmts:
            if is_msg_stmt(st):
                last = st
            if isinstance(st, ast.Raise):
                txt = ""
                if st.exc is not None:
                    txt = const_text(st.exc)
                    if last is not None and any(isinstance(n, ast.Name) and n.id == last.targets[0].id
                                                for n in ast.walk(st.exc)):
                        txt += " " + const_text(last.value)
                self.raise_msg[id(st)] = txt
            for f in ("body", "orelse", "finalbody"):
                if hasattr(st, f) and isinstance(getattr(st, f), list):
                    self.index_raises(getattr(st, f))
            for h in getattr(st, "handlers", []):
                self.index_raises(h.body)

    def lean_type(self, kind):
        return {"vecN": "Vec K n", "vecC": "Vec K c", "matCN": "Mat K c n", "matNN": "Mat K n n",
                "matCC": "Mat K c c", "K": "K", "Nat": "Nat", "?": "Unit", "none": "Unit"}[kind]

    def result_type(self):
        return "Outcome K n"

    def fixed_params(self):
        return [("O", "Oracles K n c"), ("T", "Tol K"), ("max_iters", "Nat"), ("max_line_search_iters", "Nat"),
                ("time_step", "K")]

    def params_for(self, lines, ctx, exclude):
        fixed = {p for p, _ in self.fixed_params()}
        env = {k: v for k, v in ctx.env.items() if "." not in v[0] and v[0] not in fixed}
        return super().params_for(lines, ctx.with_(env=env), exclude)

    def unbound_outcome(self):
        return ".unboundLocal"

    def placeholder(self, kind):
        return {"vecN": "vec 0", "vecC": "vec 0", "K": "0"}.get(kind) or (_ for _ in ()).throw(U("None placeholder of array type"))

    # -- outcomes -----------------------------------------------------------------------
    def where(self, ctx):
        i = ctx.env["i"][0] if "i" in ctx.env and ctx.env["i"][1] == "Nat" else "0"
        if ctx.env.get("state.pos", (None, None))[1] != "vecN":
            raise U("state.pos is not a position vector")
        return i, ctx.env["state.pos"][0]

    def check_handler(self, t: ast.Try, ctx):
        caught = {n.split(".")[-1] for h in t.handlers for n in handler_names(h)}
        if not {"ValueError", "LinAlgError"} <= caught:
            raise U("handler does not catch both ValueError and LinAlgError: the escaping exception is not "
                    "expressible in the model's Outcome type", t.handlers[0] if t.handlers else t)
        for h in t.handlers:
            r = [x for x in h.body if isinstance(x, ast.Raise)][0]
            exc = r.exc.func if isinstance(r.exc, ast.Call) else r.exc
            if exc is None or ast.unparse(exc).split(".")[-1] != "ConvergenceError":
                raise U("handler does not raise ConvergenceError", h)
            for k in loads(ast.Module(body=h.body, type_ignores=[])):
                if k in (h.name, "type", "ConvergenceError", "msg", "str", "repr"):
                    continue
                if k not in ctx.env:
                    raise U(f"`{k}` may be unbound when the handler formats its message", h)

    def exc_branch(self, ctx):
        if not ctx.handlers:
            raise U("a user / system call outside every try: its ValueError / LinAlgError would escape, which is "
                    "not expressible in the model's Outcome type")
        self.check_handler(ctx.handlers[-1], ctx)
        i, pos = self.where(ctx)
        if ctx.loop is not None and ctx.loop["kind"] == "value":
            return "e", [f".error (e, {pos})"]
        return "_", [f".convergenceError .fault {i} {pos}"]

    def raise_outcome(self, s, ctx, in_handler):
        if ctx.loop is not None and ctx.loop["kind"] == "value":
            raise U("raise inside the nested loop", s)
        exc = s.exc.func if isinstance(s.exc, ast.Call) else s.exc
        if exc is None or ast.unparse(exc).split(".")[-1] != "ConvergenceError":
            raise U("raise of something else than ConvergenceError", s)
        txt = self.raise_msg.get(id(s), "")
        reason = "diverged" if "diverged" in txt else "maxIters" if "did not converge" in txt else None
        if reason is None:
            raise U("cannot classify the ConvergenceError message", s)
        i, pos = self.where(ctx)
        return [f".convergenceError .{reason} {i} {pos}"]

    def return_outcome(self, s, ctx):
        if ctx.loop is not None and ctx.loop["kind"] == "value":
            raise U("return inside the nested loop", s)
        if not (isinstance(s.value, ast.Name) and s.value.id == "state"):
            raise U("return of something else than `state`", s)
        for k, kind in (("state.pos", "vecN"), ("state.mom", "vecN"), ("mu", "vecN"), ("i", "Nat")):
            if ctx.env.get(k, (None, None))[1] != kind:
                raise U(f"`{k}` not available at return", s)
        e = ctx.env
        return [f".ok {e['state.pos'][0]} {e['state.mom'][0]} {e['mu'][0]} {e['i'][0]}"]

    # -- expressions ---------------------------------------------------------------------
    @staticmethod
    def fnv(term, view):
        return f"{atom(term)}.fn" if view == "val" else term

    @staticmethod
    def valv(term, view):
        return term if view == "val" else f"vec ({term})"

    def state_pos(self, node, ctx):
        if isinstance(node, ast.Name) and node.id in STATE_OBJS and f"{node.id}.pos" in ctx.env:
            return ctx.env[f"{node.id}.pos"][0]
        raise U("system function applied to something else than state / state_prev", node)

    def oracle(self, node, ctx, pre):
        if isinstance(node, ast.Call) and isinstance(node.func, ast.Attribute) and isinstance(node.func.value, ast.Name) \
                and node.func.value.id == "system" and not node.keywords:
            m = node.func.attr
            if m == "constr" and len(node.args) == 1:
                return f"O.constr {self.state_pos(node.args[0], ctx)}", "vecC"
            if m == "jacob_constr" and len(node.args) == 1:
                return f"O.jacob {self.state_pos(node.args[0], ctx)}", "matCN"
            if m == "jacob_constr_inner_product":
                raise U("jacob_constr_inner_product(…) used without .inv", node)
            if m == "dh2_flow_dmom":
                raise U("dh2_flow_dmom outside a two-name tuple assignment", node)
            raise U(f"unknown system method {m}", node)
        if isinstance(node, ast.Attribute) and node.attr == "inv" and isinstance(node.value, ast.Call) \
                and ast.unparse(node.value.func) == "system.jacob_constr_inner_product":
            args = node.value.args
            if node.value.keywords or len(args) not in (2, 3):
                raise U("jacob_constr_inner_product arguments", node)
            ts = []
            for a, want in zip(args, ("matCN", "matNN", "matCN")):
                if not isinstance(a, ast.Name) or ctx.env.get(a.id, (None, None))[1] != want:
                    raise U("jacob_constr_inner_product argument types", node)
                ts.append(ctx.env[a.id][0])
            if len(ts) == 2:
                ts.append(ts[0])   # jacob_constr_2=None -> jacob_constr_1
            return f"O.inv (innerProduct {ts[0]} {ts[1]} {ts[2]})", "matCC"
        return None

    def assign_tuple(self, t, value, s, ctx, nxt):
        if (len(t.elts) == 2 and all(isinstance(e, ast.Name) for e in t.elts) and isinstance(value, ast.Call)
                and ast.unparse(value.func) == "system.dh2_flow_dmom" and len(value.args) == 2 and not value.keywords):
            pre = []
            dt, k = self.expr(value.args[1], ctx, pre)
            if k != "K":
                raise U("dh2_flow_dmom time argument", s)
            a, b = t.elts[0].id, t.elts[1].id
            pre.append((f"({a}, {b})", f"O.flowD {self.state_pos(value.args[0], ctx)} {atom(dt)}",
                        [(a, a, "matNN"), (b, b, "matNN")]))
            return self.emit_pre(pre, ctx, nxt)
        raise U("tuple assignment", s)

    def expr(self, node, ctx, pre):
        t, k, v = self.ex(node, ctx, pre)
        if k in VEC or k.startswith("mat"):
            if k == "matNC":
                raise U("transposed matrix as a value", node)
            return self.valv(t, v), k
        return t, k

    def num(self, node, want):
        fr = Fraction(str(node.value))
        if want == "Nat":
            if fr.denominator != 1 or fr < 0:
                raise U("non-integer literal compared with an integer", node)
            return str(fr.numerator)
        if fr.denominator == 1:
            return str(fr.numerator) if fr >= 0 else f"(-{-fr.numerator})"
        return f"({fr.numerator} / {fr.denominator} : K)"

    def ex(self, node, ctx, pre):  # noqa: C901, PLR0911, PLR0912
        """-> (term, kind, view)   view: 'val' materialised Vec/Mat, 'fn' function view, None scalars"""
        key = vname(node)
        if key is not None:
            if key not in ctx.env:
                raise U(f"unknown / unbound name {key}", node)
            lean, kind = ctx.env[key]
            if kind == "none":
                if key in self.none_kinds:
                    kind = self.none_kinds[key]
                elif self.lenient:
                    return lean, "?", None
                else:
                    raise U(f"read of the None placeholder `{key}`", node)
            return lean, kind, ("val" if kind in VEC or kind.startswith("mat") else None)
        if isinstance(node, ast.Constant):
            if node.value is None:
                return "none", "none", None
            if isinstance(node.value, (int, float)) and not isinstance(node.value, bool):
                return node, "num", None
            raise U("unsupported literal", node)
        if isinstance(node, ast.Attribute) and node.attr == "T":
            t, k, v = self.ex(node.value, ctx, pre)
            if k == "?":
                return t, k, v
            if k != "matCN":
                raise U(".T of something else than a constraint Jacobian", node)
            return f"{self.fnv(t, v)}ᵀ", "matNC", "fn"
        orc = self.oracle(node, ctx, pre)
        if orc is not None:
            term, kind = orc
            base = "inv" if kind == "matCC" else "jacob_constr" if kind == "matCN" else "constr"
            nm = self.fresh(base)
            pre.append((nm, term, []))
            return nm, kind, "val"
        if isinstance(node, ast.Call) and not node.keywords:
            f = ast.unparse(node.func)
            if isinstance(node.func, ast.Attribute) and node.func.attr == "copy" and not node.args:
                return self.ex(node.func.value, ctx, pre)
            if len(node.args) == 1:
                if f in ("np.zeros_like", "numpy.zeros_like"):
                    t, k, v = self.ex(node.args[0], ctx, pre)
                    if k not in VEC:
                        raise U("zeros_like of a non-vector", node)
                    return "vec 0", k, "val"
                t, k, v = self.ex(node.args[0], ctx, pre)
                if k == "num":
                    t, k = self.num(t, "K"), "K"
                if f == "norm":
                    if k == "?":
                        return "0", "K", None
                    if k not in VEC:
                        raise U("norm of a non-vector", node)
                    return f"O.{'normC' if k == 'vecC' else 'normP'} {atom(self.valv(t, v))}", "K", None
                if f == "abs" and k in ("K", "?"):
                    return f"|{t}|", "K", None
                if f in ("np.sign", "numpy.sign") and k in ("K", "?"):
                    return f"sgn {atom(t)}", "K", None
                if f in ("np.isnan", "numpy.isnan", "math.isnan") and k in ("K", "?"):
                    return f"isNaN {atom(t)}", "Prop", None
            raise U(f"unsupported call `{ast.unparse(node)[:60]}`", node)
        if isinstance(node, ast.UnaryOp) and isinstance(node.op, ast.USub):
            t, k, v = self.ex(node.operand, ctx, pre)
            if k == "num":
                return f"(-{self.num(t, 'K')})", "K", None
            if k in ("K", "?"):
                return f"-{atom(t)}", k, None
            return f"(-{self.fnv(t, v)})", k, "fn"
        if isinstance(node, ast.UnaryOp) and isinstance(node.op, ast.Not):
            t, k, v = self.ex(node.operand, ctx, pre)
            if k != "Prop":
                raise U("not of a non-test", node)
            return f"¬ {atom(t)}", "Prop", None
        if (isinstance(node, ast.BinOp) and isinstance(node.op, ast.MatMult)
                and isinstance(node.left, ast.Attribute) and node.left.attr == "T"
                and isinstance(node.left.value, ast.Name)
                and ctx.env.get(node.left.value.id, (None, None))[1] == "matCN"
                and isinstance(node.right, ast.BinOp) and isinstance(node.right.op, ast.MatMult)):
            # vocabulary of the hand model: A.T @ (B @ v) = deltaMu A B v
            bt, bk, bv = self.ex(node.right.left, ctx, pre)
            vt, vk, vv = self.ex(node.right.right, ctx, pre)
            if bk == "?" or vk == "?":
                return "0", "?", None
            if bk != "matCC" or vk != "vecC":
                raise U(f"unsupported product matNC @ ({bk} @ {vk})", node)
            return (f"deltaMu {ctx.env[node.left.value.id][0]} {atom(self.valv(bt, bv))} {atom(self.valv(vt, vv))}",
                    "vecN", "val")
        if isinstance(node, ast.BinOp):
            lt, lk, lv = self.ex(node.left, ctx, pre)
            rt, rk, rv = self.ex(node.right, ctx, pre)
            if "?" in (lk, rk):
                return "0", "?", None
            if lk == "num":
                lt, lk = self.num(lt, "K"), "K"
            if rk == "num":
                rt, rk = self.num(rt, "K"), "K"
            if isinstance(node.op, ast.MatMult):
                res = MATMUL.get((lk, rk))
                if res is None:
                    raise U(f"unsupported product {lk} @ {rk}", node)
                return f"{atom(self.fnv(lt, lv))} *ᵥ {atom(self.fnv(rt, rv))}", res, "fn"
            if isinstance(node.op, ast.Mult):
                if lk == "K" and rk == "K":
                    return f"{atom(lt)} * {atom(rt)}", "K", None
                if lk == "K" and (rk in VEC or rk.startswith("mat")):
                    return f"{atom(lt)} • {atom(self.fnv(rt, rv))}", rk, "fn"
                if rk == "K" and lk in VEC:
                    return f"{atom(rt)} • {atom(self.fnv(lt, lv))}", lk, "fn"
                raise U(f"unsupported product {lk} * {rk}", node)
            if isinstance(node.op, (ast.Add, ast.Sub)):
                op = "+" if isinstance(node.op, ast.Add) else "-"
                if lk == rk and lk in VEC:
                    return f"{atom(self.fnv(lt, lv))} {op} {atom(self.fnv(rt, rv))}", lk, "fn"
                if lk == "K" and rk == "K":
                    return f"{atom(lt)} {op} {atom(rt)}", "K", None
                raise U(f"unsupported sum {lk} {op} {rk}", node)
            raise U("unsupported arithmetic operator", node)
        if isinstance(node, ast.Compare) and len(node.ops) == 1:
            lt, lk, _ = self.ex(node.left, ctx, pre)
            rt, rk, _ = self.ex(node.comparators[0], ctx, pre)
            op = {ast.Gt: ">", ast.GtE: "≥", ast.Lt: "<", ast.LtE: "≤", ast.Eq: "=", ast.NotEq: "≠"}.get(type(node.ops[0]))
            if op is None:
                raise U("unsupported comparison", node)
            if "?" in (lk, rk):
                return "True", "Prop", None
            if lk == "num" and rk in ("K", "Nat"):
                lt, lk = self.num(lt, rk), rk
            if rk == "num" and lk in ("K", "Nat"):
                rt, rk = self.num(rt, lk), lk
            if lk != rk or lk not in ("K", "Nat"):
                raise U(f"comparison of {lk} with {rk}", node)
            return f"{atom(lt)} {op} {atom(rt)}", "Prop", None
        if isinstance(node, ast.BoolOp):
            parts = [self.ex(v, ctx, pre) for v in node.values]
            if any(k != "Prop" for _, k, _ in parts):
                raise U("boolean operator on non-tests", node)
            op = " ∨ " if isinstance(node.op, ast.Or) else " ∧ "
            return op.join((f"({t})" if isinstance(v, ast.BoolOp) else t)
                           for (t, _, _), v in zip(parts, node.values)), "Prop", None
        raise U(f"unsupported expression `{ast.unparse(node)[:60]}`", node)

    def assign_one(self, key, value, s, ctx, nxt):
        if isinstance(value, ast.Constant) and value.value is None:
            lean = self.lean_var(key)
            if key in self.none_kinds:
                k2 = self.none_kinds[key]
                return [f"let {lean} : {self.lean_type(k2)} := {self.placeholder(k2)}  -- None placeholder"] + \
                    nxt(ctx.bind(key, lean, k2))
            if self.lenient:
                return nxt(ctx.bind(key, lean, "none"))
            raise U(f"cannot determine the type of the None placeholder `{key}`", s)
        if isinstance(value, ast.Constant) and isinstance(value.value, (int, float)) and not isinstance(value.value, bool):
            lean = self.lean_var(key)
            kd = "Nat" if isinstance(value.value, int) and value.value >= 0 else "K"
            self.none_kinds.setdefault(key, kd)
            return [f"let {lean} : {kd} := {self.num(value, kd)}"] + nxt(ctx.bind(key, lean, kd))
        return super().assign_one(key, value, s, ctx, nxt)

    # -- nested loop -----------------------------------------------------------------------
    def value_loop(self, s, lname, bound, idx, carried, sc, rest, ctx):
        if idx is not None:
            raise U("nested loop with a named index", s)
        if ctx.loop is None or ctx.loop["kind"] != "tail":
            raise U("loop nesting deeper than two", s)
        inside = {id(n) for n in ast.walk(s)}
        outside = []
        for n in ast.walk(self.fn):
            if id(n) in inside or not isinstance(n, (ast.Name, ast.Attribute)):
                continue
            if isinstance(n, ast.Name) and isinstance(n.ctx, ast.Load) and n.id in STATE_OBJS:
                outside += [n.id + ".pos", n.id + ".mom"]
            elif vname(n) is not None and isinstance(n.ctx, ast.Load):
                outside.append(vname(n))
        sc_else = Scan()
        d_else = sc_else.block(s.orelse, set())
        for k in sc_else.assigned:
            if k not in sc.assigned:
                sc.assigned.append(k)
        outputs = [k for k in sc.assigned if k in outside]
        exits = list(sc.break_defs) + ([d_else] if d_else is not None else [])
        for k in outputs + [k for k in sc_else.exposed if k in sc.assigned]:
            if k not in carried and not all(k in d for d in exits):
                carried.append(k)
        for k in carried:
            if k not in ctx.env:
                raise U(f"`{k}` is read in the nested loop before it is assigned", s)
        cvars = [(k, ctx.env[k][0], ctx.env[k][1] if ctx.env[k][1] != "none" else self.none_kinds.get(k, "?"))
                 for k in carried]
        if not outputs:
            raise U("nested loop without effect", s)

        def ok(c):
            for k in outputs:
                if k not in c.env:
                    raise U(f"`{k}` not assigned on an exit path of the nested loop", s)
            ts = [c.env[k][0] for k in outputs]
            return f".ok ({', '.join(ts)})" if len(ts) > 1 else f".ok {ts[0]}"

        def rec_call(c):
            args = " ".join(atom(c.env[k][0]) for k, _, _ in cvars)
            return [f"{lname} §PARAMS§ fuel {args}".rstrip()]

        loop = {"kind": "value", "name": lname, "idx": None, "ok": ok}
        # the loop body must not see the variables it does not carry but assigns: they keep their outer binding
        # only until (re)assigned, which is what shadowing gives
        body = self.block(s.body, ctx.with_(loop=loop, cont=rec_call))
        zero = self.block(s.orelse, ctx.with_(loop=loop, cont=lambda c: [ok(c)]))
        exclude = {lean for _, lean, _ in cvars} | {"fuel"}
        exclude |= {self.lean_var(k) for k in sc.assigned if k not in carried}   # written before read in the body
        params = self.params_for(body + zero, ctx, exclude)
        ptxt = " ".join(p for p, _ in params)
        body = [ln.replace("§PARAMS§", ptxt) for ln in body]
        okinds = []
        for k in outputs:
            kd = ctx.env[k][1] if k in ctx.env else None
            kd = self.none_kinds.get(k, kd) if kd in (None, "none") else kd
            if kd is None:
                raise U(f"type of the loop output `{k}` unknown", s)
            okinds.append(kd)
        oty = " × ".join(self.lean_type(k) for k in okinds)
        sig = " ".join(f"({p} : {ty})" for p, ty in params)
        tys = ["Nat"] + [self.lean_type(k) for _, _, k in cvars]
        pats = ", ".join(["fuel + 1"] + [lean for _, lean, _ in cvars])
        pats0 = ", ".join(["0"] + [lean for _, lean, _ in cvars])
        d = [f"def {lname} {sig} : {' → '.join(tys)} → Except (Fault × Vec K n) ({oty})",
             f"  | {pats0} =>"] + indent(zero, 4) + [f"  | {pats} =>"] + indent(body, 4)
        self.aux.append("\n".join(d))
        init = " ".join(atom(ctx.env[k][0]) for k, _, _ in cvars)
        outer_exc = self.exc_branch(ctx.with_(loop=ctx.loop))[1]
        pos_lean = ctx.env["state.pos"][0]
        opat = ", ".join(self.lean_var(k) for k in outputs)
        lines = [f"match {lname} {ptxt} {bound} {init} with".replace("  ", " "),
                 f"| .error (_, {pos_lean}) => {outer_exc[0]}",
                 f"| .ok {'(' + opat + ')' if len(outputs) > 1 else opat} =>"]
        c2 = ctx
        for k, kd in zip(outputs, okinds):
            c2 = c2.bind(k, self.lean_var(k), kd)
        return lines + self.block(rest, c2)

    # -- function ------------------------------------------------------------------------
    def run_once(self):
        self.aux, self.nloops, self.nhandlers, self.ntmp = [], 0, 0, 0
        args = [a.arg for a in self.fn.args.args]
        ls = "max_line_search_iters" in args
        want = self.BASE + (["max_line_search_iters"] if ls else []) + ["norm"]
        if args != want or self.fn.args.vararg or self.fn.args.kwarg or self.fn.args.kwonlyargs:
            raise U(f"signature {args}")
        self.has_ls = ls
        env = {"state.pos": ("state_pos", "vecN"), "state.mom": ("state_mom", "vecN"),
               "state_prev.pos": ("state_prev_pos", "vecN"), "time_step": ("time_step", "K"),
               "constraint_tol": ("T.ctol", "K"), "position_tol": ("T.ptol", "K"), "divergence_tol": ("T.dtol", "K"),
               "max_iters": ("max_iters", "Nat")}
        if ls:
            env["max_line_search_iters"] = ("max_line_search_iters", "Nat")
        ctx = Ctx(self, env, [], None, lambda c: (_ for _ in ()).throw(U("function body falls off its end")))
        return self.block(self.fn.body, ctx)

    def main_sig(self):
        ls = " max_line_search_iters" if self.has_ls else ""
        return (f"(O : Oracles K n c) (T : Tol K) (max_iters{ls} : Nat) (time_step : K) "
                "(state_pos state_mom state_prev_pos : Vec K n) : Outcome K n")

    def translate(self):
        self.lenient = True
        self.run_once()          # pass 1: types of the None placeholders
        self.lenient = False
        body = self.run_once()
        main = [f"def {self.name} {self.main_sig()} :="] + indent(body)
        return "\n\n".join(self.aux + ["\n".join(main)])


def proj_stub_for(name, loops):
    ls = " max_line_search_iters" if "line_search" in name else ""
    return (f"def {name} (O : Oracles K n c) (T : Tol K) (max_iters{ls} : Nat) (time_step : K) "
            "(state_pos state_mom state_prev_pos : Vec K n) : Outcome K n := .unboundLocal")


Projection.stub_for = staticmethod(proj_stub_for)


# ---------------------------------------------------------------------------------------
# output


FP_HEADER = """/- GENERATED by tools/extractors/solver_loops.py from src/mici/solvers.py of the tree under test.
   Do not edit.  See the docstring of the extractor for the translation conventions. -/
import MiciVerif.Lemmas.SolverLoopsPrims
set_option linter.unusedVariables false
namespace MiciVerif.Generated.SolverLoops
open MiciVerif.Solvers

section
variable {α : Type}
"""

FP_FOOTER = """
end
end MiciVerif.Generated.SolverLoops
"""


def find_fn(tree, name):
    hits = [n for n in tree.body if isinstance(n, ast.FunctionDef) and n.name == name]
    if len(hits) != 1:
        raise U(f"{len(hits)} definitions of {name}")
    return hits[0]


def translate_one(tree, name, cls, expected_loops):
    """-> Lean text for one solver (definitions or stub), never raises"""
    tr = None
    try:
        if tree is None:
            raise U("solvers.py missing or not parseable")
        tr = cls(find_fn(tree, name))
        text = tr.translate()
        have = [f"{name}_loop_{k + 1}" for k in range(tr.nloops)]
        if have != expected_loops:
            raise U(f"loops {have} instead of {expected_loops}")
        return f"def {name}_translated : Bool := true\n\n{text}\n"
    except Exception as e:  # noqa: BLE001  (fail closed on anything)
        reason = str(e) if isinstance(e, Untranslatable) else "translator error: " + traceback.format_exc()[-200:]
        stub = cls.stub_for(name, expected_loops)
        return f"/- NOT TRANSLATED: {clean(reason)} -/\ndef {name}_translated : Bool := false\n\n{stub}\n"


def fp_stub_for(name, loops):
    upd = "(upd : α → α → α → Except Fault α) " if "steffensen" in name else ""
    sig = (f"(func : Nat → α → Except Fault α) {upd}(normDiff : α → α → Except Fault XNorm) "
           "(convergence_tol : Rat) (divergence_tol : Rat) (max_iters : Nat)")
    out = [f"def {ln} {sig} : Nat → Nat → α → Out α := fun _ _ _ => .foreignErr" for ln in loops]
    out.append(f"def {name} {sig} (x0 : α) : Out α := .foreignErr")
    return "\n".join(out)


FixedPoint.stub_for = staticmethod(fp_stub_for)


def emit(repo: Path, out: Path) -> None:
    try:
        tree = ast.parse((repo / "src" / "mici" / "solvers.py").read_text())
    except Exception:  # noqa: BLE001
        tree = None
    parts = [FP_HEADER]
    for name in ("solve_fixed_point_direct", "solve_fixed_point_steffensen"):
        parts.append(translate_one(tree, name, FixedPoint, [f"{name}_loop_1"]))
    (out / "SolverLoops.lean").write_text("\n".join(parts) + FP_FOOTER)
    emit_proj(tree, out)


PROJ_HEADER = """/- GENERATED by tools/extractors/solver_loops.py from src/mici/solvers.py of the tree under test.
   Do not edit.  See the docstring of the extractor for the translation conventions. -/
import MiciVerif.Lemmas.SolverLoopsProj
set_option linter.unusedVariables false
namespace MiciVerif.Generated.SolverLoopsProj
open Matrix MiciVerif.Constrained

section
variable {K : Type*} [Field K] [LinearOrder K] {n c : Nat}
"""

PROJ_FOOTER = """
end
end MiciVerif.Generated.SolverLoopsProj
"""

PROJ = {
    "solve_projection_onto_manifold_quasi_newton": 1,
    "solve_projection_onto_manifold_newton": 1,
    "solve_projection_onto_manifold_newton_with_line_search": 2,
}


def emit_proj(tree, out: Path) -> None:
    parts = [PROJ_HEADER]
    for name, nl in PROJ.items():
        parts.append(translate_one(tree, name, Projection, [f"{name}_loop_{k + 1}" for k in range(nl)]))
    (out / "SolverLoopsProj.lean").write_text("\n".join(parts) + PROJ_FOOTER)
