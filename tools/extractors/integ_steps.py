"""Translator plug-in for C02 / C06 (and C03): step structure of ``mici.integrators``.

Pure ``ast`` walking of ``<repo>/src/mici/integrators.py`` (never imported).  Writes
``Generated/IntegSteps.lean`` with, for every integrator class of the module:

* ``<cls>Step : List Call``        the ordered calls made by the effective ``_step`` (own or inherited): callee
                                   (``system.h1_flow`` / ``system.h2_flow`` / ``self.<helper>``) and the time argument as an
                                   exact rational multiple of ``time_step`` (``0.5 * time_step``, ``time_step / 2``, ...)
* ``<cls>Methods``                 what every helper called from ``_step`` does (``Method``): flow call (+ cotangent
                                   projection), implicit fixed-point update (which variable, sign, derivative, time factor,
                                   which solver attribute is finally called), explicit update followed by the reverse check
                                   (adjoint helper, its time argument - the code passes ``-time_step`` -, compared component,
                                   reference saved before the update, norm / tolerance attributes, comparison operator,
                                   raised class), the constrained ``_step_b`` loop
* ``coefficients`` / ``flows`` / ``symCompStep``  ``SymmetricCompositionIntegrator.__init__`` and ``._step`` translated
                                   statement by statement into Lean FUNCTIONS (slices ``l[k::2]`` -> ``pySliceFrom k 2 l``,
                                   ``l[-2::-1]`` -> ``pySliceRevFromNeg 2 l``, ``0.5`` -> ``1/2``)
* ``bcssN : BCSSInit``, ``bcssNLits``  the ``super().__init__`` call of the BCSS classes and the exact rationals of their
                                   decimal literals (source text) and of the floats Python computes from them
* ``stepWrapper : StepWrapper``    ``Integrator.step``: works on ``state.copy()``, passes ``state.dir * self.step_size``,
                                   converts which exceptions into which
* ``stepFrom`` / ``stepWrapperFrom``  which class's ``_step`` / ``step`` is effective for each class

Fail closed: every shape that is not recognised is recorded in ``unknown`` (a list of strings that the
theorems of Props/C06S.lean require to be empty) and the corresponding definition degenerates
(``Method.unknown``, empty call list, constant function), so that the ``…_eq_model`` theorems fail.
``extract(repo)`` returns the same information as Python data (used by the harnesses to aim the
failing-input search at the class whose table changed).
"""
from __future__ import annotations

import ast
import copy
from fractions import Fraction
from pathlib import Path

SRC = "src/mici/integrators.py"

CLASSES = [
    ("LeapfrogIntegrator", "leapfrog"),
    ("SymmetricCompositionIntegrator", "symComp"),
    ("BCSSTwoStageIntegrator", "bcss2"),
    ("BCSSThreeStageIntegrator", "bcss3"),
    ("BCSSFourStageIntegrator", "bcss4"),
    ("ImplicitLeapfrogIntegrator", "implicitLeapfrog"),
    ("ImplicitMidpointIntegrator", "implicitMidpoint"),
    ("ConstrainedLeapfrogIntegrator", "constrainedLeapfrog"),
]


class Unknown(Exception):
    pass


# ---------------------------------------------------------------------------------------------
# generic helpers


def _body(fn):
    b = list(fn.body)
    if b and isinstance(b[0], ast.Expr) and isinstance(b[0].value, ast.Constant) and isinstance(b[0].value.value, str):
        b = b[1:]
    return b


def _params(fn):
    a = fn.args
    if a.vararg or a.kwarg or a.kwonlyargs or a.posonlyargs or fn.decorator_list:
        raise Unknown(f"{fn.name}: signature")
    return [x.arg for x in a.args]


_SKIP = {"ctx", "lineno", "col_offset", "end_lineno", "end_col_offset", "type_comment", "annotation", "returns", "kind",
         "type_params"}


def unify(t, a, holes):
    """Structural match of template node `t` against actual node `a`.
    Names / attribute names / argument names `HN_x` bind identifier strings, names `HX_x` bind arbitrary
    expression nodes; a hole bound twice must be bound to the same thing."""
    if isinstance(t, ast.Name) and t.id.startswith("HX_"):
        if not isinstance(a, ast.expr):
            return False
        if t.id in holes:
            return ast.dump(holes[t.id]) == ast.dump(a)
        holes[t.id] = a
        return True
    if isinstance(t, ast.Name) and t.id.startswith("HN_"):
        return isinstance(a, ast.Name) and _bind(holes, t.id, a.id)
    if type(t) is not type(a):
        return False
    if isinstance(t, ast.Attribute) and t.attr.startswith("HN_"):
        return _bind(holes, t.attr, a.attr) and unify(t.value, a.value, holes)
    if isinstance(t, ast.arg) and t.arg.startswith("HN_"):
        return _bind(holes, t.arg, a.arg)
    if isinstance(t, ast.FunctionDef):
        if t.decorator_list or a.decorator_list:
            return False
        if not t.name.startswith("HN_") and t.name != a.name:
            return False
        if t.name.startswith("HN_") and not _bind(holes, t.name, a.name):
            return False
        return unify(t.args, a.args, holes) and _unify_list(_body(t), _body(a), holes)
    if isinstance(t, ast.AST):
        for f in t._fields:
            if f in _SKIP:
                continue
            tv, av = getattr(t, f, None), getattr(a, f, None)
            if isinstance(tv, list):
                if not isinstance(av, list) or not _unify_list(tv, av, holes):
                    return False
            elif isinstance(tv, ast.AST):
                if not isinstance(av, ast.AST) or not unify(tv, av, holes):
                    return False
            elif tv != av or type(tv) is not type(av):
                return False
        return True
    return t == a


def _bind(holes, k, v):
    if k in holes:
        return holes[k] == v
    holes[k] = v
    return True


def _unify_list(ts, as_, holes):
    return len(ts) == len(as_) and all(unify(x, y, holes) for x, y in zip(ts, as_))


def match_stmts(template_src, stmts):
    """-> holes dict or None"""
    tmpl = ast.parse(_dedent(template_src)).body
    holes: dict = {}
    return holes if _unify_list(tmpl, stmts, holes) else None


def _dedent(s):
    import textwrap

    return textwrap.dedent(s).strip() + "\n"


def lit_fraction(node, src):
    """Exact rational of a numeric literal: of its decimal source text when available."""
    if isinstance(node, ast.Constant) and type(node.value) in (int, float):
        seg = ast.get_source_segment(src, node) if src is not None and hasattr(node, "lineno") else None
        if seg is not None:
            try:
                return Fraction(seg.replace("_", ""))
            except (ValueError, ZeroDivisionError):
                pass
        return Fraction(node.value)
    raise Unknown("not a numeric literal: " + ast.unparse(node)[:40])


def lin(expr, env, src):
    """Time expression linear in `time_step` -> (Fraction coefficient, perInner)."""
    if isinstance(expr, ast.Name):
        if expr.id in env:
            return env[expr.id]
        raise Unknown("time argument uses name " + expr.id)
    if isinstance(expr, ast.UnaryOp) and isinstance(expr.op, ast.USub):
        c, p = lin(expr.operand, env, src)
        return -c, p
    if isinstance(expr, ast.UnaryOp) and isinstance(expr.op, ast.UAdd):
        return lin(expr.operand, env, src)
    if isinstance(expr, ast.BinOp) and isinstance(expr.op, ast.Mult):
        for x, y in ((expr.left, expr.right), (expr.right, expr.left)):
            try:
                k = lit_fraction(x, src)
            except Unknown:
                continue
            c, p = lin(y, env, src)
            return k * c, p
        raise Unknown("time argument product " + ast.unparse(expr)[:40])
    if isinstance(expr, ast.BinOp) and isinstance(expr.op, ast.Div):
        c, p = lin(expr.left, env, src)
        if ast.unparse(expr.right) == "self.n_inner_step":
            if p:
                raise Unknown("divided twice by n_inner_step")
            return c, True
        k = lit_fraction(expr.right, src)
        if k == 0:
            raise Unknown("division by zero literal")
        return c / k, p
    raise Unknown("time argument " + ast.unparse(expr)[:40])


# ---------------------------------------------------------------------------------------------
# class table


class Cls:
    def __init__(self, node):
        self.node = node
        self.name = node.name
        self.bases = [b.id for b in node.bases if isinstance(b, ast.Name)]
        self.members = {}
        for st in node.body:
            if isinstance(st, ast.FunctionDef):
                self.members[st.name] = st
            elif isinstance(st, (ast.Assign, ast.AnnAssign)):
                for t in (st.targets if isinstance(st, ast.Assign) else [st.target]):
                    if isinstance(t, ast.Name):
                        self.members[t.id] = st


def mro(name, classes):
    out = []
    while name in classes:
        if name in out:
            raise Unknown("cyclic inheritance at " + name)
        out.append(name)
        b = [x for x in classes[name].bases if x in classes]
        if len(classes[name].bases) > 1 and len(b) > 1:
            raise Unknown("multiple inheritance in " + name)
        name = b[0] if b else None
    return out


def lookup(cname, classes, member):
    for c in mro(cname, classes):
        m = classes[c].members.get(member)
        if m is not None:
            return c, m
    return None, None


def is_abstract(fn):
    return any(ast.unparse(d).endswith("abstractmethod") for d in fn.decorator_list)


# ---------------------------------------------------------------------------------------------
# helper-method shapes

T_FLOW = "self.system.HN_F(state, HX_T)"
T_FLOW_PROJECT = """
self.system.HN_F(state, HX_T)
self._project_onto_cotangent_space(state)
"""
T_PROJECT = "state.mom = self.system.project_onto_cotangent_space(state.mom, state)"
T_SOLVE_FP = "return self.HN_SOLVER(fixed_point_func, x_init, **self.HN_KW)"
T_FIXED_POINT = """
def fixed_point_func(HN_V):
    state.HN_V = HN_V
    return HN_INIT {op} HX_T * self.system.HN_D(state)
HN_INIT = state.HN_V
state.HN_V = self.HN_SOLVE(fixed_point_func, HN_INIT)
"""
T_CHECKED = """
HN_INIT = state.HN_V.copy()
state.HN_V {op}= HX_T * self.system.HN_D(state)
state_back = state.copy()
self.HN_ADJ(state_back, HX_TREV)
rev_diff = self.HN_NORM(state_back.HN_C - HN_INIT)
if rev_diff {cmp} self.HN_TOL:
    msg = HX_MSG
    raise HN_EXC(msg)
"""
T_MID_FWD = """
pos_mom_init = np.concatenate([state.pos, state.mom])
def fixed_point_func(pos_mom):
    state.pos, state.mom = np.split(pos_mom, 2)
    return pos_mom_init + np.concatenate([HX_TA * self.system.HN_DA(state), {sgn}HX_TB * self.system.HN_DB(state)])
state.pos, state.mom = np.split(self.HN_SOLVE(fixed_point_func, pos_mom_init), 2)
"""
T_MID_ADJ = """
state_prev = state.copy()
state.pos {opa}= HX_TA * self.system.HN_DA(state_prev)
state.mom {opb}= HX_TB * self.system.HN_DB(state_prev)
state_back = state.copy()
self.HN_ADJ(state_back, HX_TREV)
rev_diff = self.HN_NORM(np.concatenate([state_back.pos - state_prev.pos, state_back.mom - state_prev.mom]))
if rev_diff {cmp} self.HN_TOL:
    msg = HX_MSG
    raise HN_EXC(msg)
"""
T_RETRACT = """
self.system.HN_F(state, HX_T1)
self.HN_SOLVER(state, state_prev, HX_T2, self.system, **self.HN_KW)
"""
T_STEP_B = """
time_step_inner = HX_TI
for i in range(self.HN_COUNT):
    state_prev = state.copy()
    self._h2_flow_retraction_onto_manifold(state, state_prev, HX_TF)
    if i == self.HN_COUNT2 - 1:
        self.system.HN_PRE(state)
    self._project_onto_cotangent_space(state)
    state_back = state.copy()
    self._h2_flow_retraction_onto_manifold(state_back, HN_CHKPREV, HX_TB)
    rev_diff = self.HN_NORM(state_back.HN_C - HN_AGAINST.HN_C2)
    if rev_diff {cmp} self.HN_TOL:
        msg = HX_MSG
        raise HN_EXC(msg)
"""
CMPS = {">": ">", ">=": ">=", "<": "<", "<=": "<="}
VARS = ("pos", "mom")


def _self_time_env():
    return {"time_step": (Fraction(1), False)}


class ClassAnalysis:
    def __init__(self, cname, classes, src):
        self.cname, self.classes, self.src = cname, classes, src
        self.unknown: list[str] = []

    def fn(self, name):
        _, m = lookup(self.cname, self.classes, name)
        if not isinstance(m, ast.FunctionDef):
            raise Unknown(f"{self.cname}.{name} is not a method")
        return m

    def std_params(self, fn, want=("self", "state", "time_step")):
        if tuple(_params(fn)) != tuple(want):
            raise Unknown(f"{self.cname}.{fn.name}: parameters {_params(fn)}")

    def t(self, expr, env=None):
        c, p = lin(expr, env or _self_time_env(), self.src)
        return (c, p)

    def project_ok(self):
        try:
            f = self.fn("_project_onto_cotangent_space")
            return tuple(_params(f)) == ("self", "state") and match_stmts(T_PROJECT, _body(f)) is not None
        except Unknown:
            return False

    def solver_attr(self, name):
        """`self.<name>(f, x0)` -> the attribute finally called."""
        f = self.fn(name)
        if tuple(_params(f)) != ("self", "fixed_point_func", "x_init"):
            raise Unknown(f"{self.cname}.{name}: parameters")
        h = match_stmts(T_SOLVE_FP, _body(f))
        if h is None:
            raise Unknown(f"{self.cname}.{name}: body")
        if h["HN_KW"] != h["HN_SOLVER"] + "_kwargs":
            raise Unknown(f"{self.cname}.{name}: kwargs attribute {h['HN_KW']}")
        return h["HN_SOLVER"]

    def method(self, name):
        """-> Method as a python tuple."""
        try:
            return self._method(name)
        except Unknown as e:
            self.unknown.append(f"{self.cname}.{name}: {e}")
            return ("unknown", str(e))

    def _method(self, name):
        f = self.fn(name)
        self.std_params(f)
        body = _body(f)
        h = match_stmts(T_FLOW, body)
        if h is not None and h["HN_F"] in ("h1_flow", "h2_flow"):
            return ("flow", h["HN_F"][:2], self.t(h["HX_T"]), False)
        h = match_stmts(T_FLOW_PROJECT, body)
        if h is not None and h["HN_F"] in ("h1_flow", "h2_flow"):
            if not self.project_ok():
                raise Unknown("_project_onto_cotangent_space has an unexpected body")
            return ("flow", h["HN_F"][:2], self.t(h["HX_T"]), True)
        for op, sign in (("+", 1), ("-", -1)):
            h = match_stmts(T_FIXED_POINT.format(op=op), body)
            if h is not None:
                if h["HN_V"] not in VARS:
                    raise Unknown("fixed point over " + h["HN_V"])
                return ("fixedPoint", [(h["HN_V"], sign, h["HN_D"], self.t(h["HX_T"]), "state")], self.solver_attr(h["HN_SOLVE"]))
            for cmp in CMPS:
                h = match_stmts(T_CHECKED.format(op=op, cmp=cmp), body)
                if h is not None:
                    if h["HN_V"] not in VARS or h["HN_C"] not in VARS:
                        raise Unknown("checked update of " + h["HN_V"])
                    return ("checked", [(h["HN_V"], sign, h["HN_D"], self.t(h["HX_T"]), "state")],
                            (True, "self." + h["HN_ADJ"], self.t(h["HX_TREV"]), [h["HN_C"]], True, h["HN_NORM"], h["HN_TOL"], cmp, h["HN_EXC"]))
        for sgn, sb in (("-", -1), ("", 1)):
            h = match_stmts(T_MID_FWD.format(sgn=sgn), body)
            if h is not None:
                return ("fixedPoint", [("pos", 1, h["HN_DA"], self.t(h["HX_TA"]), "state"), ("mom", sb, h["HN_DB"], self.t(h["HX_TB"]), "state")],
                        self.solver_attr(h["HN_SOLVE"]))
        for opa, sa in (("+", 1), ("-", -1)):
            for opb, sb in (("+", 1), ("-", -1)):
                for cmp in CMPS:
                    h = match_stmts(T_MID_ADJ.format(opa=opa, opb=opb, cmp=cmp), body)
                    if h is not None:
                        return ("checked", [("pos", sa, h["HN_DA"], self.t(h["HX_TA"]), "state_prev"), ("mom", sb, h["HN_DB"], self.t(h["HX_TB"]), "state_prev")],
                                (True, "self." + h["HN_ADJ"], self.t(h["HX_TREV"]), ["pos", "mom"], True, h["HN_NORM"], h["HN_TOL"], cmp, h["HN_EXC"]))
        for cmp in CMPS:
            h = match_stmts(T_STEP_B.format(cmp=cmp), body)
            if h is not None:
                return self._retract_loop(h, cmp)
        raise Unknown("body shape not recognised")

    def _retract_loop(self, h, cmp):
        if h["HN_COUNT"] != h["HN_COUNT2"]:
            raise Unknown("last-iteration test uses another counter")
        if h["HN_C"] != h["HN_C2"] or h["HN_C"] not in VARS:
            raise Unknown("check compares different components")
        t_inner = self.t(h["HX_TI"])
        env = {"time_step_inner": (Fraction(1), False)}
        t_fwd = lin(h["HX_TF"], env, self.src)
        t_back = lin(h["HX_TB"], env, self.src)
        r = self.fn("_h2_flow_retraction_onto_manifold")
        if tuple(_params(r)) != ("self", "state", "state_prev", "time_step"):
            raise Unknown("_h2_flow_retraction_onto_manifold parameters")
        rh = match_stmts(T_RETRACT, _body(r))
        if rh is None:
            raise Unknown("_h2_flow_retraction_onto_manifold body")
        args_ok = (
            ast.unparse(rh["HX_T1"]) == "time_step" and ast.unparse(rh["HX_T2"]) == "time_step"
            and rh["HN_KW"] == rh["HN_SOLVER"] + "_kwargs"
        )
        return ("retractLoop", {
            "count": h["HN_COUNT"], "tInner": t_inner, "prevIsCopy": True, "tFwd": t_fwd,
            "retractFlow": rh["HN_F"], "retractSolver": rh["HN_SOLVER"], "retractArgsOk": args_ok,
            "preEvalOnlyLast": h["HN_PRE"] == "dh1_dpos", "projectAfter": self.project_ok(),
            "chkOnCopy": True, "chkPrev": h["HN_CHKPREV"], "tBack": t_back, "cmp": [h["HN_C"]],
            "against": h["HN_AGAINST"], "norm": h["HN_NORM"], "tol": h["HN_TOL"], "cmpOp": cmp, "raises": h["HN_EXC"],
        })

    # -- _step ---------------------------------------------------------------------------------
    def step_calls(self):
        """-> (calls [(callee, (coef, perInner))], zip_loop or None)."""
        f = self.fn("_step")
        if is_abstract(f):
            raise Unknown("_step is abstract")
        f2 = copy.copy(f)
        f2.decorator_list = []
        self.std_params(f2)
        calls = []
        for st in _body(f):
            h = match_stmts("HX_CALLEE(state, HX_T)", [st])
            if h is None:
                raise Unknown("_step statement " + ast.unparse(st)[:60])
            cal = ast.unparse(h["HX_CALLEE"])
            if cal in ("self.system.h1_flow", "self.system.h2_flow"):
                calls.append((cal[5:], self.t(h["HX_T"])))
            elif cal.startswith("self._") and cal.count(".") == 1:
                calls.append((cal, self.t(h["HX_T"])))
            else:
                raise Unknown("_step calls " + cal[:60])
        return calls


T_ZIP_STEP = """
for coefficient, flow in zip(self.coefficients, self.flows, strict=True):
    flow(state, HX_T)
"""
T_STEP_WRAPPER = """
if self.step_size is None:
    msg = HX_MSG
    raise HN_NONE(msg)
state = state.copy()
try:
    self._step(state, state.dir * self.step_size)
except HX_CAUGHT as e:
    msg = HX_MSG2
    raise HN_TO(msg) from e
return state
"""


# ---------------------------------------------------------------------------------------------
# SymmetricCompositionIntegrator.__init__ -> Lean functions


class InitTranslator:
    """Statement-by-statement translation of the constructor into two Lean functions."""

    def __init__(self, fn, src):
        self.fn, self.src = fn, src
        self.types: dict[str, str] = {}  # python local -> 'nat' | 'listK' | 'flow'
        self.coef_lines: list[str] = []
        self.flow_lines: list[str] = []
        self.coef_result = None
        self.flow_result = None
        self.stores: list[str] = []

    # expression translators -------------------------------------------------------------------
    def nat(self, e):
        if isinstance(e, ast.Constant) and type(e.value) is int and e.value >= 0:
            return str(e.value)
        if isinstance(e, ast.Name) and self.types.get(e.id) == "nat":
            return e.id
        if isinstance(e, ast.Call) and ast.unparse(e.func) == "len" and len(e.args) == 1 and not e.keywords:
            return f"({self.listk(e.args[0])}).length"
        if isinstance(e, ast.BinOp) and isinstance(e.op, (ast.Add, ast.Mod, ast.Mult)):
            op = {ast.Add: "+", ast.Mod: "%", ast.Mult: "*"}[type(e.op)]
            return f"({self.nat(e.left)} {op} {self.nat(e.right)})"
        raise Unknown("integer expression " + ast.unparse(e)[:50])

    def scal(self, e):
        if isinstance(e, ast.Constant) and type(e.value) in (int, float):
            q = lit_fraction(e, self.src)
            return f"(({q.numerator} : K) / {q.denominator})" if q.denominator != 1 else f"({q.numerator} : K)"
        if isinstance(e, ast.BinOp) and isinstance(e.op, (ast.Add, ast.Sub, ast.Mult)):
            op = {ast.Add: "+", ast.Sub: "-", ast.Mult: "*"}[type(e.op)]
            return f"({self.scal(e.left)} {op} {self.scal(e.right)})"
        if isinstance(e, ast.UnaryOp) and isinstance(e.op, ast.USub):
            return f"(-{self.scal(e.operand)})"
        if isinstance(e, ast.Call) and ast.unparse(e.func) == "sum" and len(e.args) == 1 and not e.keywords:
            return f"({self.listk(e.args[0])}).sum"
        raise Unknown("scalar expression " + ast.unparse(e)[:50])

    def listk(self, e):
        if isinstance(e, ast.Name) and self.types.get(e.id) == "listK":
            return e.id
        if isinstance(e, ast.Call) and ast.unparse(e.func) in ("list", "tuple") and len(e.args) == 1 and not e.keywords:
            return self.listk(e.args[0])
        if isinstance(e, ast.BinOp) and isinstance(e.op, ast.Add):
            return f"({self.listk(e.left)} ++ {self.listk(e.right)})"
        if isinstance(e, ast.Subscript) and isinstance(e.slice, ast.Slice):
            s = e.slice
            step = s.step
            if s.upper is not None or step is None:
                raise Unknown("slice " + ast.unparse(e)[:50])
            if isinstance(step, ast.Constant) and type(step.value) is int and step.value >= 1 and s.lower is not None:
                return f"(pySliceFrom {self.nat(s.lower)} {step.value} {self.listk(e.value)})"
            if (
                isinstance(step, ast.UnaryOp) and isinstance(step.op, ast.USub) and isinstance(step.operand, ast.Constant)
                and step.operand.value == 1 and type(step.operand.value) is int
                and isinstance(s.lower, ast.UnaryOp) and isinstance(s.lower.op, ast.USub)
                and isinstance(s.lower.operand, ast.Constant) and type(s.lower.operand.value) is int and s.lower.operand.value >= 1
            ):
                return f"(pySliceRevFromNeg {s.lower.operand.value} {self.listk(e.value)})"
            raise Unknown("slice " + ast.unparse(e)[:50])
        raise Unknown("list expression " + ast.unparse(e)[:50])

    def flow(self, e):
        if isinstance(e, ast.Name) and self.types.get(e.id) == "flow":
            return e.id
        if ast.unparse(e) in ("system.h1_flow", "system.h2_flow"):
            return ast.unparse(e)[7:]
        if isinstance(e, ast.IfExp):
            return f"(if {self.boolean(e.test)} then {self.flow(e.body)} else {self.flow(e.orelse)})"
        raise Unknown("flow expression " + ast.unparse(e)[:50])

    def boolean(self, e):
        if isinstance(e, ast.Name) and e.id == "initial_h1_flow_step":
            return "initial_h1_flow_step"
        if isinstance(e, ast.UnaryOp) and isinstance(e.op, ast.Not):
            return f"(!{self.boolean(e.operand)})"
        raise Unknown("condition " + ast.unparse(e)[:50])

    def flowlist(self, e):
        if isinstance(e, ast.List):
            return "[" + ", ".join(self.flow(x) for x in e.elts) + "]"
        if isinstance(e, ast.BinOp) and isinstance(e.op, ast.Add):
            return f"({self.flowlist(e.left)} ++ {self.flowlist(e.right)})"
        if isinstance(e, ast.BinOp) and isinstance(e.op, ast.Mult) and isinstance(e.left, ast.List):
            return f"(List.replicate {self.nat(e.right)} {self.flowlist(e.left)}).flatten"
        raise Unknown("flow list " + ast.unparse(e)[:50])

    # statements -------------------------------------------------------------------------------
    def run(self):
        a = self.fn.args
        names = [x.arg for x in a.args] + [x.arg for x in a.kwonlyargs]
        if names != ["self", "system", "free_coefficients", "step_size", "initial_h1_flow_step"] or a.vararg or a.kwarg:
            raise Unknown("__init__ parameters " + str(names))
        self.types["free_coefficients"] = "listK"
        for st in _body(self.fn):
            src = ast.unparse(st)
            if src == "super().__init__(system, step_size)":
                continue
            if isinstance(st, ast.Assign) and len(st.targets) == 1:
                t, v = st.targets[0], st.value
                if isinstance(t, ast.Attribute) and ast.unparse(t.value) == "self":
                    self.stores.append(t.attr)
                    if t.attr == "coefficients":
                        self.coef_result = self.listk(v)
                    elif t.attr == "flows":
                        self.flow_result = self.flowlist(v)
                    elif t.attr == "initial_h1_flow_step" and ast.unparse(v) == "initial_h1_flow_step":
                        pass
                    else:
                        raise Unknown("store " + src[:50])
                    continue
                if isinstance(t, ast.Name):
                    if self.coef_result is not None and t.id in ("coefficients", "free_coefficients", "n_free_coefficients"):
                        raise Unknown("rebinding after self.coefficients was stored")
                    for kind, tr, sink in (("nat", self.nat, "both"), ("listK", self.listk, "coef"), ("flow", self.flow, "flow")):
                        try:
                            rhs = tr(v)
                        except Unknown:
                            continue
                        self.types[t.id] = kind
                        ty = {"nat": "Nat", "listK": "List K", "flow": "F"}[kind]
                        line = f"  let {t.id} : {ty} := {rhs}"
                        if kind == "nat" and t.id == "n_free_coefficients" and src == "n_free_coefficients = len(free_coefficients)":
                            self.coef_lines.append(line)  # the flows function takes it as an argument
                        elif sink == "both":
                            self.coef_lines.append(line)
                            self.flow_lines.append(line)
                        elif sink == "coef":
                            self.coef_lines.append(line)
                        else:
                            self.flow_lines.append(line)
                        break
                    else:
                        raise Unknown("assignment " + src[:60])
                    continue
            if (
                isinstance(st, ast.Expr) and isinstance(st.value, ast.Call) and isinstance(st.value.func, ast.Attribute)
                and st.value.func.attr == "append" and isinstance(st.value.func.value, ast.Name)
                and self.types.get(st.value.func.value.id) == "listK" and len(st.value.args) == 1 and not st.value.keywords
            ):
                if self.coef_result is not None:
                    raise Unknown("append after self.coefficients was stored")
                nm = st.value.func.value.id
                if nm == "free_coefficients":
                    raise Unknown("append to the argument")
                self.coef_lines.append(f"  let {nm} : List K := {nm} ++ [{self.scal(st.value.args[0])}]")
                continue
            raise Unknown("statement " + src[:60])
        if self.coef_result is None or self.flow_result is None:
            raise Unknown("self.coefficients / self.flows not stored")
        if sorted(self.stores) != ["coefficients", "flows", "initial_h1_flow_step"]:
            raise Unknown("attributes stored: " + str(self.stores))


def translate_zip_step(fn, src):
    if tuple(_params(fn)) != ("self", "state", "time_step"):
        raise Unknown("_step parameters")
    h = match_stmts(T_ZIP_STEP, _body(fn))
    if h is None:
        raise Unknown("_step body is not the zip loop")

    def tr(e):
        if isinstance(e, ast.Name) and e.id == "coefficient":
            return "cf.1"
        if isinstance(e, ast.Name) and e.id == "time_step":
            return "time_step"
        if isinstance(e, ast.Constant) and type(e.value) in (int, float):
            q = lit_fraction(e, src)
            return f"(({q.numerator} : K) / {q.denominator})" if q.denominator != 1 else f"({q.numerator} : K)"
        if isinstance(e, ast.BinOp) and isinstance(e.op, (ast.Mult, ast.Add, ast.Sub, ast.Div)):
            op = {ast.Mult: "*", ast.Add: "+", ast.Sub: "-", ast.Div: "/"}[type(e.op)]
            return f"({tr(e.left)} {op} {tr(e.right)})"
        if isinstance(e, ast.UnaryOp) and isinstance(e.op, ast.USub):
            return f"(-{tr(e.operand)})"
        raise Unknown("zip loop time argument " + ast.unparse(e)[:40])

    return tr(h["HX_T"]), "flow(state, " + ast.unparse(h["HX_T"]) + ")"


# ---------------------------------------------------------------------------------------------
# BCSS constructors


def const_eval(e, env):
    if isinstance(e, ast.Constant) and type(e.value) in (int, float):
        return e.value
    if isinstance(e, ast.Name) and e.id in env:
        return env[e.id]
    if isinstance(e, ast.UnaryOp) and isinstance(e.op, ast.USub):
        return -const_eval(e.operand, env)
    if isinstance(e, ast.BinOp) and isinstance(e.op, (ast.Add, ast.Sub, ast.Mult, ast.Div, ast.Pow)):
        x, y = const_eval(e.left, env), const_eval(e.right, env)
        if isinstance(e.op, ast.Add):
            return x + y
        if isinstance(e.op, ast.Sub):
            return x - y
        if isinstance(e.op, ast.Mult):
            return x * y
        if isinstance(e.op, ast.Div):
            return x / y
        if abs(y) > 8 or abs(x) > 1e6:
            raise Unknown("power too large")
        r = x**y
        if isinstance(r, complex):
            raise Unknown("complex power")
        return r
    raise Unknown("constant expression " + ast.unparse(e)[:40])


def analyse_bcss(fn, src):
    """-> dict(free=[names], initialH1, passesStepSize, lits=[(name, dec Fraction|None, flt Fraction)], sqrt=(a,b,c)|None)"""
    if [x.arg for x in fn.args.args] != ["self", "system", "step_size"] or fn.args.kwonlyargs or fn.args.vararg or fn.args.kwarg:
        raise Unknown("__init__ parameters")
    env, lits, sqrt = {}, [], {}
    call = None
    for st in _body(fn):
        if isinstance(st, ast.Assign) and len(st.targets) == 1 and isinstance(st.targets[0], ast.Name):
            nm = st.targets[0].id
            if call is not None or nm in env:
                raise Unknown("assignment order")
            val = const_eval(st.value, env)
            env[nm] = val
            dec = None
            if isinstance(st.value, ast.Constant):
                dec = lit_fraction(st.value, src)
            else:
                h = match_stmts("(HX_A - HX_B ** 0.5) / HX_C", [ast.Expr(st.value)])
                ok = h is not None and all(isinstance(h[k], ast.Constant) and type(h[k].value) is int for k in ("HX_A", "HX_B", "HX_C"))
                if not ok:
                    raise Unknown("coefficient expression " + ast.unparse(st.value)[:50])
                sqrt[nm] = (h["HX_A"].value, h["HX_B"].value, h["HX_C"].value)
            lits.append((nm, dec, Fraction(float(val))))
            continue
        if isinstance(st, ast.Expr) and isinstance(st.value, ast.Call) and ast.unparse(st.value.func) == "super().__init__":
            if call is not None:
                raise Unknown("two super().__init__ calls")
            call = st.value
            continue
        raise Unknown("statement " + ast.unparse(st)[:50])
    if call is None or len(call.args) != 2 or ast.unparse(call.args[0]) != "system" or not isinstance(call.args[1], ast.Tuple):
        raise Unknown("super().__init__ arguments")
    free = []
    for e in call.args[1].elts:
        if not isinstance(e, ast.Name) or e.id not in env:
            raise Unknown("free coefficient " + ast.unparse(e)[:30])
        free.append(e.id)
    kws = {k.arg: k.value for k in call.keywords}
    if set(kws) != {"step_size", "initial_h1_flow_step"}:
        raise Unknown("super().__init__ keywords " + str(sorted(map(str, kws))))
    ih = kws["initial_h1_flow_step"]
    if not (isinstance(ih, ast.Constant) and type(ih.value) is bool):
        raise Unknown("initial_h1_flow_step argument")
    return {"free": free, "initialH1": ih.value, "passesStepSize": ast.unparse(kws["step_size"]) == "step_size",
            "lits": lits, "sqrt": sqrt}


# ---------------------------------------------------------------------------------------------


def analyse_wrapper(fn):
    if tuple(_params(fn)) != ("self", "state"):
        raise Unknown("step parameters")
    h = match_stmts(T_STEP_WRAPPER, _body(fn))
    if h is None:
        raise Unknown("step body")
    c = h["HX_CAUGHT"]
    caught = [ast.unparse(x) for x in c.elts] if isinstance(c, ast.Tuple) else [ast.unparse(c)]
    return {"noneRaises": h["HN_NONE"], "copiesState": True, "callOnCopyDirTimesStepSize": True, "converts": caught,
            "convertsTo": h["HN_TO"], "returnsCopy": True}


def extract(repo: Path) -> dict:
    src = (Path(repo) / SRC).read_text()
    tree = ast.parse(src)
    classes = {st.name: Cls(st) for st in tree.body if isinstance(st, ast.ClassDef)}
    out: dict = {"unknown": [], "classes": {}, "order": []}
    unk = out["unknown"]
    # every class of the module that derives from Integrator must be one of the known ones
    known = {c for c, _ in CLASSES} | {"Integrator", "TractableFlowIntegrator"}
    for name in classes:
        try:
            m = mro(name, classes)
        except Unknown as e:
            unk.append(str(e))
            continue
        if m[-1] == "Integrator" and name not in known:
            unk.append(f"integrator class {name} is not covered by the translator")
    for cname, short in CLASSES:
        ent: dict = {"short": short, "calls": [], "methods": [], "stepFrom": "", "stepWrapperFrom": ""}
        out["classes"][cname] = ent
        out["order"].append(cname)
        if cname not in classes:
            unk.append(f"class {cname} not found")
            continue
        try:
            ent["stepFrom"] = lookup(cname, classes, "_step")[0] or ""
            ent["stepWrapperFrom"] = lookup(cname, classes, "step")[0] or ""
            ent["mro"] = mro(cname, classes)
        except Unknown as e:
            unk.append(f"{cname}: {e}")
            continue
        if ent["stepFrom"] == "SymmetricCompositionIntegrator":
            continue  # zip loop, translated below
        an = ClassAnalysis(cname, classes, src)
        try:
            ent["calls"] = an.step_calls()
        except Unknown as e:
            unk.append(f"{cname}._step: {e}")
            ent["calls"] = []
            continue
        seen = []
        for cal, _t in ent["calls"]:
            if cal.startswith("self.") and cal not in seen:
                seen.append(cal)
        for cal in seen:
            m = an.method(cal[5:])
            ent["methods"].append((cal, m))
            # the adjoint named by a reverse check must itself be described
            if m[0] == "checked" and m[2][1] not in seen:
                seen.append(m[2][1])
        unk += an.unknown
        # a helper override that the analysis above never looked at could change behaviour
    # SymmetricCompositionIntegrator
    sc: dict = {"coefLines": [], "coefResult": "[]", "flowLines": [], "flowResult": "[]", "zipT": None, "zipBody": "", "ok": False}
    out["symcomp"] = sc
    try:
        c = classes["SymmetricCompositionIntegrator"]
        init = c.members.get("__init__")
        if not isinstance(init, ast.FunctionDef) or init.decorator_list:
            raise Unknown("__init__ missing")
        tr = InitTranslator(init, src)
        tr.run()
        sc.update(coefLines=tr.coef_lines, coefResult=tr.coef_result, flowLines=tr.flow_lines, flowResult=tr.flow_result)
        stepfn = c.members.get("_step")
        if not isinstance(stepfn, ast.FunctionDef):
            raise Unknown("_step missing")
        sc["zipT"], sc["zipBody"] = translate_zip_step(stepfn, src)
        # no other method of the class may touch coefficients / flows
        for nm, m in c.members.items():
            if nm in ("__init__", "_step") or not isinstance(m, ast.FunctionDef):
                continue
            for n in ast.walk(m):
                if isinstance(n, ast.Attribute) and n.attr in ("coefficients", "flows"):
                    raise Unknown(f"{nm} touches self.{n.attr}")
        sc["ok"] = True
    except (Unknown, KeyError) as e:
        unk.append(f"SymmetricCompositionIntegrator: {e}")
        sc.update(coefLines=[], coefResult="[]", flowLines=[], flowResult="[]", zipT=None)
    # BCSS
    out["bcss"] = {}
    for cname, short in CLASSES:
        if not short.startswith("bcss"):
            continue
        try:
            c = classes[cname]
            extra = [nm for nm, m in c.members.items() if nm != "__init__"]
            if extra:
                raise Unknown("overrides " + ", ".join(extra))
            if c.bases != ["SymmetricCompositionIntegrator"]:
                raise Unknown("bases " + str(c.bases))
            out["bcss"][short] = analyse_bcss(c.members["__init__"], src)
        except (Unknown, KeyError) as e:
            unk.append(f"{cname}: {e}")
            out["bcss"][short] = {"free": [], "initialH1": False, "passesStepSize": False, "lits": [], "sqrt": {}}
    # Integrator.step
    try:
        w = classes["Integrator"].members.get("step")
        if not isinstance(w, ast.FunctionDef):
            raise Unknown("Integrator.step missing")
        out["wrapper"] = analyse_wrapper(w)
    except (Unknown, KeyError) as e:
        unk.append(f"Integrator.step: {e}")
        out["wrapper"] = {"noneRaises": "", "copiesState": False, "callOnCopyDirTimesStepSize": False, "converts": [],
                          "convertsTo": "", "returnsCopy": False}
    # helper overrides in subclasses that are not part of the tables: Leapfrog etc. must define only _step
    for cname, allowed in (("LeapfrogIntegrator", {"_step"}), ("TractableFlowIntegrator", {"__init__"})):
        if cname in classes:
            extra = set(classes[cname].members) - allowed
            if extra:
                unk.append(f"{cname} defines {sorted(extra)}")
    return out


# ---------------------------------------------------------------------------------------------
# Lean output


def _s(x) -> str:
    return '"' + str(x).replace("\\", "\\\\").replace('"', '\\"').replace("\n", " ") + '"'


def _b(x) -> str:
    return "true" if x else "false"


def _ls(xs) -> str:
    return "[" + ", ".join(_s(x) for x in xs) + "]"


def _int(n) -> str:
    return f"({n})" if n < 0 else str(n)


def _t(t) -> str:
    c, p = t
    return f"⟨{_int(c.numerator)}, {c.denominator}, {_b(p)}⟩"


def _var(v) -> str:
    return ".pos" if v == "pos" else ".mom"


def _upd(u) -> str:
    v, sign, d, t, at = u
    return f"⟨{_var(v)}, {_int(sign)}, {_s(d)}, {_t(t)}, {_s(at)}⟩"


def _method(m) -> str:
    k = m[0]
    if k == "flow":
        return f".flow .{m[1]} {_t(m[2])} {_b(m[3])}"
    if k == "fixedPoint":
        return ".fixedPoint [" + ", ".join(_upd(u) for u in m[1]) + "] " + _s(m[2])
    if k == "checked":
        on, adj, t, cmp, saved, norm, tol, op, exc = m[2]
        chk = (f"{{ onCopy := {_b(on)}, adjoint := {_s(adj)}, t := {_t(t)}, cmp := [" + ", ".join(_var(v) for v in cmp)
               + f"], savedBefore := {_b(saved)}, norm := {_s(norm)}, tol := {_s(tol)}, cmpOp := {_s(op)}, raises := {_s(exc)} }}")
        return ".checked [" + ", ".join(_upd(u) for u in m[1]) + "]\n      " + chk
    if k == "retractLoop":
        r = m[1]
        return (".retractLoop\n      { count := " + _s(r["count"]) + f", tInner := {_t(r['tInner'])}, prevIsCopy := {_b(r['prevIsCopy'])}, tFwd := {_t(r['tFwd'])},\n"
                f"        retractFlow := {_s(r['retractFlow'])}, retractSolver := {_s(r['retractSolver'])}, retractArgsOk := {_b(r['retractArgsOk'])},\n"
                f"        preEvalOnlyLast := {_b(r['preEvalOnlyLast'])}, projectAfter := {_b(r['projectAfter'])}, chkOnCopy := {_b(r['chkOnCopy'])},\n"
                f"        chkPrev := {_s(r['chkPrev'])}, tBack := {_t(r['tBack'])}, cmp := [" + ", ".join(_var(v) for v in r["cmp"]) + "],\n"
                f"        against := {_s(r['against'])}, norm := {_s(r['norm'])}, tol := {_s(r['tol'])}, cmpOp := {_s(r['cmpOp'])}, raises := {_s(r['raises'])} }}")
    return ".unknown " + _s(m[1])


HEADER = """/-
GENERATED by tools/extractors/integ_steps.py from src/mici/integrators.py of the tree under test.
Do not edit; rewritten by every `./check C02` / `./check C06` run.  Clean-tree copy:
Generated.expected/IntegSteps.lean.  Types: MiciVerif/Lemmas/IntegStepsTypes.lean; the theorems about
these tables are in MiciVerif/Props/C06S.lean.
-/
import MiciVerif.Lemmas.IntegStepsTypes

namespace MiciVerif.Generated.IntegSteps
open MiciVerif.IntegSteps

"""


def render(d: dict) -> str:
    o = [HEADER]
    o.append("/-- Shapes the translator did not understand (must be empty). -/\n")
    o.append("def unknown : List String := " + _ls(d["unknown"]) + "\n\n")
    o.append("/-- (class, class whose `_step` is effective, class whose `step` is effective) -/\n")
    o.append("def dispatch : List (String × String × String) := [\n" + ",\n".join(
        f"  ({_s(c)}, {_s(d['classes'][c]['stepFrom'])}, {_s(d['classes'][c]['stepWrapperFrom'])})" for c in d["order"]) + "\n]\n\n")
    for c in d["order"]:
        e = d["classes"][c]
        if e["stepFrom"] == "SymmetricCompositionIntegrator":
            continue
        o.append(f"/-- `{c}._step` -/\n")
        o.append(f"def {e['short']}Step : List Call := [" + ", ".join(f"⟨{_s(cal)}, {_t(t)}⟩" for cal, t in e["calls"]) + "]\n\n")
        o.append(f"def {e['short']}Methods : List (String × Method) := [" + (",".join(
            f"\n  ({_s(cal)},\n    {_method(m)})" for cal, m in e["methods"])) + "]\n\n")
    sc = d["symcomp"]
    o.append("/-- `SymmetricCompositionIntegrator.__init__`: `self.coefficients` as a function of `free_coefficients`. -/\n")
    o.append("def coefficients {K : Type*} [Field K] (free_coefficients : List K) : List K :=\n")
    o.append("".join(l + "\n" for l in sc["coefLines"]) + "  " + sc["coefResult"] + "\n\n")
    o.append("/-- `SymmetricCompositionIntegrator.__init__`: `self.flows`. -/\n")
    o.append("def flows {F : Type*} (h1_flow h2_flow : F) (n_free_coefficients : Nat) (initial_h1_flow_step : Bool) : List F :=\n")
    if not sc["ok"]:
        o.append("  let _ := (h1_flow, h2_flow, n_free_coefficients, initial_h1_flow_step)\n")
    o.append("".join(l + "\n" for l in sc["flowLines"]) + "  " + sc["flowResult"] + "\n\n")
    o.append("/-- `SymmetricCompositionIntegrator._step`: " + (sc["zipBody"] or "NOT UNDERSTOOD") + " over `zip(self.coefficients, self.flows, strict=True)`. -/\n")
    o.append("def symCompStep {K X : Type*} [Field K] (coefficients : List K) (flows : List (K → X → X)) (time_step : K) (state : X) : X :=\n")
    if sc["zipT"] is not None:
        o.append(f"  (coefficients.zip flows).foldl (fun state cf => cf.2 {sc['zipT']} state) state\n\n")
    else:
        o.append("  let _ := (coefficients, flows, time_step)\n  state\n\n")
    o.append("def symCompZip : ZipLoop := { lists := " + (_ls(["coefficients", "flows"]) if sc["zipT"] is not None else "[]")
             + f", strict := {_b(sc['zipT'] is not None)}, body := {_s(sc['zipBody'])} }}\n\n")
    for short, b in d["bcss"].items():
        o.append(f"def {short} : BCSSInit := {{ free := {_ls(b['free'])}, initialH1 := {_b(b['initialH1'])}, passesStepSize := {_b(b['passesStepSize'])} }}\n\n")
        rows = []
        for nm, dec, flt in b["lits"]:
            rows.append(f"  {{ name := {_s(nm)}, decNum := " + (f"some {_int(dec.numerator)}" if dec is not None else "none")
                        + f", decDen := {dec.denominator if dec is not None else 1}, fltNum := {_int(flt.numerator)}, fltDen := {flt.denominator} }}")
        o.append(f"def {short}Lits : List Lit := [\n" + ",\n".join(rows) + "\n]\n\n")
        o.append(f"def {short}Sqrt : List (String × SqrtForm) := [" + ", ".join(
            f"({_s(k)}, ⟨{_int(a)}, {_int(bb)}, {_int(c)}⟩)" for k, (a, bb, c) in b["sqrt"].items()) + "]\n\n")
    w = d["wrapper"]
    o.append("/-- `Integrator.step` -/\n")
    o.append(f"def stepWrapper : StepWrapper :=\n  {{ noneRaises := {_s(w['noneRaises'])}, copiesState := {_b(w['copiesState'])}, "
             f"callOnCopyDirTimesStepSize := {_b(w['callOnCopyDirTimesStepSize'])}, converts := {_ls(w['converts'])}, "
             f"convertsTo := {_s(w['convertsTo'])}, returnsCopy := {_b(w['returnsCopy'])} }}\n\n")
    o.append("end MiciVerif.Generated.IntegSteps\n")
    return "".join(o)


def _failed(e: Exception) -> dict:
    empty_cls = {c: {"short": s, "calls": [], "methods": [], "stepFrom": "", "stepWrapperFrom": ""} for c, s in CLASSES}
    return {
        "unknown": [f"extractor error: {type(e).__name__}: {e}"], "classes": empty_cls, "order": [c for c, _ in CLASSES],
        "symcomp": {"coefLines": [], "coefResult": "[]", "flowLines": [], "flowResult": "[]", "zipT": None, "zipBody": "", "ok": False},
        "bcss": {s: {"free": [], "initialH1": False, "passesStepSize": False, "lits": [], "sqrt": {}} for _, s in CLASSES if s.startswith("bcss")},
        "wrapper": {"noneRaises": "", "copiesState": False, "callOnCopyDirTimesStepSize": False, "converts": [], "convertsTo": "", "returnsCopy": False},
    }


def safe_extract(repo: Path) -> dict:
    try:
        return extract(Path(repo))
    except Exception as e:  # noqa: BLE001  (fail closed, never crash the dispatcher)
        return _failed(e)


def emit(repo: Path, out: Path) -> None:
    (Path(out) / "IntegSteps.lean").write_text(render(safe_extract(Path(repo))))


# ---------------------------------------------------------------------------------------------
# where does the table of a tree differ from the clean-tree table?  (used by harness/c02.py, c06.py
# to aim the failing-input search when a `Props/C06S.lean` obligation is broken)

ALL_KINDS = ["leapfrog", "symcomp", "bcss2", "bcss3", "bcss4", "implicit_leapfrog", "implicit_midpoint", "constrained_leapfrog"]
_DEF_KINDS = [
    ("leapfrog", ["leapfrog"]),
    ("coefficients", ["symcomp", "bcss2", "bcss3", "bcss4"]), ("flows", ["symcomp", "bcss2", "bcss3", "bcss4"]),
    ("symComp", ["symcomp", "bcss2", "bcss3", "bcss4"]),
    ("bcss2", ["bcss2"]), ("bcss3", ["bcss3"]), ("bcss4", ["bcss4"]),
    ("implicitLeapfrog", ["implicit_leapfrog"]), ("implicitMidpoint", ["implicit_midpoint"]),
    ("constrainedLeapfrog", ["constrained_leapfrog"]),
]
_CLASS_KINDS = {
    "LeapfrogIntegrator": ["leapfrog"], "SymmetricCompositionIntegrator": ["symcomp", "bcss2", "bcss3", "bcss4"],
    "BCSSTwoStageIntegrator": ["bcss2"], "BCSSThreeStageIntegrator": ["bcss3"], "BCSSFourStageIntegrator": ["bcss4"],
    "ImplicitLeapfrogIntegrator": ["implicit_leapfrog"], "ImplicitMidpointIntegrator": ["implicit_midpoint"],
    "ConstrainedLeapfrogIntegrator": ["constrained_leapfrog"],
}


def _def_blocks(text: str) -> dict:
    import re

    out, name, buf = {}, None, []
    for line in text.splitlines():
        m = re.match(r"^def (\w+)", line)
        if m:
            if name:
                out[name] = "\n".join(buf)
            name, buf = m.group(1), []
        if name and not line.startswith("/--"):
            buf.append(line)
    if name:
        out[name] = "\n".join(buf)
    return out


def changed_kinds(repo: Path, expected_file: Path):
    """-> (integrator kinds whose generated definitions differ from the clean-tree copy, names of those definitions)."""
    d = safe_extract(Path(repo))
    cur = _def_blocks(render(d))
    try:
        exp = _def_blocks(Path(expected_file).read_text())
    except OSError:
        return list(ALL_KINDS), ["<expected table missing>"]
    names = [n for n in sorted(set(cur) | set(exp)) if cur.get(n) != exp.get(n)]
    kinds: list = []
    for n in names:
        hit = False
        if n == "unknown":
            for msg in d["unknown"]:
                for cls, ks in _CLASS_KINDS.items():
                    if msg.startswith(cls):
                        kinds += ks
                        hit = True
        else:
            for pre, ks in _DEF_KINDS:
                if n.startswith(pre):
                    kinds += ks
                    hit = True
                    break
        if not hit:
            kinds += ALL_KINDS
    return [k for k in ALL_KINDS if k in kinds], names


if __name__ == "__main__":
    import sys

    print(render(safe_extract(Path(sys.argv[1] if len(sys.argv) > 1 else "/repo"))))
