"""Translator plug-in `transition_skeleton`: control skeleton of the Markov transitions (C01, C12).

Reads `src/mici/transitions.py` (and `Integrator.step` of `src/mici/integrators.py`) of the tree under
test (pure `ast`, mici is never imported) and writes `lean/MiciVerif/Generated/TransitionSkeleton.lean`:
for each function of `FUNCTIONS` below — the Metropolis transitions (`_sample_n_step`, both `sample`s,
the constructors' argument checks), the dynamic transitions (`sample`, `_build_tree`, `_new_leave`,
`_merge_subtrees`, `_termination_criterion`, `_init_aux_vars`, the `_weight_function` /
`_weight_ratio` / `_check_divergence` of the multinomial and slice subclasses), both no-U-turn
criteria, `_process_integrator_error`, `IntegrationTransition._h_trial_state`, the momentum
transitions and `Integrator.step` — a deep-embedded statement tree (`MiciVerif.Skel.S`, expressions
`MiciVerif.Skel.E`: the types of builder B5's sampler skeleton, `Model/SamplerSkeleton.lean`) plus the
parameter list, and two tables: `classes` (class, bases, names of the methods it defines, for every class
of transitions.py: an override added to a subclass is seen) and `dropped`.

`Props/C01S.lean` and `Props/C12K.lean` state that every generated tree equals the expected tree written
next to the hand model (`Model/TransitionSkeleton.lean`, annotated node by node with the definition of
`Model/Transitions.lean` / `Model/Momentum.lean` it justifies), re-derive the individual facts the
orbit-level model relies on from the *generated* trees (`skel_…` projections), and prove that the reading
`Skel.TSem` of the generated body of `_sample_n_step` is `Transitions.metropolis` with
`Transitions.metropolisStats`, that the reading `Skel.BSem` of the generated body of `_build_tree` terminates iff
`!(entryOk && valid)` and otherwise returns weight `W` and a proposal `TTree.propose`, and that the reading
`Skel.DSem` of the generated loop body of `DynamicIntegrationTransition.sample` is `Transitions.stepUp` /
`Transitions.final`.

The translation functions are those of `sampler_skeleton` (imported: `lean_str`, `src_of`, `dotted`,
`find_function`, `elist`, `CMP`), with the expression / statement translators copied and generalised
(conventions, trusted and validated by the correspondence runs):

  * a float literal is kept as its exact source text: `0.5` -> `E.src "0.5"`;
  * additional binary operators `/`, `**`, `@`; unary minus of a non-literal: `E.op "neg" [x]`;
  * dict displays, comprehensions, generator expressions, lambdas, f-strings: exact normalised source
    text (`E.src`), as in `sampler_skeleton`.

Dropped (allow-list, listed in the generated `dropped` table which is compared with the expected one):
docstrings, `pass`, `logger.<level>(...)` calls, `msg = <string literal / f-string>` (listed without
their wording, so that rewording an error message is not reported).

Fail closed: a statement kind outside the subset becomes `S.unknown "<source>"`, an expression kind
outside the subset `E.unk "<source>"`, a missing / duplicated function or class `S.unknown "<reason>"`;
the expected trees contain no such node and `Skel.S.known` is false on them.  The extractor itself never
raises: an exception while translating a function is turned into `S.unknown "extractor error: ..."`.
"""
from __future__ import annotations

import ast
import traceback
from pathlib import Path

from .sampler_skeleton import CMP, dotted, elist, find_function, lean_str, src_of

TARGET = "TransitionSkeleton.lean"

TR = "transitions.py"
IN = "integrators.py"

# (Lean name, python function name, class or None, file)
FUNCTIONS = [
    ("processIntegratorError", "_process_integrator_error", None, TR),
    ("independentMomentumSample", "sample", "IndependentMomentumTransition", TR),
    ("correlatedMomentumInit", "__init__", "CorrelatedMomentumTransition", TR),
    ("correlatedMomentumSample", "sample", "CorrelatedMomentumTransition", TR),
    ("hTrialState", "_h_trial_state", "IntegrationTransition", TR),
    ("sampleNStep", "_sample_n_step", "MetropolisIntegrationTransition", TR),
    ("staticInit", "__init__", "MetropolisStaticIntegrationTransition", TR),
    ("staticSample", "sample", "MetropolisStaticIntegrationTransition", TR),
    ("randomInit", "__init__", "MetropolisRandomIntegrationTransition", TR),
    ("randomSample", "sample", "MetropolisRandomIntegrationTransition", TR),
    ("euclideanNoUTurn", "euclidean_no_u_turn_criterion", None, TR),
    ("riemannianNoUTurn", "riemannian_no_u_turn_criterion", None, TR),
    ("dynamicInit", "__init__", "DynamicIntegrationTransition", TR),
    ("terminationCriterion", "_termination_criterion", "DynamicIntegrationTransition", TR),
    ("newLeave", "_new_leave", "DynamicIntegrationTransition", TR),
    ("mergeSubtrees", "_merge_subtrees", "DynamicIntegrationTransition", TR),
    ("initAuxVars", "_init_aux_vars", "DynamicIntegrationTransition", TR),
    ("buildTree", "_build_tree", "DynamicIntegrationTransition", TR),
    ("dynamicSample", "sample", "DynamicIntegrationTransition", TR),
    ("multinomialWeightFunction", "_weight_function", "MultinomialDynamicIntegrationTransition", TR),
    ("multinomialWeightRatio", "_weight_ratio", "MultinomialDynamicIntegrationTransition", TR),
    ("multinomialCheckDivergence", "_check_divergence", "MultinomialDynamicIntegrationTransition", TR),
    ("sliceInitAuxVars", "_init_aux_vars", "SliceDynamicIntegrationTransition", TR),
    ("sliceWeightFunction", "_weight_function", "SliceDynamicIntegrationTransition", TR),
    ("sliceWeightRatio", "_weight_ratio", "SliceDynamicIntegrationTransition", TR),
    ("sliceCheckDivergence", "_check_divergence", "SliceDynamicIntegrationTransition", TR),
    ("integratorStep", "step", "Integrator", IN),
]

BIN = {ast.Add: "+", ast.Sub: "-", ast.Mult: "*", ast.FloorDiv: "//", ast.Mod: "%",
       ast.Div: "/", ast.Pow: "**", ast.MatMult: "@"}


# ----------------------------------------------------------------------------------------
# expressions (copy of sampler_skeleton.expr, generalised as described in the docstring)


def expr(node) -> str:
    if node is None:
        return "E.none"
    d = dotted(node)
    if d is not None:
        return f"(.v {lean_str(d)})"
    if isinstance(node, ast.Constant):
        v = node.value
        if v is None:
            return "E.none"
        if v is True or v is False:
            return f"(.v {lean_str(str(v))})"
        if isinstance(v, int):
            return f"(.n ({v}))" if v < 0 else f"(.n {v})"
        if isinstance(v, str):
            return f"(.s {lean_str(v)})"
        if isinstance(v, float):
            return f"(.src {lean_str(repr(v))})"
        return f"(.unk {lean_str(src_of(node))})"
    if isinstance(node, ast.Attribute):
        return f"(.attr {expr(node.value)} {lean_str(node.attr)})"
    if isinstance(node, ast.Call):
        args = []
        for a in node.args:
            args.append(expr(a))
        for k in node.keywords:
            if k.arg is None:
                args.append(f"(.kwstar {expr(k.value)})")
            else:
                args.append(f"(.kw {lean_str(k.arg)} {expr(k.value)})")
        f = dotted(node.func)
        if f is not None:
            return f"(.call {lean_str(f)} {elist(args)})"
        if isinstance(node.func, ast.Attribute):
            return f"(.meth {expr(node.func.value)} {lean_str(node.func.attr)} {elist(args)})"
        return f"(.unk {lean_str(src_of(node))})"
    if isinstance(node, ast.Subscript):
        if isinstance(node.slice, ast.Slice):
            return f"(.unk {lean_str(src_of(node))})"
        return f"(.sub {expr(node.value)} {expr(node.slice)})"
    if isinstance(node, ast.Compare):
        if len(node.ops) == 1 and type(node.ops[0]) in CMP:
            return f"(.op {lean_str(CMP[type(node.ops[0])])} {elist([expr(node.left), expr(node.comparators[0])])})"
        return f"(.unk {lean_str(src_of(node))})"
    if isinstance(node, ast.BoolOp):
        o = "and" if isinstance(node.op, ast.And) else "or"
        return f"(.op {lean_str(o)} {elist([expr(v) for v in node.values])})"
    if isinstance(node, ast.UnaryOp):
        if isinstance(node.op, ast.Not):
            return f"(.op \"not\" {elist([expr(node.operand)])})"
        if isinstance(node.op, ast.USub):
            if isinstance(node.operand, ast.Constant) and isinstance(node.operand.value, int) \
                    and not isinstance(node.operand.value, bool):
                return f"(.n ({-node.operand.value}))"
            return f"(.op \"neg\" {elist([expr(node.operand)])})"
        return f"(.unk {lean_str(src_of(node))})"
    if isinstance(node, ast.BinOp):
        if type(node.op) in BIN:
            return f"(.op {lean_str(BIN[type(node.op)])} {elist([expr(node.left), expr(node.right)])})"
        return f"(.unk {lean_str(src_of(node))})"
    if isinstance(node, ast.IfExp):
        return f"(.ite {expr(node.test)} {expr(node.body)} {expr(node.orelse)})"
    if isinstance(node, ast.Tuple):
        return f"(.tup {elist([expr(e) for e in node.elts])})"
    if isinstance(node, ast.List):
        return f"(.lst {elist([expr(e) for e in node.elts])})"
    if isinstance(node, ast.Starred):
        return f"(.star {expr(node.value)})"
    if isinstance(node, (ast.ListComp, ast.GeneratorExp, ast.DictComp, ast.SetComp, ast.Lambda, ast.Dict, ast.JoinedStr)):
        return f"(.src {lean_str(src_of(node))})"
    return f"(.unk {lean_str(src_of(node))})"


# ----------------------------------------------------------------------------------------
# statements (copy of sampler_skeleton.Tr with the expression translator above)


def _ignorable(stmt):
    """(reason or None, drop?) for the allow-list of statements the skeleton drops."""
    if isinstance(stmt, ast.Expr) and isinstance(stmt.value, ast.Constant) and isinstance(stmt.value.value, str):
        return None, True  # docstring / bare string: dropped, not even listed
    if isinstance(stmt, ast.Pass):
        return None, True
    if isinstance(stmt, ast.Expr) and isinstance(stmt.value, ast.Call):
        f = dotted(stmt.value.func)
        if f is not None and f.startswith("logger.") and f.count(".") == 1:
            return "logging", True
    if isinstance(stmt, ast.Assign) and len(stmt.targets) == 1 and isinstance(stmt.targets[0], ast.Name) \
            and stmt.targets[0].id == "msg" and isinstance(stmt.value, (ast.Constant, ast.JoinedStr)):
        return "message text", True
    return None, False


class Tr:
    def __init__(self, where: str):
        self.where = where
        self.dropped: list[tuple[str, str, str]] = []

    def block(self, stmts, ind: int) -> str:
        items = []
        for st in stmts:
            reason, drop = _ignorable(st)
            if drop:
                if reason is not None:
                    # the wording of a log line / message is not part of the skeleton: only the fact that
                    # one was dropped is listed (third component kept for the table type of `sampler_skeleton`)
                    self.dropped.append((self.where, reason, ""))
                continue
            items.append(self.stmt(st, ind + 2))
        if not items:
            return "(S.b [])"
        pad = " " * (ind + 2)
        return "(S.b [\n" + ",\n".join(pad + it for it in items) + "])"

    def stmt(self, st, ind: int) -> str:
        try:
            return self._stmt(st, ind)
        except Exception as e:  # noqa: BLE001
            return f".unknown {lean_str('extractor error: ' + repr(e)[:120] + ' at ' + src_of(st)[:80])}"

    def _stmt(self, st, ind: int) -> str:
        pad = " " * (ind + 2)
        if isinstance(st, ast.Expr):
            return f".expr {expr(st.value)}"
        if isinstance(st, ast.Assign):
            if len(st.targets) != 1:
                return f".unknown {lean_str(src_of(st))}"
            return f".assign {expr(st.targets[0])} {expr(st.value)}"
        if isinstance(st, ast.AugAssign):
            if type(st.op) not in BIN:
                return f".unknown {lean_str(src_of(st))}"
            return f".aug {expr(st.target)} {lean_str(BIN[type(st.op)])} {expr(st.value)}"
        if isinstance(st, ast.If):
            return (f".ifc {expr(st.test)}\n{pad}{self.block(st.body, ind + 2)}\n{pad}{self.block(st.orelse, ind + 2)}")
        if isinstance(st, ast.For):
            if st.orelse:
                return f".unknown {lean_str(src_of(st))}"
            return f".loop {expr(st.target)} {expr(st.iter)}\n{pad}{self.block(st.body, ind + 2)}"
        if isinstance(st, ast.While):
            if st.orelse:
                return f".unknown {lean_str(src_of(st))}"
            return f".while_ {expr(st.test)}\n{pad}{self.block(st.body, ind + 2)}"
        if isinstance(st, ast.Try):
            hs = []
            for h in st.handlers:
                hs.append(
                    f".handler {expr(h.type)} {lean_str(h.name or '')}\n{pad}    {self.block(h.body, ind + 6)}"
                )
            hblock = "(S.b [])" if not hs else "(S.b [\n" + ",\n".join(pad + "  " + h for h in hs) + "])"
            return (f".try_\n{pad}{self.block(st.body, ind + 2)}\n{pad}{hblock}\n"
                    f"{pad}{self.block(st.orelse, ind + 2)}\n{pad}{self.block(st.finalbody, ind + 2)}")
        if isinstance(st, ast.With):
            items = []
            for it in st.items:
                if it.optional_vars is None:
                    items.append(expr(it.context_expr))
                else:
                    items.append(f"(.as_ {expr(it.context_expr)} {expr(it.optional_vars)})")
            return f".with_ {elist(items)}\n{pad}{self.block(st.body, ind + 2)}"
        if isinstance(st, ast.Return):
            return f".ret {expr(st.value)}"
        if isinstance(st, ast.Raise):
            return f".raise_ {expr(st.exc)} {expr(st.cause)}"
        if isinstance(st, ast.Continue):
            return ".cont"
        if isinstance(st, ast.Break):
            return ".brk"
        return f".unknown {lean_str(src_of(st))}"


def signature(fn: ast.FunctionDef) -> str:
    """Parameter list: `.v name`, `.kw name default`, `.s "*"` before keyword-only parameters,
    `.star` / `.kwstar` for `*args` / `**kwargs`; a decorated function gets an `unk` entry."""
    a = fn.args
    items = []
    pos = list(a.posonlyargs) + list(a.args)
    ndef = len(a.defaults)
    for i, p in enumerate(pos):
        j = i - (len(pos) - ndef)
        if j >= 0:
            items.append(f"(.kw {lean_str(p.arg)} {expr(a.defaults[j])})")
        else:
            items.append(f"(.v {lean_str(p.arg)})")
    if a.vararg is not None:
        items.append(f"(.star (.v {lean_str(a.vararg.arg)}))")
    elif a.kwonlyargs:
        items.append('(.s "*")')
    for p, dflt in zip(a.kwonlyargs, a.kw_defaults):
        if dflt is None:
            items.append(f"(.v {lean_str(p.arg)})")
        else:
            items.append(f"(.kw {lean_str(p.arg)} {expr(dflt)})")
    if a.kwarg is not None:
        items.append(f"(.kwstar (.v {lean_str(a.kwarg.arg)}))")
    if fn.decorator_list:
        items.append(f"(.unk {lean_str('decorated: ' + ', '.join(src_of(d) for d in fn.decorator_list))})")
    return elist(items)


def class_table(tree) -> list[tuple[str, list[str], list[str]]]:
    """(class, bases, names of the functions defined in the class body) for every top-level class."""
    rows = []
    for n in tree.body:
        if isinstance(n, ast.ClassDef):
            bases = [src_of(b) for b in n.bases] + [f"{k.arg}={src_of(k.value)}" for k in n.keywords]
            meths = [m.name for m in n.body if isinstance(m, (ast.FunctionDef, ast.AsyncFunctionDef))]
            rows.append((n.name, bases, meths))
    return rows


HEADER = """/- GENERATED by tools/extractors/transition_skeleton.py from src/mici/transitions.py (and
   `Integrator.step` of src/mici/integrators.py) of the tree under test.  Do not edit.  Control skeleton
   (statement trees `Skel.S`, expressions `Skel.E`) of the Markov transitions; see the extractor's
   docstring for the conventions, what is dropped (table `dropped`) and how it fails closed
   (`S.unknown`, `E.unk`). -/
import MiciVerif.Model.SamplerSkeleton
namespace MiciVerif.Generated.TransitionSkeleton
open MiciVerif.Skel

"""


def emit(repo: Path, out: Path) -> None:
    chunks = [HEADER]
    dropped: list[tuple[str, str, str]] = []
    trees: dict[str, tuple[object, str]] = {}
    for fname in (TR, IN):
        try:
            trees[fname] = (ast.parse((repo / "src" / "mici" / fname).read_text()), "")
        except Exception as e:  # noqa: BLE001
            trees[fname] = (None, f"cannot parse {fname}: " + repr(e)[:200])
    for lean_name, py_name, cls, fname in FUNCTIONS:
        body = sig = None
        where = (cls + "." if cls else "") + py_name
        try:
            tree, err = trees[fname]
            if tree is None:
                reason = err
            else:
                fn, reason = find_function(tree, py_name, cls)
                if fn is not None:
                    tr = Tr(where)
                    body = tr.block(fn.body, 0)
                    sig = signature(fn)
                    dropped += tr.dropped
        except Exception as e:  # noqa: BLE001
            reason = "extractor error: " + repr(e)[:200] + " " + traceback.format_exc()[-200:]
            body = None
        if body is None:
            body = f"(S.b [.unknown {lean_str(reason)}])"
            sig = f"(E.l [.unk {lean_str(reason)}])"
        chunks.append(f"/-- parameters of `{where}` -/\ndef {lean_name}Sig : E :=\n  {sig}\n\n")
        chunks.append(f"/-- body of `{where}` -/\ndef {lean_name} : S :=\n  {body}\n\n")
    try:
        tree, err = trees[TR]
        rows = class_table(tree) if tree is not None else [("<" + err + ">", [], [])]
    except Exception as e:  # noqa: BLE001
        rows = [("<extractor error: " + repr(e)[:200] + ">", [], [])]

    def slist(xs):
        return "[" + ", ".join(lean_str(x) for x in xs) + "]"

    chunks.append(
        "/-- classes of transitions.py: (class, bases, functions defined in the class body, in source order) -/\n"
        "def classes : List (String × List String × List String) := [\n"
        + ",\n".join(f"  ({lean_str(c)}, {slist(b)}, {slist(m)})" for c, b, m in rows) + "]\n\n"
    )
    drows = ",\n".join(f"  ({lean_str(f)}, {lean_str(r)}, {lean_str(s)})" for f, r, s in dropped)
    chunks.append(
        "/-- statements the extractor dropped: (function, allow-list entry, \"\") -/\n"
        "def dropped : List (String × String × String) := [\n" + drows + "]\n\n"
    )
    chunks.append("end MiciVerif.Generated.TransitionSkeleton\n")
    (out / TARGET).write_text("".join(chunks))
