"""Translator plug-in for C09/C18: cache-dependency table of every concrete system class.

Pure ``ast`` (never imports mici).  For every concrete class of ``src/mici/systems.py`` (MRO by
C3 linearisation over the parsed class statements) and every method that takes ``state``:

* whether it is decorated with ``cache_in_state`` / ``cache_in_state_with_aux``, the declared
  dependencies and the auxiliary outputs;
* the state variables its body reads directly (``state.pos`` / ``state.mom`` / ``state.dir``),
  the variables it writes, the other system methods it calls with ``state`` (in evaluation
  order, resolved in the concrete class' MRO; ``super()`` calls get a synthetic entry);
* transitively: its TRUE dependency set, transitive writes, and its depth (``rank``) in the call
  graph.  (The Lean predicate ``DepsSound`` re-checks the closure through local equations, so the
  closure computed here is not trusted.)
* ``mayAlias``: variables whose array object the return value may *be* (``return state.pos`` or
  ``return A @ state.mom`` - an identity matrix returns its operand).
* ``condCalls``: some call sits under a condition/loop (hit/miss prediction is then skipped).

Fail-closed: any use of ``state`` that is not one of the shapes above, an unknown decorator, a
non-literal decorator argument, a call that cannot be resolved, recursion, or a cached method
reached through ``super()`` sets ``unknownReads := true`` (resp. ``declUnknown``) which makes
the decidable predicate ``DepsSound`` false.

``analyse(repo)`` returns the same data as a dict for the harness.
"""
from __future__ import annotations

import ast
from pathlib import Path

VARS = ("pos", "mom", "dir")
DECOS = ("cache_in_state", "cache_in_state_with_aux")


# ----------------------------------------------------------------------------------------
# class table + C3


def _base_name(b):
    if isinstance(b, ast.Name):
        return b.id
    if isinstance(b, ast.Attribute):
        return b.attr
    return None


def _c3(name, bases_of, memo):
    if name in memo:
        return memo[name]
    bases = [b for b in bases_of[name] if b in bases_of]
    seqs = [list(_c3(b, bases_of, memo)) for b in bases] + [list(bases)]
    res = [name]
    while True:
        seqs = [s for s in seqs if s]
        if not seqs:
            break
        for s in seqs:
            cand = s[0]
            if not any(cand in t[1:] for t in seqs):
                break
        else:
            raise ValueError(f"inconsistent MRO for {name}")
        res.append(cand)
        for s in seqs:
            if s[0] == cand:
                del s[0]
    memo[name] = res
    return res


def _deco_name(d):
    f = d.func if isinstance(d, ast.Call) else d
    if isinstance(f, ast.Name):
        return f.id
    if isinstance(f, ast.Attribute):
        return f.attr
    return None


def _str_list(node):
    """Constant str or tuple/list of constant str -> list[str]; otherwise None."""
    if isinstance(node, ast.Constant) and isinstance(node.value, str):
        return [node.value]
    if isinstance(node, (ast.Tuple, ast.List)):
        out = []
        for e in node.elts:
            if isinstance(e, ast.Constant) and isinstance(e.value, str):
                out.append(e.value)
            else:
                return None
        return out
    return None


def _parse_decorators(fn: ast.FunctionDef):
    """-> dict(cached, withAux, declared(list|None), aux(list|None), abstract, unknownDeco)"""
    r = {"cached": False, "withAux": False, "declared": [], "aux": [], "abstract": False, "bad": False}
    for d in fn.decorator_list:
        n = _deco_name(d)
        if n == "abstractmethod":
            r["abstract"] = True
        elif n == "cache_in_state" and isinstance(d, ast.Call) and not r["cached"]:
            r["cached"] = True
            names = []
            if d.keywords:
                r["bad"] = True
            for a in d.args:
                s = _str_list(a) if isinstance(a, ast.Constant) else None
                if s is None:
                    r["bad"] = True
                else:
                    names += s
            r["declared"] = names
        elif n == "cache_in_state_with_aux" and isinstance(d, ast.Call) and not r["cached"]:
            r["cached"] = True
            r["withAux"] = True
            args = {}
            for i, a in enumerate(d.args):
                args[("depends_on", "auxiliary_outputs")[i] if i < 2 else f"extra{i}"] = a
            for k in d.keywords:
                args[k.arg] = k.value
            if set(args) != {"depends_on", "auxiliary_outputs"}:
                r["bad"] = True
            dep = _str_list(args.get("depends_on")) if "depends_on" in args else None
            aux = _str_list(args.get("auxiliary_outputs")) if "auxiliary_outputs" in args else None
            if dep is None or aux is None:
                r["bad"] = True
            r["declared"] = dep or []
            r["aux"] = aux or []
        else:
            # unknown decorator (or a second caching decorator): not understood
            r["bad"] = True
    return r


# ----------------------------------------------------------------------------------------
# body analysis


class _Body:
    """Evaluation-order walk of one method body; records every use of the `state` name."""

    def __init__(self, fn: ast.FunctionDef):
        self.fn = fn
        self.reads: set[str] = set()
        self.writes: set[str] = set()
        self.calls: list[tuple[str, str, bool]] = []  # (kind 'self'|'super', name, conditional)
        self.unknown: list[str] = []
        self.alias: set[str] = set()
        self.ret_calls: list[tuple[str, str]] = []
        params = [a.arg for a in fn.args.posonlyargs + fn.args.args]
        self.params = params
        self.has_state = "state" in params or any(a.arg == "state" for a in fn.args.kwonlyargs)
        if fn.args.vararg or fn.args.kwarg:
            self.unknown.append("star-args")
        self.consumed: set[int] = set()
        for stmt in fn.body:
            self.visit(stmt, False)

    # -- helpers
    @staticmethod
    def _is_state(n):
        return isinstance(n, ast.Name) and n.id == "state"

    def _state_attr(self, n):
        """`state.v` (v a variable) -> v, else None"""
        if isinstance(n, ast.Attribute) and self._is_state(n.value) and n.attr in VARS:
            return n.attr
        return None

    def _self_call(self, n):
        """Call node `self.m(...)` / `super().m(...)` -> (kind, m) else None"""
        if not isinstance(n, ast.Call) or not isinstance(n.func, ast.Attribute):
            return None
        v = n.func.value
        if isinstance(v, ast.Name) and v.id == "self":
            return ("self", n.func.attr)
        if (
            isinstance(v, ast.Call)
            and isinstance(v.func, ast.Name)
            and v.func.id == "super"
            and not v.args
            and not v.keywords
        ):
            return ("super", n.func.attr)
        return None

    # -- walk
    def visit(self, n, cond):  # noqa: C901, PLR0912
        if isinstance(n, ast.Name):
            if n.id == "state" and id(n) not in self.consumed:
                if isinstance(n.ctx, ast.Load):
                    self.unknown.append(f"bare use of state at line {n.lineno}")
                else:
                    self.unknown.append(f"state rebound at line {n.lineno}")
            return
        if isinstance(n, ast.Attribute):
            if self._is_state(n.value):
                self.consumed.add(id(n.value))
                if n.attr in VARS:
                    if isinstance(n.ctx, ast.Load):
                        self.reads.add(n.attr)
                    else:
                        self.writes.add(n.attr)
                else:
                    self.unknown.append(f"state.{n.attr} at line {n.lineno}")
                return
            self.visit(n.value, cond)
            return
        if isinstance(n, ast.Call):
            sc = self._self_call(n)
            state_args = [a for a in n.args if self._is_state(a)] + [
                k.value for k in n.keywords if self._is_state(k.value)
            ]
            if state_args and sc is None:
                self.unknown.append(f"state passed to unknown callee at line {n.lineno}")
            self.visit(n.func, cond)
            for a in n.args:
                if self._is_state(a) and sc is not None:
                    self.consumed.add(id(a))
                    continue
                if isinstance(a, ast.Starred):
                    self.visit(a.value, cond)
                else:
                    self.visit(a, cond)
            for k in n.keywords:
                if self._is_state(k.value) and sc is not None and k.arg == "state":
                    self.consumed.add(id(k.value))
                    continue
                self.visit(k.value, cond)
            if state_args and sc is not None:
                self.calls.append((sc[0], sc[1], cond))
            return
        if isinstance(n, (ast.Assign, ast.AnnAssign)):
            if n.value is not None:
                self.visit(n.value, cond)
            for t in n.targets if isinstance(n, ast.Assign) else [n.target]:
                self.visit(t, cond)
            return
        if isinstance(n, ast.AugAssign):
            v = self._state_attr(n.target)
            if v is not None:
                self.reads.add(v)
            elif isinstance(n.target, ast.Name) and n.target.id != "state":
                pass
            self.visit(n.value, cond)
            self.visit(n.target, cond)
            return
        if isinstance(n, ast.Return):
            if n.value is not None:
                self._alias_of(n.value)
                self.visit(n.value, cond)
            return
        if isinstance(n, ast.If):
            self.visit(n.test, cond)
            for s in n.body + n.orelse:
                self.visit(s, True)
            return
        if isinstance(n, ast.IfExp):
            self.visit(n.test, cond)
            self.visit(n.body, True)
            self.visit(n.orelse, True)
            return
        if isinstance(n, ast.BoolOp):
            self.visit(n.values[0], cond)
            for v in n.values[1:]:
                self.visit(v, True)
            return
        if isinstance(n, (ast.For, ast.While, ast.Try, ast.With, ast.AsyncFor, ast.AsyncWith,
                          ast.ListComp, ast.SetComp, ast.DictComp, ast.GeneratorExp,
                          ast.Lambda, ast.FunctionDef, ast.AsyncFunctionDef, ast.Match)):
            for c in ast.iter_child_nodes(n):
                self.visit(c, True)
            return
        if isinstance(n, ast.arguments):
            for a in n.posonlyargs + n.args + n.kwonlyargs:
                if a.arg == "state" and n is not self.fn.args:
                    self.unknown.append("inner function rebinds state")
            for d in list(n.defaults) + [d for d in n.kw_defaults if d is not None]:
                self.visit(d, True)
            return
        if isinstance(n, ast.Subscript):
            self.visit(n.value, cond)
            self.visit(n.slice, cond)
            return
        for c in ast.iter_child_nodes(n):
            self.visit(c, cond)

    def _alias_of(self, e):
        v = self._state_attr(e)
        if v is not None:
            self.alias.add(v)
            return
        if isinstance(e, ast.BinOp) and isinstance(e.op, ast.MatMult):
            for side in (e.left, e.right):
                v = self._state_attr(side)
                if v is not None:
                    self.alias.add(v)
            return
        sc = self._self_call(e)
        if sc is not None and any(self._is_state(a) for a in e.args):
            self.ret_calls.append(sc)
        if isinstance(e, ast.Name) and e.id != "state":
            # `return mom` where mom is a parameter/local that may be an in-place updated array
            return


# ----------------------------------------------------------------------------------------


def analyse(repo: Path) -> dict:
    src = (Path(repo) / "src" / "mici" / "systems.py").read_text()
    tree = ast.parse(src)
    classes = {n.name: n for n in tree.body if isinstance(n, ast.ClassDef)}
    bases_of = {name: [_base_name(b) for b in c.bases] for name, c in classes.items()}
    memo: dict = {}
    mro = {name: _c3(name, bases_of, memo) for name in classes}
    funcs = {
        name: {f.name: f for f in c.body if isinstance(f, (ast.FunctionDef, ast.AsyncFunctionDef))}
        for name, c in classes.items()
    }
    deco = {(c, m): _parse_decorators(f) for c, fs in funcs.items() for m, f in fs.items()}
    body = {(c, m): _Body(f) for c, fs in funcs.items() for m, f in fs.items()}

    def resolve(cls, meth, after=None):
        order = mro[cls]
        if after is not None:
            order = order[order.index(after) + 1:]
        for d in order:
            if meth in funcs[d]:
                return d
        return None

    def is_concrete(cls):
        names = {m for d in mro[cls] for m in funcs[d]}
        return all(not deco[(resolve(cls, m), m)]["abstract"] for m in names)

    # a class that only external (non-module) bases make abstract is still treated as concrete
    concrete = sorted(c for c in classes if is_concrete(c))

    # ---- per concrete class: nodes are (defining class, method name, label) -------------------
    entries = []
    meth_names: set[str] = set()
    per_class = {}
    for cls in concrete:
        nodes = {}  # label -> dict
        todo = []
        for m in sorted({m for d in mro[cls] for m in funcs[d]}):
            d = resolve(cls, m)
            if body[(d, m)].has_state and not m.startswith("__"):
                todo.append((m, d, m))
        while todo:
            label, d, m = todo.pop()
            if label in nodes:
                continue
            b, dc = body[(d, m)], deco[(d, m)]
            unknown = list(b.unknown)
            if dc["bad"]:
                unknown.append("decorator not understood")
            if not b.has_state:
                unknown.append("callee without state parameter")
            if dc["cached"] and b.params != ["self", "state"]:
                unknown.append("cached method signature is not (self, state)")
            calls = []
            cond_calls = False
            for kind, name, cond in b.calls:
                if kind == "self":
                    dd = resolve(cls, name)
                    lab = name
                else:
                    dd = resolve(cls, name, after=d)
                    lab = f"super[{d}].{name}"
                    if dd is not None and deco[(dd, name)]["cached"]:
                        unknown.append(f"cached method {dd}.{name} reached through super()")
                if dd is None or not body[(dd, name)].has_state:
                    unknown.append(f"unresolved call {kind}.{name}")
                    continue
                calls.append(lab)
                cond_calls |= cond
                todo.append((lab, dd, name))
            declared = list(dc["declared"])
            decl_unknown = dc["bad"] or any(v not in VARS for v in declared)
            nodes[label] = {
                "cls": cls, "meth": label, "defcls": d, "lineno": funcs[d][m].lineno,
                "cached": dc["cached"] and label == m, "withAux": dc["withAux"] and label == m,
                "declared": sorted(set(v for v in declared if v in VARS), key=VARS.index),
                "declUnknown": bool(decl_unknown),
                "aux": list(dc["aux"]) if label == m else [],
                "reads": sorted(b.reads, key=VARS.index),
                "writes": sorted(b.writes, key=VARS.index),
                "calls": calls, "condCalls": cond_calls,
                "unknown": unknown,
                "stateOnly": b.params == ["self", "state"] and label == m,
                "alias": set(b.alias),
                "retCalls": [(k, n) for k, n in b.ret_calls],
            }
        # ---- transitive closure + rank (re-checked in Lean through local equations) ----
        state = {}

        def close(label, stack=()):
            if label in state:
                return state[label]
            nd = nodes[label]
            if label in stack:
                nd["unknown"].append("recursive call cycle")
                return (set(nd["reads"]), set(nd["writes"]), 0, set(nd["alias"]))
            td, tw, rk, al = set(nd["reads"]), set(nd["writes"]), 0, set(nd["alias"])
            for c in nd["calls"]:
                cd, cw, cr, _ = close(c, (*stack, label))
                td |= cd
                tw |= cw
                rk = max(rk, cr + 1)
            for kind, name in nd["retCalls"]:
                lab = name if kind == "self" else f"super[{nd['defcls']}].{name}"
                if lab in nodes:
                    al |= close(lab, (*stack, label))[3]
            state[label] = (td, tw, rk, al)
            return state[label]

        for label in sorted(nodes):
            td, tw, rk, al = close(label)
            nd = nodes[label]
            nd["trueDeps"] = sorted(td, key=VARS.index)
            nd["writesT"] = sorted(tw, key=VARS.index)
            nd["rank"] = rk
            nd["mayAlias"] = sorted(al, key=VARS.index)
            nd["unknownReads"] = bool(nd["unknown"])
            meth_names.add(label)
            for a in nd["aux"]:
                meth_names.add(a)
        per_class[cls] = nodes
    meth_ids = {m: i for i, m in enumerate(sorted(meth_names))}
    cls_ids = {c: i for i, c in enumerate(concrete)}
    for cls in concrete:
        for label in sorted(per_class[cls]):
            nd = dict(per_class[cls][label])
            nd["clsId"] = cls_ids[cls]
            nd["methId"] = meth_ids[label]
            nd["auxIds"] = [meth_ids[a] for a in nd["aux"]]
            nd["callIds"] = [meth_ids[c] for c in nd["calls"]]
            nd.pop("alias")
            nd.pop("retCalls")
            entries.append(nd)
    return {
        "classes": concrete, "methods": sorted(meth_names), "mro": {c: mro[c] for c in concrete},
        "entries": entries,
    }


# ----------------------------------------------------------------------------------------
# Lean emission


def _vs(vs):
    return "⟨" + ", ".join("true" if v in vs else "false" for v in VARS) + "⟩"


def _b(x):
    return "true" if x else "false"


def _nl(xs):
    return "[" + ", ".join(str(x) for x in xs) + "]"


def _ident(name: str) -> str:
    return "".join(ch if ch.isalnum() else "_" for ch in name)


def render(data: dict) -> str:
    out = [
        "/- GENERATED by tools/extractors/cache_deps.py from src/mici/systems.py — do not edit.",
        "   One entry per (concrete system class, method taking `state`).  VarSet = ⟨pos, mom, dir⟩.",
        "   classes: " + ", ".join(f"{i}={c}" for i, c in enumerate(data["classes"])),
        "   methods: " + ", ".join(f"{i}={m}" for i, m in enumerate(data["methods"])),
        "-/",
        "import MiciVerif.Model.Cache",
        "namespace MiciVerif.Generated",
        "open MiciVerif.Cache",
        "",
        "def cacheTable : List Entry := [",
    ]
    rows = []
    for e in data["entries"]:
        rows.append(
            "  { cls := %d, meth := %d, cached := %s, withAux := %s, declared := %s, declUnknown := %s,\n"
            "    aux := %s, reads := %s, writes := %s, calls := %s, condCalls := %s, unknownReads := %s,\n"
            "    trueDeps := %s, writesT := %s, rank := %d, mayAlias := %s, stateOnly := %s,\n"
            "    clsName := \"%s\", methName := \"%s\" }"
            % (
                e["clsId"], e["methId"], _b(e["cached"]), _b(e["withAux"]), _vs(e["declared"]),
                _b(e["declUnknown"]), _nl(e["auxIds"]), _vs(e["reads"]), _vs(e["writes"]),
                _nl(e["callIds"]), _b(e["condCalls"]), _b(e["unknownReads"]), _vs(e["trueDeps"]),
                _vs(e["writesT"]), e["rank"], _vs(e["mayAlias"]), _b(e["stateOnly"]),
                e["cls"], e["meth"],
            )
        )
    out.append(",\n".join(rows))
    out += ["]", "", "/-! ids of the classes and methods by name (plain constants) -/"]
    for i, c in enumerate(data["classes"]):
        out.append(f"def cls_{_ident(c)} : Nat := {i}")
    for i, m in enumerate(data["methods"]):
        out.append(f"def m_{_ident(m)} : Nat := {i}")
    out += ["", "end MiciVerif.Generated", ""]
    return "\n".join(out)


def emit(repo: Path, out: Path) -> None:
    (Path(out) / "CacheDeps.lean").write_text(render(analyse(Path(repo))))


if __name__ == "__main__":
    import json
    import sys

    d = analyse(Path(sys.argv[1] if len(sys.argv) > 1 else "/repo"))
    for e in d["entries"]:
        if e["unknown"]:
            print("UNKNOWN", e["cls"], e["meth"], e["unknown"])
    print(json.dumps({k: v for k, v in d.items() if k != "entries"}, indent=1))
    for e in d["entries"]:
        print(e["cls"], e["meth"], "cached" if e["cached"] else "-", e["declared"], "aux", e["aux"], "reads", e["reads"],
              "writes", e["writes"], "calls", e["calls"], "true", e["trueDeps"], "rank", e["rank"],
              "alias", e["mayAlias"], "cond" if e["condCalls"] else "")
