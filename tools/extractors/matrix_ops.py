"""Translator plug-in for C10 / C11: the class algebra of ``mici.matrices``.

Pure ``ast`` walking of ``<repo>/src/mici/matrices.py`` (the module is never imported).  For every
class of the module (inheritance resolved here with a C3 linearisation over the parsed ``ClassDef``
statements) and every operation of interest (``OPS``) the *effective* method body for that concrete
class is translated into the small symbolic language of ``lean/MiciVerif/Lemmas/MatrixOpsSyntax.lean``:

* the body is split into paths (``if`` / ``return`` / ``raise``); each path becomes a ``Branch`` with
  the conjunction of the conditions taken and the returned expression;
* local assignments are inlined (``x = e`` then ``x``; tuple unpacking; lazy-cache stores
  ``self._x = e`` followed by ``return self._x``);
* ``super().m(...)`` is resolved along the MRO *of the concrete class* and inlined (its branches are
  spliced when the call is the returned expression, otherwise it must have a single branch);
* ``type(self)(...)`` is resolved to the concrete class name;
* ``for v in it: acc = body`` (a loop whose body is ONE plain assignment to a name, no ``else``) becomes
  ``acc := SExpr.fold body acc v it init`` (inlined locals that mention a name the loop rebinds are poisoned);
* ``a[idx] = v`` becomes the functional update ``a := SExpr.setitem a idx v`` -- only for a local ``a`` that holds
  the result of an arithmetic expression and has since been mentioned only inside arithmetic / comparisons
  (so no other name can alias it; ``b = a``, ``b = a[1:]``, ``f(a)`` at top level revoke this);
* tuple targets may mix names and ``self.attr``; a constructor (``__init__``) returns
  ``<init>(attr=value, ..., super=(args))``: its attribute stores and the arguments of a final
  ``super().__init__(...)``;
* anything else not represented (other loops, ``try``, ``with``, lambdas, chained comparisons, augmented
  assignment, ...) becomes ``SExpr.unknown`` and sets ``unknown := true`` on that method: the Lean obligations
  look methods up through ``lookup``, which returns ``none`` for such a method, so they fail (fail closed).

Also emitted: ``softabs`` / ``grad_softabs`` / ``__init__`` of ``SoftAbsRegularizedPositiveDefiniteMatrix``
(``softabsFn``, ``gradSoftabsFn``, ``softabsInit``), the module-level ``_choose_matrix_product_class`` (``chooseProduct``) and, on the entry
of each abstract class, the operator / lazy-cache wrappers it defines (``__neg__``, ``__truediv__``,
``__matmul__``, ``transpose``, ``inv``, ``sqrt`` ...).

``extract(repo)`` returns the table as Python data, ``emit(repo, out)`` writes ``<out>/MatrixOps.lean``.
"""
from __future__ import annotations

import ast
import json
from fractions import Fraction
from pathlib import Path

SRC = "src/mici/matrices.py"

OPS = [
    "_scalar_multiply",
    "_construct_transpose",
    "_construct_inv",
    "_construct_sqrt",
    "log_abs_det",
    "diagonal",
    "_left_matrix_multiply",
    "_right_matrix_multiply",
    "_construct_array",
    "capacitance_matrix",
    "grad_log_abs_det",
    "grad_quadratic_form_inv",
]
SOFTABS = "SoftAbsRegularizedPositiveDefiniteMatrix"
WRAPPERS = ["__mul__", "__rmul__", "__truediv__", "__neg__", "__matmul__", "__rmatmul__", "transpose", "inv", "sqrt"]
MODULE_ALIASES = {"np", "nla", "sla", "numbers", "abc"}


class Unrepresentable(Exception):
    pass


# ---------------------------------------------------------------------------------------
# symbolic expressions: nested tuples, rendered to Lean constructor applications


def U(why):
    return ("unknown", str(why)[:80])


def chain(items):
    """items: list of ('pos', e) | ('kw', name, e)"""
    out = ("nil",)
    for it in reversed(items):
        out = ("cons", it[1], out) if it[0] == "pos" else ("kw", it[1], it[2], out)
    return out


def has_unknown(e):
    if not isinstance(e, tuple):
        return False
    if e and e[0] == "unknown":
        return True
    return any(has_unknown(x) for x in e[1:])


def first_unknown(e):
    if not isinstance(e, tuple):
        return None
    if e and e[0] == "unknown":
        return e[1]
    for x in e[1:]:
        w = first_unknown(x)
        if w is not None:
            return w
    return None


def mentions_var(e, names):
    """Does the symbolic expression mention one of the free names `names` (as `var`)?"""
    if not isinstance(e, tuple):
        return False
    if e and e[0] == "var":
        return e[1] in names
    return any(mentions_var(x, names) for x in e[1:])


def q(s):
    return json.dumps(s)


def render(e):
    t = e[0]
    if t in ("self", "none", "tt", "ff", "nil", "raise"):
        return "." + t
    if t == "var":
        return f"(.var {q(e[1])})"
    if t == "num":
        return f"(.num {e[1]})"
    if t == "rat":
        return f"(.rat {e[1]} {e[2]})"
    if t == "attr":
        return f"(.attr {render(e[1])} {q(e[2])})"
    if t in ("neg", "lnot", "star", "tuple"):
        return f"(.{t} {render(e[1])})"
    if t in ("add", "sub", "mul", "div", "matmul", "pow", "and", "or", "cons", "index"):
        return f"(.{t} {render(e[1])} {render(e[2])})"
    if t == "cmp":
        return f"(.cmp {q(e[1])} {render(e[2])} {render(e[3])})"
    if t == "ite":
        return f"(.ite {render(e[1])} {render(e[2])} {render(e[3])})"
    if t == "call":
        return f"(.call {q(e[1])} {render(e[2])})"
    if t == "mcall":
        return f"(.mcall {render(e[1])} {q(e[2])} {render(e[3])})"
    if t == "kw":
        return f"(.kw {q(e[1])} {render(e[2])} {render(e[3])})"
    if t == "gen":
        return f"(.gen {render(e[1])} {q(e[2])} {render(e[3])})"
    if t == "fold":
        return f"(.fold {render(e[1])} {q(e[2])} {q(e[3])} {render(e[4])} {render(e[5])})"
    if t == "setitem":
        return f"(.setitem {render(e[1])} {render(e[2])} {render(e[3])})"
    if t == "unknown":
        return f"(.unknown {q(e[1])})"
    raise AssertionError(t)


# ---------------------------------------------------------------------------------------
# module structure


def c3(name, bases_of, memo):
    if name in memo:
        return memo[name]
    bases = [b for b in bases_of[name] if b in bases_of]
    seqs = [list(c3(b, bases_of, memo)) for b in bases] + [list(bases)]
    res = [name]
    while any(seqs):
        for s in seqs:
            if not s:
                continue
            h = s[0]
            if not any(h in t[1:] for t in seqs):
                break
        else:
            raise Unrepresentable("inconsistent MRO for " + name)
        res.append(h)
        for s in seqs:
            if s and s[0] == h:
                del s[0]
    memo[name] = res
    return res


def deco_names(fn):
    out = []
    for d in fn.decorator_list:
        try:
            out.append(ast.unparse(d))
        except Exception:  # noqa: BLE001
            out.append("?")
    return out


class Module:
    def __init__(self, tree):
        self.classes = {}  # name -> ClassDef
        self.order = []
        self.bases = {}
        self.funcs = {}
        for node in tree.body:
            if isinstance(node, ast.ClassDef):
                self.classes[node.name] = node
                self.order.append(node.name)
                bs = []
                for b in node.bases:
                    if isinstance(b, ast.Name):
                        bs.append(b.id)
                    elif isinstance(b, ast.Attribute):
                        bs.append(ast.unparse(b))
                    else:
                        bs.append("?")
                self.bases[node.name] = bs
            elif isinstance(node, ast.FunctionDef):
                self.funcs[node.name] = node
        self.methods = {}
        for c, node in self.classes.items():
            d = {}
            for st in node.body:
                if isinstance(st, ast.FunctionDef):
                    decs = deco_names(st)
                    if any(x.endswith(".setter") or x.endswith(".deleter") for x in decs):
                        continue
                    d[st.name] = st
                elif isinstance(st, ast.Assign) and len(st.targets) == 1 and isinstance(st.targets[0], ast.Name) \
                        and isinstance(st.value, ast.Name):
                    # alias such as `T = transpose`
                    d.setdefault("=" + st.targets[0].id, st.value.id)
            self.methods[c] = d
        memo = {}
        self.mro = {c: c3(c, self.bases, memo) for c in self.order}

    def is_abstract_def(self, fn):
        return any("abstractmethod" in x for x in deco_names(fn))

    def is_property(self, fn):
        return any(x == "property" for x in deco_names(fn))

    def resolve(self, cls, name, after=None):
        """First class of mro(cls) (strictly after `after` if given) holding a FunctionDef `name`.
        Returns (defining class, FunctionDef) or (None, None)."""
        mro = self.mro[cls]
        start = 0 if after is None else mro.index(after) + 1
        for c in mro[start:]:
            fn = self.methods[c].get(name)
            if isinstance(fn, ast.FunctionDef):
                return c, fn
        return None, None

    def class_is_abstract(self, cls):
        names = set()
        for c in self.mro[cls]:
            for n, fn in self.methods[c].items():
                if isinstance(fn, ast.FunctionDef) and self.is_abstract_def(fn):
                    names.add(n)
        for n in names:
            _, fn = self.resolve(cls, n)
            if fn is not None and self.is_abstract_def(fn):
                return True
        return False


# ---------------------------------------------------------------------------------------
# bodies -> branches


BINOPS = {ast.Add: "add", ast.Sub: "sub", ast.Mult: "mul", ast.Div: "div", ast.MatMult: "matmul", ast.Pow: "pow"}
CMPOPS = {ast.Gt: ">", ast.GtE: ">=", ast.Lt: "<", ast.LtE: "<=", ast.Eq: "==", ast.NotEq: "!=", ast.Is: "is",
          ast.IsNot: "is not", ast.In: "in", ast.NotIn: "not in"}
MAX_PATHS = 64
FRESH = "$fresh"  # env key (not an identifier): names of locals that are unaliased fresh arrays


class Translator:
    def __init__(self, mod: Module, cls: str | None):
        self.mod = mod
        self.cls = cls  # concrete class the table entry is for (None: module-level function)
        self.depth = 0
        self.init_mode = False  # translating a constructor: see `init_result`

    # -- expressions ---------------------------------------------------------------------
    def expr(self, node, env, owner):
        try:
            return self._expr(node, env, owner)
        except Unrepresentable as e:
            return U(e)
        except RecursionError:
            return U("recursion")

    def _expr(self, node, env, owner):
        ex = lambda n: self._expr(n, env, owner)  # noqa: E731
        if isinstance(node, ast.Name):
            if node.id in env:
                return env[node.id]
            if node.id == "self":
                return ("self",)
            return ("var", node.id)
        if isinstance(node, ast.Constant):
            v = node.value
            if v is None:
                return ("none",)
            if v is True:
                return ("tt",)
            if v is False:
                return ("ff",)
            if isinstance(v, int):
                if v < 0:
                    return ("neg", ("num", -v))
                return ("num", v)
            if isinstance(v, float):
                f = Fraction(repr(v))
                if f < 0:
                    raise Unrepresentable("negative float literal")
                return ("num", f.numerator) if f.denominator == 1 else ("rat", f.numerator, f.denominator)
            raise Unrepresentable("constant " + type(v).__name__)
        if isinstance(node, ast.Attribute):
            b = ex(node.value)
            if b == ("self",) and ("self." + node.attr) in env:
                return env["self." + node.attr]
            return ("attr", b, node.attr)
        if isinstance(node, ast.UnaryOp):
            if isinstance(node.op, ast.USub):
                return ("neg", ex(node.operand))
            if isinstance(node.op, ast.Not):
                return ("lnot", ex(node.operand))
            if isinstance(node.op, ast.UAdd):
                return ex(node.operand)
            raise Unrepresentable("unary " + type(node.op).__name__)
        if isinstance(node, ast.BinOp):
            t = BINOPS.get(type(node.op))
            if t is None:
                raise Unrepresentable("binop " + type(node.op).__name__)
            return (t, ex(node.left), ex(node.right))
        if isinstance(node, ast.BoolOp):
            t = "and" if isinstance(node.op, ast.And) else "or"
            vals = [ex(v) for v in node.values]
            out = vals[-1]
            for v in reversed(vals[:-1]):
                out = (t, v, out)
            return out
        if isinstance(node, ast.Compare):
            if len(node.ops) != 1:
                raise Unrepresentable("chained comparison")
            t = CMPOPS.get(type(node.ops[0]))
            if t is None:
                raise Unrepresentable("cmp " + type(node.ops[0]).__name__)
            return ("cmp", t, ex(node.left), ex(node.comparators[0]))
        if isinstance(node, ast.IfExp):
            return ("ite", ex(node.test), ex(node.body), ex(node.orelse))
        if isinstance(node, ast.Tuple):
            return ("tuple", chain([("pos", ex(e)) for e in node.elts]))
        if isinstance(node, ast.List):
            return ("call", "list", chain([("pos", ex(e)) for e in node.elts]))
        if isinstance(node, ast.Starred):
            return ("star", ex(node.value))
        if isinstance(node, ast.Subscript):
            return ("index", ex(node.value), ex(node.slice))
        if isinstance(node, ast.Slice):
            part = lambda n: ("none",) if n is None else ex(n)  # noqa: E731
            return ("call", "slice", chain([("pos", part(node.lower)), ("pos", part(node.upper)), ("pos", part(node.step))]))
        if isinstance(node, (ast.GeneratorExp, ast.ListComp)):
            if len(node.generators) != 1 or node.generators[0].ifs or node.generators[0].is_async:
                raise Unrepresentable("comprehension shape")
            g = node.generators[0]
            if isinstance(g.target, ast.Name):
                names = [g.target.id]
            elif isinstance(g.target, ast.Tuple) and all(isinstance(e, ast.Name) for e in g.target.elts):
                names = [e.id for e in g.target.elts]
            else:
                raise Unrepresentable("comprehension target")
            it = ex(g.iter)
            env2 = {k: v for k, v in env.items() if k not in names}
            body = self._expr(node.elt, env2, owner)
            out = ("gen", body, ",".join(names), it)
            return ("call", "list", chain([("pos", out)])) if isinstance(node, ast.ListComp) else out
        if isinstance(node, ast.Call):
            return self._call(node, env, owner)
        raise Unrepresentable("expr " + type(node).__name__)

    def _args(self, node, env, owner):
        items = [("pos", self._expr(a, env, owner)) for a in node.args]
        for k in node.keywords:
            if k.arg is None:
                raise Unrepresentable("**kwargs")
            items.append(("kw", k.arg, self._expr(k.value, env, owner)))
        return chain(items)

    def _call(self, node, env, owner):
        f = node.func
        # type(self)(...)
        if isinstance(f, ast.Call) and isinstance(f.func, ast.Name) and f.func.id == "type" and len(f.args) == 1 \
                and isinstance(f.args[0], ast.Name) and f.args[0].id == "self" and "self" not in env:
            if self.cls is None:
                raise Unrepresentable("type(self) outside a class")
            return ("call", self.cls, self._args(node, env, owner))
        # super().m(...)
        if isinstance(f, ast.Attribute) and isinstance(f.value, ast.Call) and isinstance(f.value.func, ast.Name) \
                and f.value.func.id == "super" and not f.value.args:
            brs = self.super_branches(f.attr, node, env, owner)
            if len(brs) == 1 and brs[0][0] == []:
                return brs[0][1]
            raise Unrepresentable("super() call with several branches in nested position")
        if isinstance(f, ast.Name):
            if f.id in env:
                return ("mcall", env[f.id], "__call__", self._args(node, env, owner))
            return ("call", f.id, self._args(node, env, owner))
        if isinstance(f, ast.Attribute):
            if isinstance(f.value, ast.Name) and f.value.id in MODULE_ALIASES and f.value.id not in env:
                return ("call", f.value.id + "." + f.attr, self._args(node, env, owner))
            return ("mcall", self._expr(f.value, env, owner), f.attr, self._args(node, env, owner))
        raise Unrepresentable("call of " + type(f).__name__)

    def super_branches(self, name, call, env, owner):
        """Branches of the next definition of `name` after `owner` in mro(self.cls), with the actual
        arguments substituted for its formals.  Returns list of (conds, ret)."""
        if self.cls is None or owner is None:
            raise Unrepresentable("super() outside a class")
        d, fn = self.mod.resolve(self.cls, name, after=owner)
        if fn is None:
            raise Unrepresentable("super()." + name + " not found")
        if self.mod.is_abstract_def(fn):
            raise Unrepresentable("super()." + name + " is abstract")
        formals = [a.arg for a in fn.args.args][1:]
        if fn.args.vararg or fn.args.kwarg or fn.args.kwonlyargs or fn.args.posonlyargs:
            raise Unrepresentable("super() target signature")
        actual = {}
        for i, a in enumerate(call.args):
            if i >= len(formals):
                raise Unrepresentable("super() arity")
            actual[formals[i]] = self._expr(a, env, owner)
        for k in call.keywords:
            if k.arg not in formals:
                raise Unrepresentable("super() keyword")
            actual[k.arg] = self._expr(k.value, env, owner)
        if set(actual) != set(formals):
            raise Unrepresentable("super() defaults")
        self.depth += 1
        if self.depth > 6:
            raise Unrepresentable("super() depth")
        try:
            return self.block(fn.body, dict(actual), [], d)
        finally:
            self.depth -= 1

    # -- statements ----------------------------------------------------------------------
    def block(self, stmts, env, conds, owner):
        """Returns list of (conds, ret)."""
        env = dict(env)
        for i, s in enumerate(stmts):
            rest = stmts[i + 1:]
            if isinstance(s, ast.Expr) and isinstance(s.value, ast.Constant) and isinstance(s.value.value, str):
                continue
            if isinstance(s, ast.Pass):
                continue
            if isinstance(s, ast.Assign) and len(s.targets) == 1:
                t = s.targets[0]
                if isinstance(t, ast.Name):
                    val = self.expr(s.value, env, owner)
                    self.track_fresh(env, [t.id], s.value)
                    env[t.id] = val
                    continue
                if isinstance(t, ast.Tuple) and all(isinstance(e, ast.Name) or self.is_self_attr(e, env) for e in t.elts):
                    self.track_fresh(env, [e.id for e in t.elts if isinstance(e, ast.Name)], s.value)
                    if isinstance(s.value, ast.Tuple) and len(s.value.elts) == len(t.elts):
                        vals = [self.expr(v, env, owner) for v in s.value.elts]
                    else:
                        v = self.expr(s.value, env, owner)
                        vals = [("index", v, ("num", k)) for k in range(len(t.elts))]
                    for e, v in zip(t.elts, vals):
                        env[e.id if isinstance(e, ast.Name) else "self." + e.attr] = v
                    continue
                if isinstance(t, ast.Attribute) and isinstance(t.value, ast.Name) and t.value.id == "self" \
                        and "self" not in env:
                    env["self." + t.attr] = self.expr(s.value, env, owner)
                    continue
                if isinstance(t, ast.Attribute) and t.attr == "writeable" and isinstance(t.value, ast.Attribute) \
                        and t.value.attr == "flags":
                    continue  # read-only flag: no effect on values (C19 covers it)
                if isinstance(t, ast.Subscript) and isinstance(t.value, ast.Name) and t.value.id in env \
                        and t.value.id in env.get(FRESH, frozenset()):
                    # item assignment `a[idx] = v` on a local array that no other name can alias:
                    # functional update of the local
                    x = t.value.id
                    env[x] = ("setitem", env[x], self.expr(t.slice, env, owner), self.expr(s.value, env, owner))
                    continue
                return [(conds, U("assignment target " + type(t).__name__))]
            if isinstance(s, ast.For):
                r = self.for_loop(s, env, owner)
                if r is None:
                    return [(conds, U("statement For"))]
                continue
            if isinstance(s, ast.If):
                c = self.expr(s.test, env, owner)
                out = self.block(list(s.body) + list(rest), env, conds + [c], owner)
                out += self.block(list(s.orelse) + list(rest), env, conds + [("lnot", c)], owner)
                if len(out) > MAX_PATHS:
                    return [(conds, U("too many paths"))]
                return out
            if isinstance(s, ast.Return):
                if s.value is None:
                    return [(conds, ("none",))]
                v = s.value
                # `return super().m(...)`: splice the branches of the next definition
                if isinstance(v, ast.Call) and isinstance(v.func, ast.Attribute) and isinstance(v.func.value, ast.Call) \
                        and isinstance(v.func.value.func, ast.Name) and v.func.value.func.id == "super" \
                        and not v.func.value.args:
                    try:
                        brs = self.super_branches(v.func.attr, v, env, owner)
                    except Unrepresentable as e:
                        return [(conds, U(e))]
                    return [(conds + c2, r2) for c2, r2 in brs]
                return [(conds, self.expr(v, env, owner))]
            if isinstance(s, ast.Raise):
                return [(conds, ("raise",))]
            if self.init_mode and not rest and isinstance(s, ast.Expr) and isinstance(s.value, ast.Call) \
                    and isinstance(s.value.func, ast.Attribute) and s.value.func.attr == "__init__" \
                    and isinstance(s.value.func.value, ast.Call) and isinstance(s.value.func.value.func, ast.Name) \
                    and s.value.func.value.func.id == "super" and not s.value.func.value.args:
                # constructor ending in `super().__init__(args)`: the attribute stores so far + that call
                try:
                    args = self._args(s.value, env, owner)
                except Unrepresentable as e:
                    return [(conds, U(e))]
                return [(conds, self.init_result(env, args))]
            return [(conds, U("statement " + type(s).__name__))]
        if self.init_mode:
            return [(conds, self.init_result(env, None))]
        return [(conds, ("none",))]

    @staticmethod
    def is_self_attr(e, env):
        return isinstance(e, ast.Attribute) and isinstance(e.value, ast.Name) and e.value.id == "self" and "self" not in env

    @staticmethod
    def init_result(env, super_args):
        """`<init>(attr=value, ..., super=(args))`: what a constructor stores on `self` (in order of first
        assignment) and what it passes to `super().__init__`."""
        items = [("kw", k[5:], v) for k, v in env.items() if k.startswith("self.")]
        if super_args is not None:
            items.append(("kw", "super", ("tuple", super_args)))
        return ("call", "<init>", chain(items))

    @staticmethod
    def track_fresh(env, targets, value):
        """Maintain the set of local names bound to an array no other name can alias (the result of
        an arithmetic expression that has not been mentioned since in anything but arithmetic /
        comparisons): only those may be the target of an item assignment."""
        fresh = set(env.get(FRESH, frozenset()))
        if value is not None:
            used = {n.id for n in ast.walk(value) if isinstance(n, ast.Name)}
            if not isinstance(value, (ast.BinOp, ast.Compare, ast.UnaryOp)):
                fresh -= used
        for t in targets:
            fresh.discard(t)
        if value is not None and isinstance(value, ast.BinOp) and len(targets) == 1:
            fresh.add(targets[0])
        env[FRESH] = frozenset(fresh)

    def for_loop(self, s, env, owner):
        """`for v in it: acc = body` (one plain assignment, no else / break) becomes
        `acc := fold body acc v it init`; updates `env` in place, returns None if not that shape."""
        if s.orelse or len(s.body) != 1 or getattr(s, "type_comment", None):
            return None
        b = s.body[0]
        if not (isinstance(b, ast.Assign) and len(b.targets) == 1 and isinstance(b.targets[0], ast.Name)):
            return None
        if isinstance(s.target, ast.Name):
            names = [s.target.id]
        elif isinstance(s.target, ast.Tuple) and all(isinstance(e, ast.Name) for e in s.target.elts):
            names = [e.id for e in s.target.elts]
        else:
            return None
        acc = b.targets[0].id
        if acc in names:
            return None
        it = self.expr(s.iter, env, owner)
        init = env.get(acc, ("var", acc))
        bound = set(names) | {acc}
        env2 = {}
        for k, v in env.items():
            if k in bound:
                continue
            # an inlined local that mentions a name the loop rebinds would be captured
            env2[k] = U("local captured by loop") if (k != FRESH and mentions_var(v, bound)) else v
        body = self.expr(b.value, env2, owner)
        env[acc] = ("fold", body, acc, ",".join(names), it, init)
        for nm in names:
            env[nm] = U("loop variable used after the loop")
        self.track_fresh(env, [acc] + names, None)
        return True

    def method(self, name, owner, fn):
        formals = [a.arg for a in fn.args.args]
        env = {}
        if formals and formals[0] == "self":
            formals = formals[1:]
        brs = self.block(fn.body, env, [], owner)
        out = []
        for conds, ret in brs:
            c = ("tt",)
            if conds:
                c = conds[-1]
                for x in reversed(conds[:-1]):
                    c = ("and", x, c)
            out.append((c, ret))
        return out


def method_entry(mod, cls, name):
    d, fn = mod.resolve(cls, name) if cls is not None else (None, mod.funcs.get(name))
    if fn is None:
        return {"name": name, "definedIn": "", "kind": "missing", "branches": [], "unknown": False, "why": ""}
    if cls is not None and mod.is_abstract_def(fn):
        return {"name": name, "definedIn": d, "kind": "abstract", "branches": [], "unknown": False, "why": ""}
    tr = Translator(mod, cls)
    tr.init_mode = name == "__init__"
    try:
        brs = tr.method(name, d, fn)
        why = ""
        for c, r in brs:
            why = why or first_unknown(c) or first_unknown(r) or ""
    except Exception as e:  # noqa: BLE001  (fail closed, never crash)
        brs, why = [], "translator exception: " + type(e).__name__ + ": " + str(e)[:60]
    kind = "property" if (cls is not None and mod.is_property(fn)) else "method"
    return {"name": name, "definedIn": d or "", "kind": kind, "branches": brs, "unknown": bool(why), "why": why}


def extract(repo: Path):
    src = (Path(repo) / SRC).read_text()
    mod = Module(ast.parse(src))
    table = []
    for c in mod.order:
        abstract = mod.class_is_abstract(c)
        wrappers = []
        for w in WRAPPERS:
            d, _ = mod.resolve(c, w)
            wrappers.append((w, d or ""))
        methods = []
        if abstract:
            for w in WRAPPERS:
                if isinstance(mod.methods[c].get(w), ast.FunctionDef):
                    methods.append(method_entry(mod, c, w))
        else:
            for op in OPS:
                methods.append(method_entry(mod, c, op))
        table.append({"name": c, "abstract": abstract, "mro": mod.mro[c], "wrappers": wrappers, "methods": methods})
    choose = method_entry(mod, None, "_choose_matrix_product_class")
    tri = method_entry(mod, None, "_make_array_triangular")
    softabs = [method_entry(mod, SOFTABS if SOFTABS in mod.classes else None, nm)
               for nm in ("softabs", "grad_softabs", "__init__")]
    if SOFTABS not in mod.classes or softabs[2]["definedIn"] != SOFTABS:
        softabs[2] = {"name": "__init__", "definedIn": "", "kind": "missing", "branches": [], "unknown": False, "why": ""}
    return {"table": table, "chooseProduct": choose, "makeTriangular": tri, "softabs": softabs[0],
            "gradSoftabs": softabs[1], "softabsInit": softabs[2]}


def render_method(m, indent):
    pad = " " * indent
    brs = ",\n".join(f"{pad}    ⟨{render(c)},\n{pad}     {render(r)}⟩" for c, r in m["branches"])
    brs = "[\n" + brs + "]" if m["branches"] else "[]"
    return (f"{pad}{{ name := {q(m['name'])}, definedIn := {q(m['definedIn'])}, kind := {q(m['kind'])},\n"
            f"{pad}  unknown := {'true' if m['unknown'] else 'false'}, unknownWhy := {q(m['why'])},\n"
            f"{pad}  branches := {brs} }}")


HEADER = """/-
GENERATED by tools/extractors/matrix_ops.py from src/mici/matrices.py of the tree under test.
Do not edit; rewritten by every `./check C10` / `./check C11` run.  Clean-tree copy:
Generated.expected/MatrixOps.lean.

One entry per class of mici.matrices (inheritance resolved by a C3 linearisation over the parsed
class statements).  Concrete classes: the effective body of every operation of interest as a list
of paths (condition, returned expression), locals inlined, `super()` and `type(self)` resolved for
that concrete class.  Abstract classes: the operator / lazy-cache wrappers they define.
Types and field meanings: MiciVerif/Lemmas/MatrixOpsSyntax.lean.
-/
import MiciVerif.Lemmas.MatrixOpsSyntax

set_option maxRecDepth 4000

namespace MiciVerif.Generated.MatrixOps
open MiciVerif.MatrixOps

"""


def emit(repo: Path, out: Path) -> None:
    try:
        data = extract(repo)
        fatal = ""
    except Exception as e:  # noqa: BLE001  (fail closed: an empty table breaks every obligation)
        data = {"table": [], "chooseProduct": {"name": "_choose_matrix_product_class", "definedIn": "", "kind": "missing",
                                                "branches": [], "unknown": True, "why": "extractor failure"},
                "makeTriangular": {"name": "_make_array_triangular", "definedIn": "", "kind": "missing",
                                   "branches": [], "unknown": True, "why": "extractor failure"},
                "softabs": {"name": "softabs", "definedIn": "", "kind": "missing",
                            "branches": [], "unknown": True, "why": "extractor failure"},
                "gradSoftabs": {"name": "grad_softabs", "definedIn": "", "kind": "missing",
                                "branches": [], "unknown": True, "why": "extractor failure"},
                "softabsInit": {"name": "__init__", "definedIn": "", "kind": "missing",
                                "branches": [], "unknown": True, "why": "extractor failure"}}
        fatal = f"-- EXTRACTOR FAILURE ({type(e).__name__}: {str(e)[:120]}): empty table, every obligation fails\n"
    parts = [HEADER, fatal]
    names = []
    for e in data["table"]:
        ident = "c_" + e["name"].lstrip("_")
        names.append(ident)
        ms = ",\n".join(render_method(m, 4) for m in e["methods"])
        ms = "[\n" + ms + "]" if e["methods"] else "[]"
        wr = ", ".join(f"({q(a)}, {q(b)})" for a, b in e["wrappers"])
        mro = ", ".join(q(x) for x in e["mro"])
        parts.append(
            f"def {ident} : ClassOps :=\n"
            f"  {{ name := {q(e['name'])}, abstract := {'true' if e['abstract'] else 'false'},\n"
            f"    mro := [{mro}],\n"
            f"    wrappers := [{wr}],\n"
            f"    methods := {ms} }}\n\n")
    parts.append("def table : List ClassOps := [\n  " + ",\n  ".join(names) + "]\n\n" if names
                 else "def table : List ClassOps := []\n\n")
    parts.append("def chooseProduct : Method :=\n" + render_method(data["chooseProduct"], 2) + "\n\n")
    parts.append("def makeTriangular : Method :=\n" + render_method(data["makeTriangular"], 2) + "\n\n")
    parts.append("/-- `SoftAbsRegularizedPositiveDefiniteMatrix.softabs` / `.grad_softabs` (formal `x`) -/\n")
    parts.append("def softabsFn : Method :=\n" + render_method(data["softabs"], 2) + "\n\n")
    parts.append("def gradSoftabsFn : Method :=\n" + render_method(data["gradSoftabs"], 2) + "\n\n")
    parts.append("/-- `SoftAbsRegularizedPositiveDefiniteMatrix.__init__`: `<init>(attr=value, ..., super=(args))` = the\n"
                 "attributes it stores and the arguments it passes to `super().__init__` -/\n")
    parts.append("def softabsInit : Method :=\n" + render_method(data["softabsInit"], 2) + "\n\n")
    parts.append("end MiciVerif.Generated.MatrixOps\n")
    (Path(out) / "MatrixOps.lean").write_text("".join(parts))
