"""Translator plug-in `sampler_storage_skeleton`: the output-storage helpers of `mici.samplers`.

Reads `src/mici/samplers.py` of the tree under test (pure `ast`, mici is never imported) and writes
`lean/MiciVerif/Generated/SamplerStorageSkeleton.lean`: parameter list and statement tree
(`MiciVerif.Skel.S` / `MiciVerif.Skel.E` of builder B5's `Model/SamplerSkeleton.lean`) of

    _get_valid_filename, _generate_memmap_filenames, _open_new_memmap, _memmaps_to_file_paths,
    _file_paths_to_memmaps, _zip_dict, _check_and_process_init_state, _init_stats, _init_traces,
    _construct_chain_iterators, _get_per_chain_rngs,
    HamiltonianMonteCarlo._preprocess_init_state / _default_trace_func / sample_chains

plus the field lists of the two `NamedTuple` output classes.  `Props/C13K.lean` / `C15K.lean` prove
that every generated tree equals the expected tree of `Model/SamplerStorageSkeleton.lean` and
re-derive the storage facts `Model/Sampler.lean` (`initSys`, `nTraceIter`) relies on.

Difference to `sampler_skeleton.py` (whose helpers are imported, not copied): the storage helpers
are mostly comprehensions, f-strings and slices, so these are translated *structurally* instead of
being kept as source text.  Encodings (function names in angle brackets cannot be Python names):

    [e for t in it if c]      .call "<listcomp>" [e, .tup [t, it, c]]     (one .tup per `for`)
    (e for ...) / {k: v for}  .call "<genexpr>" ... / .call "<dictcomp>" [.tup [k, v], ...]
    f"a{x}b"                  .call "<fstring>" [.s "a", x, .s "b"]
    {k: v, **d}               .call "<dict>" [.tup [k, v], .kwstar d]
    a[lo:hi:st]               .sub a (.call "<slice>" [lo, hi, st])
    a | b,  a / b            .op "|" [a, b],  .op "/" [a, b]

Dropped (allow-list, listed in the generated `dropped` table): docstrings, `pass`,
`msg = <string / f-string>` (error message texts).  Fail closed: any other statement / expression
kind becomes `S.unknown` / `E.unk`; a missing or duplicated function becomes a body consisting of
`S.unknown`; the extractor itself never raises.
"""
from __future__ import annotations

import ast
import traceback
from pathlib import Path

from .sampler_skeleton import BIN as _BIN5
from .sampler_skeleton import CMP, dotted, elist, find_function, lean_str, src_of

TARGET = "SamplerStorageSkeleton.lean"

# (Lean name, python function name, class or None)
FUNCTIONS = [
    ("getValidFilename", "_get_valid_filename", None),
    ("generateMemmapFilenames", "_generate_memmap_filenames", None),
    ("openNewMemmap", "_open_new_memmap", None),
    ("memmapsToFilePaths", "_memmaps_to_file_paths", None),
    ("filePathsToMemmaps", "_file_paths_to_memmaps", None),
    ("zipDict", "_zip_dict", None),
    ("checkAndProcessInitState", "_check_and_process_init_state", None),
    ("initStats", "_init_stats", None),
    ("initTraces", "_init_traces", None),
    ("constructChainIterators", "_construct_chain_iterators", None),
    ("getPerChainRngs", "_get_per_chain_rngs", None),
    ("hmcPreprocessInitState", "_preprocess_init_state", "HamiltonianMonteCarlo"),
    ("hmcDefaultTraceFunc", "_default_trace_func", "HamiltonianMonteCarlo"),
    ("hmcSampleChains", "sample_chains", "HamiltonianMonteCarlo"),
]
CLASSES = [("mcmcOutputsFields", "MCMCSampleChainsOutputs"), ("hmcOutputsFields", "HMCSampleChainsOutputs")]

BIN = dict(_BIN5)
BIN[ast.BitOr] = "|"
BIN[ast.Div] = "/"


def _gens(generators):
    out = []
    for g in generators:
        if g.is_async:
            return None
        out.append(f"(.tup {elist([expr(g.target), expr(g.iter)] + [expr(c) for c in g.ifs])})")
    return out


def expr(node) -> str:  # noqa: PLR0911, PLR0912
    if node is None:
        return "E.none"
    d = dotted(node)
    if d is not None:
        return f"(.v {lean_str(d)})"
    if isinstance(node, ast.Constant):
        v = node.value
        if v is None:
            return "E.none"
        if v is True or v is False:
            return f"(.v {lean_str(str(v))})"
        if isinstance(v, int):
            return f"(.n ({v}))" if v < 0 else f"(.n {v})"
        if isinstance(v, str):
            return f"(.s {lean_str(v)})"
        return f"(.unk {lean_str(src_of(node))})"
    if isinstance(node, ast.Attribute):
        return f"(.attr {expr(node.value)} {lean_str(node.attr)})"
    if isinstance(node, ast.Call):
        args = [expr(a) for a in node.args]
        for k in node.keywords:
            if k.arg is None:
                args.append(f"(.kwstar {expr(k.value)})")
            else:
                args.append(f"(.kw {lean_str(k.arg)} {expr(k.value)})")
        f = dotted(node.func)
        if f is not None:
            return f"(.call {lean_str(f)} {elist(args)})"
        if isinstance(node.func, ast.Attribute):
            return f"(.meth {expr(node.func.value)} {lean_str(node.func.attr)} {elist(args)})"
        return f"(.unk {lean_str(src_of(node))})"
    if isinstance(node, ast.Subscript):
        if isinstance(node.slice, ast.Slice):
            sl = node.slice
            return (f"(.sub {expr(node.value)} "
                    f"(.call \"<slice>\" {elist([expr(sl.lower), expr(sl.upper), expr(sl.step)])}))")
        return f"(.sub {expr(node.value)} {expr(node.slice)})"
    if isinstance(node, ast.Compare):
        if len(node.ops) == 1 and type(node.ops[0]) in CMP:
            return f"(.op {lean_str(CMP[type(node.ops[0])])} {elist([expr(node.left), expr(node.comparators[0])])})"
        return f"(.unk {lean_str(src_of(node))})"
    if isinstance(node, ast.BoolOp):
        o = "and" if isinstance(node.op, ast.And) else "or"
        return f"(.op {lean_str(o)} {elist([expr(v) for v in node.values])})"
    if isinstance(node, ast.UnaryOp):
        if isinstance(node.op, ast.Not):
            return f"(.op \"not\" {elist([expr(node.operand)])})"
        if isinstance(node.op, ast.USub) and isinstance(node.operand, ast.Constant) \
                and isinstance(node.operand.value, int) and not isinstance(node.operand.value, bool):
            return f"(.n ({-node.operand.value}))"
        return f"(.unk {lean_str(src_of(node))})"
    if isinstance(node, ast.BinOp):
        if type(node.op) in BIN:
            return f"(.op {lean_str(BIN[type(node.op)])} {elist([expr(node.left), expr(node.right)])})"
        return f"(.unk {lean_str(src_of(node))})"
    if isinstance(node, ast.IfExp):
        return f"(.ite {expr(node.test)} {expr(node.body)} {expr(node.orelse)})"
    if isinstance(node, ast.Tuple):
        return f"(.tup {elist([expr(e) for e in node.elts])})"
    if isinstance(node, ast.List):
        return f"(.lst {elist([expr(e) for e in node.elts])})"
    if isinstance(node, ast.Starred):
        return f"(.star {expr(node.value)})"
    if isinstance(node, (ast.ListComp, ast.GeneratorExp, ast.SetComp)):
        gens = _gens(node.generators)
        if gens is None:
            return f"(.unk {lean_str(src_of(node))})"
        nm = {ast.ListComp: "<listcomp>", ast.GeneratorExp: "<genexpr>", ast.SetComp: "<setcomp>"}[type(node)]
        return f"(.call {lean_str(nm)} {elist([expr(node.elt)] + gens)})"
    if isinstance(node, ast.DictComp):
        gens = _gens(node.generators)
        if gens is None:
            return f"(.unk {lean_str(src_of(node))})"
        kv = f"(.tup {elist([expr(node.key), expr(node.value)])})"
        return f"(.call \"<dictcomp>\" {elist([kv] + gens)})"
    if isinstance(node, ast.Dict):
        items = []
        for k, v in zip(node.keys, node.values):
            items.append(f"(.kwstar {expr(v)})" if k is None else f"(.tup {elist([expr(k), expr(v)])})")
        return f"(.call \"<dict>\" {elist(items)})"
    if isinstance(node, ast.JoinedStr):
        parts = []
        for p in node.values:
            if isinstance(p, ast.Constant) and isinstance(p.value, str):
                parts.append(f"(.s {lean_str(p.value)})")
            elif isinstance(p, ast.FormattedValue) and p.conversion == -1 and p.format_spec is None:
                parts.append(expr(p.value))
            else:
                parts.append(f"(.unk {lean_str(src_of(p))})")
        return f"(.call \"<fstring>\" {elist(parts)})"
    return f"(.unk {lean_str(src_of(node))})"


def _ignorable(stmt):
    if isinstance(stmt, ast.Expr) and isinstance(stmt.value, ast.Constant) and isinstance(stmt.value.value, str):
        return None, True
    if isinstance(stmt, ast.Pass):
        return None, True
    if isinstance(stmt, ast.Assign) and len(stmt.targets) == 1 and isinstance(stmt.targets[0], ast.Name) \
            and stmt.targets[0].id == "msg" and isinstance(stmt.value, (ast.Constant, ast.JoinedStr)):
        return "message text", True
    return None, False


class Tr:
    def __init__(self, fname: str):
        self.fname = fname
        self.dropped: list[tuple[str, str, str]] = []

    def block(self, stmts, ind: int) -> str:
        items = []
        for st in stmts:
            reason, drop = _ignorable(st)
            if drop:
                if reason is not None:
                    self.dropped.append((self.fname, reason, src_of(st).split("\n")[0][:100]))
                continue
            items.append(self.stmt(st, ind + 2))
        if not items:
            return "(S.b [])"
        pad = " " * (ind + 2)
        return "(S.b [\n" + ",\n".join(pad + it for it in items) + "])"

    def stmt(self, st, ind: int) -> str:
        try:
            return self._stmt(st, ind)
        except Exception as e:  # noqa: BLE001
            return f".unknown {lean_str('extractor error: ' + repr(e)[:120] + ' at ' + src_of(st)[:80])}"

    def _stmt(self, st, ind: int) -> str:  # noqa: PLR0911
        pad = " " * (ind + 2)
        if isinstance(st, ast.Expr):
            return f".expr {expr(st.value)}"
        if isinstance(st, ast.Assign):
            if len(st.targets) != 1:
                return f".unknown {lean_str(src_of(st))}"
            return f".assign {expr(st.targets[0])} {expr(st.value)}"
        if isinstance(st, ast.AugAssign):
            if type(st.op) not in BIN:
                return f".unknown {lean_str(src_of(st))}"
            return f".aug {expr(st.target)} {lean_str(BIN[type(st.op)])} {expr(st.value)}"
        if isinstance(st, ast.If):
            return f".ifc {expr(st.test)}\n{pad}{self.block(st.body, ind + 2)}\n{pad}{self.block(st.orelse, ind + 2)}"
        if isinstance(st, ast.For):
            if st.orelse:
                return f".unknown {lean_str(src_of(st))}"
            return f".loop {expr(st.target)} {expr(st.iter)}\n{pad}{self.block(st.body, ind + 2)}"
        if isinstance(st, ast.Return):
            return f".ret {expr(st.value)}"
        if isinstance(st, ast.Raise):
            return f".raise_ {expr(st.exc)} {expr(st.cause)}"
        if isinstance(st, ast.Continue):
            return ".cont"
        if isinstance(st, ast.Break):
            return ".brk"
        # while / try / with do not occur in the storage helpers: fail closed
        return f".unknown {lean_str(src_of(st))}"


def signature(fn: ast.FunctionDef) -> str:
    a = fn.args
    items = []
    pos = list(a.posonlyargs) + list(a.args)
    ndef = len(a.defaults)
    for i, p in enumerate(pos):
        j = i - (len(pos) - ndef)
        items.append(f"(.kw {lean_str(p.arg)} {expr(a.defaults[j])})" if j >= 0 else f"(.v {lean_str(p.arg)})")
    if a.vararg is not None:
        items.append(f"(.star (.v {lean_str(a.vararg.arg)}))")
    elif a.kwonlyargs:
        items.append('(.s "*")')
    for p, dflt in zip(a.kwonlyargs, a.kw_defaults):
        items.append(f"(.v {lean_str(p.arg)})" if dflt is None else f"(.kw {lean_str(p.arg)} {expr(dflt)})")
    if a.kwarg is not None:
        items.append(f"(.kwstar (.v {lean_str(a.kwarg.arg)}))")
    if fn.decorator_list:
        items.append(f"(.unk {lean_str('decorated: ' + ', '.join(src_of(d) for d in fn.decorator_list))})")
    return elist(items)


def class_fields(tree, cls: str) -> str:
    """`["<base>", field, ...]` of a NamedTuple class; anything unexpected becomes an `?…` entry."""
    hits = [n for n in tree.body if isinstance(n, ast.ClassDef) and n.name == cls]
    if len(hits) != 1:
        return "[" + lean_str(f"?class {cls}: {len(hits)} definitions") + "]"
    c = hits[0]
    out = ["<" + ",".join(src_of(b) for b in c.bases) + ">"]
    for st in c.body:
        if isinstance(st, ast.Expr) and isinstance(st.value, ast.Constant) and isinstance(st.value.value, str):
            continue
        if isinstance(st, ast.AnnAssign) and isinstance(st.target, ast.Name) and st.value is None:
            out.append(st.target.id)
        else:
            out.append("?" + src_of(st).split("\n")[0][:80])
    return "[" + ", ".join(lean_str(x) for x in out) + "]"


HEADER = """/- GENERATED by tools/extractors/sampler_storage_skeleton.py from src/mici/samplers.py of the tree
   under test.  Do not edit.  Statement trees (`Skel.S`, `Skel.E`) of the output-storage helpers; see
   the extractor's docstring for the encodings of comprehensions / f-strings / slices, for what is
   dropped (table `dropped`) and how it fails closed (`S.unknown`, `E.unk`). -/
import MiciVerif.Model.SamplerStorageSkeleton
namespace MiciVerif.Generated.SamplerStorageSkeleton
open MiciVerif.Skel

"""


def emit(repo: Path, out: Path) -> None:
    chunks = [HEADER]
    dropped: list[tuple[str, str, str]] = []
    try:
        tree = ast.parse((repo / "src" / "mici" / "samplers.py").read_text())
        err = ""
    except Exception as e:  # noqa: BLE001
        tree, err = None, "cannot parse samplers.py: " + repr(e)[:200]
    for lean_name, py_name, cls in FUNCTIONS:
        body = sig = None
        reason = err
        try:
            if tree is not None:
                fn, reason = find_function(tree, py_name, cls)
                if fn is not None:
                    tr = Tr(py_name)
                    body = tr.block(fn.body, 0)
                    sig = signature(fn)
                    dropped += tr.dropped
        except Exception as e:  # noqa: BLE001
            reason = "extractor error: " + repr(e)[:200] + " " + traceback.format_exc()[-200:]
            body = None
        if body is None or sig is None:
            body = f"(S.b [.unknown {lean_str(reason)}])"
            sig = f"(E.l [.unk {lean_str(reason)}])"
        where = (cls + "." if cls else "") + py_name
        chunks.append(f"/-- parameters of `{where}` -/\ndef {lean_name}Sig : E :=\n  {sig}\n\n")
        chunks.append(f"/-- body of `{where}` -/\ndef {lean_name} : S :=\n  {body}\n\n")
    for lean_name, cls in CLASSES:
        try:
            fields = "[" + lean_str("?" + err) + "]" if tree is None else class_fields(tree, cls)
        except Exception as e:  # noqa: BLE001
            fields = "[" + lean_str("?extractor error: " + repr(e)[:200]) + "]"
        chunks.append(f"/-- base class and fields of `{cls}` -/\ndef {lean_name} : List String :=\n  {fields}\n\n")
    rows = ",\n".join(f"  ({lean_str(f)}, {lean_str(r)}, {lean_str(s)})" for f, r, s in dropped)
    chunks.append(
        "/-- statements the extractor dropped: (function, allow-list entry, first line of the source) -/\n"
        "def dropped : List (String × String × String) := [\n" + rows + "]\n\n"
    )
    chunks.append("end MiciVerif.Generated.SamplerStorageSkeleton\n")
    (out / TARGET).write_text("".join(chunks))
