"""Translator plug-in for C05 / C07 / C08 (and C04's closed-form projection): method bodies of the
system classes of ``src/mici/systems.py`` as terms of the deep-embedded language of
``lean/MiciVerif/Model/SysExpr.lean``.

Pure ``ast`` (never imports mici).  For every class of ``systems.py`` whose name is in the Lean
enumeration ``Cls`` (MRO by C3 linearisation over the parsed class statements) and every
non-abstract method whose name is in ``Meth``, the method BODY is translated statement by
statement into ``Stmt`` / ``SExpr`` terms and written to ``Generated/SystemMethods.lean``:

* ``mro  : Cls → List Cls``
* ``body : Cls → Meth → Option MethodDef`` (``none``: not defined in that class / abstract)
* ``table : Table``

Shapes understood: see ``_Tr.expr`` / ``_Tr.stmt``.  Everything else becomes
``SExpr.unknown "<source text>"`` / ``Stmt.unknown …`` / ``Cond.unknown …`` which evaluate to
``Val.err``, so the ``src_*_eq_model`` theorems of ``Props/C05S|C07S|C08S.lean`` about that method
(and about every method calling it) no longer check (fail closed).  Decorators
``cache_in_state`` / ``cache_in_state_with_aux`` are ignored here (their transparency is C09's
subject); any other decorator makes the body ``unknown``.

``analyse(repo)`` returns the same data as a dict for the harnesses (which (class, method) bodies
were translated, their source text, where unknown shapes sit).
"""
from __future__ import annotations

import ast
from pathlib import Path

CLS = [
    "System", "TractableFlowSystem", "EuclideanMetricSystem", "GaussianEuclideanMetricSystem",
    "ConstrainedTractableFlowSystem", "ConstrainedEuclideanMetricSystem",
    "DenseConstrainedEuclideanMetricSystem", "GaussianDenseConstrainedEuclideanMetricSystem",
    "RiemannianMetricSystem", "ScalarRiemannianMetricSystem", "DiagonalRiemannianMetricSystem",
    "CholeskyFactoredRiemannianMetricSystem", "DenseRiemannianMetricSystem",
    "SoftAbsRiemannianMetricSystem",
]
METH = [
    "neg_log_dens", "grad_neg_log_dens", "h", "h1", "h2", "dh1_dpos", "dh2_dpos", "dh2_dmom",
    "dh_dpos", "dh_dmom", "h1_flow", "h2_flow", "dh2_flow_dmom", "sample_momentum",
    "project_onto_cotangent_space", "constr", "jacob_constr", "jacob_constr_inner_product", "gram",
    "inv_gram", "log_det_sqrt_gram", "grad_log_det_sqrt_gram", "mhp_constr", "metric_func",
    "vjp_metric_func", "metric", "hess_neg_log_dens", "mtp_neg_log_dens",
]
USERFN = [
    "neg_log_dens", "grad_neg_log_dens", "constr", "jacob_constr", "mhp_constr", "metric_func",
    "vjp_metric_func", "hess_neg_log_dens", "mtp_neg_log_dens",
]
ATTRS = ["inv", "sqrt", "T", "eigval", "eigvec", "log_abs_det", "grad_log_abs_det"]
DENSE = {
    "DensePositiveDefiniteMatrix": "posDef", "DenseSymmetricMatrix": "symmetric",
    "DenseSquareMatrix": "square",
}
CACHE_DECOS = ("cache_in_state", "cache_in_state_with_aux")
MAX_ARGS = 3


# ----------------------------------------------------------------------------------------
# class table + C3 (same algorithm as cache_deps.py; kept local so the plug-ins stay independent)


def _base_name(b):
    if isinstance(b, ast.Name):
        return b.id
    if isinstance(b, ast.Attribute):
        return b.attr
    return None


def _c3(name, bases_of, memo):
    if name in memo:
        return memo[name]
    bases = [b for b in bases_of[name] if b in bases_of]
    seqs = [list(_c3(b, bases_of, memo)) for b in bases] + [list(bases)]
    res = [name]
    while True:
        seqs = [s for s in seqs if s]
        if not seqs:
            break
        for s in seqs:
            cand = s[0]
            if not any(cand in t[1:] for t in seqs):
                break
        else:
            raise ValueError(f"inconsistent MRO for {name}")
        res.append(cand)
        for s in seqs:
            if s[0] == cand:
                del s[0]
    memo[name] = res
    return res


def _deco_name(d):
    f = d.func if isinstance(d, ast.Call) else d
    if isinstance(f, ast.Name):
        return f.id
    if isinstance(f, ast.Attribute):
        return f.attr
    return None


def _lean_str(s: str) -> str:
    s = " ".join(s.split())
    if len(s) > 160:
        s = s[:157] + "..."
    out = []
    for ch in s:
        if ch == "\\":
            out.append("\\\\")
        elif ch == '"':
            out.append('\\"')
        elif ord(ch) < 32 or ord(ch) > 126:
            out.append("?")
        else:
            out.append(ch)
    return '"' + "".join(out) + '"'


def _src(node) -> str:
    try:
        return ast.unparse(node)
    except Exception:  # noqa: BLE001
        return "<unparse failed>"


def _src_nodoc(fn: ast.FunctionDef) -> str:
    """source text of a method without its docstring"""
    try:
        body = list(fn.body)
        if (
            body and isinstance(body[0], ast.Expr) and isinstance(body[0].value, ast.Constant)
            and isinstance(body[0].value.value, str)
        ):
            body = body[1:] or [ast.Pass()]
        cp = ast.FunctionDef(
            name=fn.name, args=fn.args, body=body, decorator_list=fn.decorator_list, returns=fn.returns,
            type_comment=None, lineno=fn.lineno, col_offset=0,
        )
        if hasattr(fn, "type_params"):
            cp.type_params = fn.type_params
        return ast.unparse(ast.fix_missing_locations(cp))
    except Exception:  # noqa: BLE001
        return _src(fn)


def _is_state_attr(node, which=None):
    return (
        isinstance(node, ast.Attribute) and isinstance(node.value, ast.Name) and node.value.id == "state"
        and (node.attr in ("pos", "mom") if which is None else node.attr == which)
    )


def _is_self_attr(node, name=None):
    return (
        isinstance(node, ast.Attribute) and isinstance(node.value, ast.Name) and node.value.id == "self"
        and (name is None or node.attr == name)
    )


def _is_pos_shape(node):
    """state.pos.shape"""
    return isinstance(node, ast.Attribute) and node.attr == "shape" and _is_state_attr(node.value, "pos")


def _is_pos_shape0(node):
    """state.pos.shape[0]"""
    return (
        isinstance(node, ast.Subscript) and _is_pos_shape(node.value)
        and isinstance(node.slice, ast.Constant) and node.slice.value == 0
    )


class _Sig:
    """Signature of a method name, shared by all its definitions (else inconsistent)."""

    def __init__(self, params, defaults, has_state, ok):
        self.params, self.defaults, self.has_state, self.ok = params, defaults, has_state, ok


def _signature(fn: ast.FunctionDef):
    """-> (param names without self, {name: default node})  or None when not representable"""
    a = fn.args
    if a.vararg or a.kwarg or a.kwonlyargs or a.posonlyargs:
        return None
    names = [x.arg for x in a.args]
    if not names or names[0] != "self":
        return None
    names = names[1:]
    defaults = {}
    for n, d in zip(names[len(names) - len(a.defaults):], a.defaults):
        defaults[n] = d
    return names, defaults


class _Tr:
    """Translator of one method body."""

    def __init__(self, sigs, params):
        self.sigs = sigs
        self.vars = {p: i for i, p in enumerate(params)}  # name -> index
        self.unknowns = []

    # -- helpers
    def unk(self, node, kind="SExpr"):
        self.unknowns.append(_src(node))
        return f"(.unknown {_lean_str(_src(node))})"

    def var(self, name, create=False):
        if name not in self.vars:
            if not create:
                return None
            self.vars[name] = len(self.vars)
        return self.vars[name]

    def call_args(self, node: ast.Call, meth: str):
        """arguments of self.meth(...) / super().meth(...) normalised against the shared signature:
        `state` implicit, defaults filled in; -> list of 3 Lean terms or None"""
        sig = self.sigs.get(meth)
        if sig is None or not sig.ok:
            return None
        bound = {}
        if len(node.args) > len(sig.params):
            return None
        for name, a in zip(sig.params, node.args):
            if isinstance(a, ast.Starred):
                return None
            bound[name] = a
        for k in node.keywords:
            if k.arg is None or k.arg not in sig.params or k.arg in bound:
                return None
            bound[k.arg] = k.value
        out = []
        for name in sig.params:
            if name == "state":
                a = bound.get(name)
                if not (isinstance(a, ast.Name) and a.id == "state"):
                    return None
                continue
            if name in bound:
                out.append(self.expr(bound[name]))
            elif name in sig.defaults:
                d = sig.defaults[name]
                if isinstance(d, ast.Constant) and d.value is None:
                    out.append(".noneLit")
                else:
                    return None
            else:
                return None
        if len(out) > MAX_ARGS:
            return None
        return out + [".noarg"] * (MAX_ARGS - len(out))

    # -- expressions
    def expr(self, e) -> str:  # noqa: C901, PLR0911, PLR0912
        if isinstance(e, ast.Constant):
            if e.value is None:
                return ".noneLit"
            if isinstance(e.value, (int, float)) and not isinstance(e.value, bool):
                if e.value == 0.5:
                    return ".half"
                if e.value == 1:
                    return ".one"
            return self.unk(e)
        if _is_state_attr(e, "pos"):
            return ".pos"
        if _is_state_attr(e, "mom"):
            return ".mom"
        if isinstance(e, ast.Name):
            i = self.var(e.id)
            return f"(.var {i})" if i is not None else self.unk(e)
        if _is_self_attr(e, "metric"):
            return ".metricAttr"
        if isinstance(e, ast.Attribute) and e.attr in ATTRS:
            return f"(.attr .{e.attr} {self.expr(e.value)})"
        if isinstance(e, ast.BinOp):
            if isinstance(e.op, ast.Pow):
                if isinstance(e.right, ast.Constant) and e.right.value == 0.5:
                    return f"(.sqrtPow {self.expr(e.left)})"
                return self.unk(e)
            op = {ast.Add: "add", ast.Sub: "sub", ast.Mult: "mul", ast.Div: "div", ast.MatMult: "matmul"}.get(type(e.op))
            if op is None:
                return self.unk(e)
            return f"(.{op} {self.expr(e.left)} {self.expr(e.right)})"
        if isinstance(e, ast.UnaryOp) and isinstance(e.op, ast.USub):
            return f"(.neg {self.expr(e.operand)})"
        if isinstance(e, ast.Tuple) and len(e.elts) == 2:
            return f"(.pair {self.expr(e.elts[0])} {self.expr(e.elts[1])})"
        if isinstance(e, ast.Call):
            return self.call(e)
        return self.unk(e)

    def call(self, e: ast.Call) -> str:  # noqa: C901, PLR0911, PLR0912
        f = e.func
        plain = not e.keywords and not any(isinstance(a, ast.Starred) for a in e.args)
        # self._user_fn(state.pos)
        if _is_self_attr(f) and f.attr.startswith("_") and f.attr[1:] in USERFN:
            if plain and len(e.args) == 1:
                return f"(.user .{f.attr[1:]} {self.expr(e.args[0])})"
            return self.unk(e)
        # self._metric_matrix_class(theta, **self._metric_kwargs | size=state.pos.shape[0])
        if _is_self_attr(f, "_metric_matrix_class") and len(e.args) == 1 and len(e.keywords) == 1:
            k = e.keywords[0]
            if k.arg is None and _is_self_attr(k.value, "_metric_kwargs"):
                return f"(.mkMetric {self.expr(e.args[0])} 0)"
            if k.arg == "size" and _is_pos_shape0(k.value):
                return f"(.mkMetric {self.expr(e.args[0])} 1)"
            return self.unk(e)
        # self.m(state, ...)
        if _is_self_attr(f):
            if f.attr in METH:
                args = self.call_args(e, f.attr)
                if args is not None:
                    return f"(.call .{f.attr} {' '.join(args)})"
            return self.unk(e)
        # super().m(state, ...)
        if (
            isinstance(f, ast.Attribute) and isinstance(f.value, ast.Call) and isinstance(f.value.func, ast.Name)
            and f.value.func.id == "super" and not f.value.args and not f.value.keywords
        ):
            if f.attr in METH:
                args = self.call_args(e, f.attr)
                if args is not None:
                    return f"(.superCall .{f.attr} {' '.join(args)})"
            return self.unk(e)
        # rng.standard_normal(state.pos.shape) / rng.normal(size=state.pos.shape)
        if isinstance(f, ast.Attribute) and isinstance(f.value, ast.Name) and f.value.id == "rng" and self.var("rng") is not None:
            if f.attr == "standard_normal" and plain and len(e.args) == 1 and _is_pos_shape(e.args[0]):
                return ".normal"
            if (
                f.attr == "normal" and not e.args and len(e.keywords) == 1 and e.keywords[0].arg == "size"
                and _is_pos_shape(e.keywords[0].value)
            ):
                return ".normal"
            return self.unk(e)
        # np.sin / np.cos / np.zeros_like / np.array
        if isinstance(f, ast.Attribute) and isinstance(f.value, ast.Name) and f.value.id == "np":
            m = {"sin": "sin", "cos": "cos", "zeros_like": "zerosLike", "array": "copy"}.get(f.attr)
            if m and plain and len(e.args) == 1:
                return f"(.{m} {self.expr(e.args[0])})"
            return self.unk(e)
        # matrices.X(...)
        if isinstance(f, ast.Attribute) and isinstance(f.value, ast.Name) and f.value.id == "matrices":
            if f.attr == "IdentityMatrix" and plain and len(e.args) == 1:
                a = e.args[0]
                if (
                    isinstance(a, ast.Subscript) and isinstance(a.slice, ast.Constant) and a.slice.value == 0
                    and isinstance(a.value, ast.Attribute) and a.value.attr == "shape"
                    and _is_self_attr(a.value.value, "metric")
                ):
                    return ".identityN"
                return self.unk(e)
            if f.attr == "EigendecomposedSymmetricMatrix" and plain and len(e.args) == 2:
                return f"(.eigMat {self.expr(e.args[0])} {self.expr(e.args[1])})"
            if f.attr in DENSE and plain and len(e.args) == 1:
                return f"(.dense .{DENSE[f.attr]} {self.expr(e.args[0])})"
            return self.unk(e)
        # obj.grad_quadratic_form_inv(v)
        if isinstance(f, ast.Attribute) and f.attr == "grad_quadratic_form_inv" and plain and len(e.args) == 1:
            return f"(.gradQuadFormInv {self.expr(f.value)} {self.expr(e.args[0])})"
        # local_callable(x)
        if isinstance(f, ast.Name) and self.var(f.id) is not None and plain and len(e.args) == 1:
            return f"(.apply (.var {self.var(f.id)}) {self.expr(e.args[0])})"
        return self.unk(e)

    # -- conditions
    def cond(self, t) -> str:
        if _is_self_attr(t, "dens_wrt_hausdorff"):
            return ".densWrtHausdorff"
        if isinstance(t, ast.BoolOp) and isinstance(t.op, ast.Or) and len(t.values) == 2:
            a, b = t.values
            if (
                isinstance(a, ast.Compare) and len(a.ops) == 1 and isinstance(a.ops[0], ast.Is)
                and isinstance(a.left, ast.Name) and isinstance(a.comparators[0], ast.Constant)
                and a.comparators[0].value is None
                and isinstance(b, ast.Compare) and len(b.ops) == 1 and isinstance(b.ops[0], ast.Is)
                and isinstance(b.left, ast.Name) and b.left.id == a.left.id
                and isinstance(b.comparators[0], ast.Name)
            ):
                i, j = self.var(a.left.id), self.var(b.comparators[0].id)
                if i is not None and j is not None:
                    return f"(.isNoneOrSame {i} {j})"
        self.unknowns.append(_src(t))
        return f"(.unknown {_lean_str(_src(t))})"

    # -- statements
    def stmt(self, s) -> list[str]:  # noqa: C901, PLR0911, PLR0912
        if isinstance(s, ast.Expr) and isinstance(s.value, ast.Constant) and isinstance(s.value.value, str):
            return []  # docstring
        if isinstance(s, ast.Pass):
            return []
        if isinstance(s, ast.Return):
            return [f".ret {self.expr(s.value) if s.value is not None else '.noneLit'}"]
        if isinstance(s, ast.Assign) and len(s.targets) == 1:
            t = s.targets[0]
            if _is_state_attr(t, "pos"):
                return [f".setPos {self.expr(s.value)}"]
            if _is_state_attr(t, "mom"):
                return [f".setMom {self.expr(s.value)}"]
            if isinstance(t, ast.Name):
                v = self.expr(s.value)
                return [f".assign {self.var(t.id, create=True)} {v}"]
            if (
                isinstance(t, ast.Tuple) and isinstance(s.value, ast.Tuple) and len(t.elts) == len(s.value.elts)
                and all(isinstance(x, ast.Name) for x in t.elts)
            ):
                names = {x.id for x in t.elts}
                used = {n.id for v in s.value.elts for n in ast.walk(v) if isinstance(n, ast.Name)}
                if not (names & used) and len(names) == len(t.elts):
                    vals = [self.expr(v) for v in s.value.elts]
                    return [f".assign {self.var(x.id, create=True)} {v}" for x, v in zip(t.elts, vals)]
            return [self.unk(s)[1:-1]]
        if isinstance(s, ast.AugAssign) and isinstance(s.op, (ast.Add, ast.Sub)):
            op = "add" if isinstance(s.op, ast.Add) else "sub"
            t = s.target
            if _is_state_attr(t, "pos"):
                return [f".{op}Pos {self.expr(s.value)}"]
            if _is_state_attr(t, "mom"):
                return [f".{op}Mom {self.expr(s.value)}"]
            if isinstance(t, ast.Name) and self.var(t.id) is not None:
                return [f".aug{op.capitalize()} {self.var(t.id)} {self.expr(s.value)}"]
            return [self.unk(s)[1:-1]]
        if (
            isinstance(s, ast.If) and not s.orelse and len(s.body) == 1 and isinstance(s.body[0], ast.Return)
            and s.body[0].value is not None
        ):
            c = self.cond(s.test)
            return [f".ifRet {c} {self.expr(s.body[0].value)}"]
        return [self.unk(s)[1:-1]]


# ----------------------------------------------------------------------------------------


def analyse(repo: Path) -> dict:  # noqa: C901, PLR0912
    path = Path(repo) / "src" / "mici" / "systems.py"
    tree = ast.parse(path.read_text())
    classes = {}
    bases_of = {}
    for node in tree.body:
        if isinstance(node, ast.ClassDef):
            classes[node.name] = node
            bases_of[node.name] = [_base_name(b) for b in node.bases if _base_name(b)]
    memo = {}
    mro = {}
    for name in classes:
        try:
            mro[name] = _c3(name, bases_of, memo)
        except Exception:  # noqa: BLE001
            mro[name] = None
    # shared signatures per method name
    sigs: dict[str, _Sig] = {}
    for cname, cnode in classes.items():
        for f in cnode.body:
            if isinstance(f, ast.FunctionDef) and f.name in METH:
                sg = _signature(f)
                if sg is None:
                    sigs[f.name] = _Sig([], {}, False, False)
                    continue
                names, defaults = sg
                dflt = {k: _src(v) for k, v in defaults.items()}
                if f.name in sigs:
                    old = sigs[f.name]
                    if old.params != names or {k: _src(v) for k, v in old.defaults.items()} != dflt:
                        old.ok = False
                else:
                    sigs[f.name] = _Sig(names, defaults, "state" in names, True)
    for s in sigs.values():
        if len([p for p in s.params if p != "state"]) > MAX_ARGS:
            s.ok = False
    entries = []
    skipped = []
    for cname, cnode in classes.items():
        if cname not in CLS:
            continue
        for f in cnode.body:
            if isinstance(f, ast.AsyncFunctionDef):
                skipped.append((cname, f.name, "async"))
                continue
            if not isinstance(f, ast.FunctionDef) or f.name == "__init__":
                continue
            if f.name not in METH:
                skipped.append((cname, f.name, "method name outside the Lean enumeration"))
                continue
            decos = [_deco_name(d) for d in f.decorator_list]
            if "abstractmethod" in decos:
                continue
            ent = {"cls": cname, "meth": f.name, "line": f.lineno, "source": _src_nodoc(f), "unknown": []}
            try:
                sg = _signature(f)
                sig = sigs.get(f.name)
                if sg is None or sig is None or not sig.ok or any(d not in CACHE_DECOS for d in decos):
                    ent["nparams"] = 0
                    why = "signature / decorator not representable: " + _src(f).split("\n")[0]
                    ent["stmts"] = [f".unknown {_lean_str(why)}"]
                    ent["unknown"] = [why]
                else:
                    params = [p for p in sg[0] if p != "state"]
                    tr = _Tr(sigs, params)
                    stmts = []
                    for s in f.body:
                        stmts += tr.stmt(s)
                    ent["nparams"] = len(params)
                    ent["stmts"] = stmts
                    ent["unknown"] = tr.unknowns
                    ent["vars"] = dict(tr.vars)
            except Exception as ex:  # noqa: BLE001  (fail closed, never crash)
                ent["nparams"] = 0
                ent["stmts"] = [f".unknown {_lean_str('translator exception: ' + repr(ex))}"]
                ent["unknown"] = [repr(ex)]
            entries.append(ent)
    # constants passed to a base-class __init__: dens_wrt_hausdorff=<bool>, metric_matrix_class=matrices.<X>
    fixed_flag, metric_class = {}, {}
    for cname, cnode in classes.items():
        if cname not in CLS:
            continue
        for f in cnode.body:
            if not (isinstance(f, ast.FunctionDef) and f.name == "__init__"):
                continue
            for node in ast.walk(f):
                if not (isinstance(node, ast.Call) and isinstance(node.func, ast.Attribute) and node.func.attr == "__init__"):
                    continue
                for k in node.keywords:
                    if k.arg == "dens_wrt_hausdorff" and isinstance(k.value, ast.Constant) and isinstance(k.value.value, bool):
                        fixed_flag.setdefault(cname, []).append(k.value.value)
                    if k.arg == "metric_matrix_class" and isinstance(k.value, ast.Attribute) and isinstance(k.value.value, ast.Name) and k.value.value.id == "matrices":
                        metric_class.setdefault(cname, []).append(k.value.attr)
    return {
        "fixed_flag": {c: v[0] for c, v in fixed_flag.items() if len(v) == 1},
        "metric_class": {c: v[0] for c, v in metric_class.items() if len(v) == 1},
        "classes": [c for c in CLS if c in classes],
        "missing_classes": [c for c in CLS if c not in classes],
        "other_classes": [c for c in classes if c not in CLS],
        "mro": {c: mro[c] for c in classes if c in CLS},
        "entries": entries,
        "skipped": skipped,
    }


def render(data: dict) -> str:
    out = [
        "/- GENERATED by tools/extractors/system_methods.py from src/mici/systems.py — do not edit.",
        "   Method bodies of the system classes as terms of MiciVerif.SysExpr (Model/SysExpr.lean).",
        "   `state` and `self` are implicit; the other parameters and the locals are `var i`.",
        "-/",
        "import MiciVerif.Model.SysExpr",
        "namespace MiciVerif.Generated.SystemMethods",
        "open MiciVerif.SysExpr",
        "",
        "/-- method resolution order (C3 over the parsed class statements); `unknown`: a base class",
        "outside the Lean enumeration (its methods cannot be resolved: fail closed) -/",
        "@[simp] def mro : Cls → List Cls",
    ]
    for c in data["classes"]:
        m = data["mro"].get(c)
        if m is None:
            out.append(f"  | .{c} => [.unknown]")
        else:
            out.append(f"  | .{c} => [" + ", ".join("." + (x if x in CLS else "unknown") for x in m) + "]")
    out.append("  | _ => []")
    out.append("")
    by_cls: dict[str, list] = {}
    for e in data["entries"]:
        by_cls.setdefault(e["cls"], []).append(e)
    for c in data["classes"]:
        ents = by_cls.get(c, [])
        out.append(f"/-! #### class {c} -/")
        out.append("")
        out.append(f"@[simp] def body_{c} : Meth → Option MethodDef")
        seen = set()
        for e in ents:
            if e["meth"] in seen:  # a second definition of the same name in one class body: fail closed
                continue
            seen.add(e["meth"])
            dup = sum(1 for x in ents if x["meth"] == e["meth"]) > 1
            for ln in e["source"].split("\n"):
                if not ln.strip():
                    continue
                out.append("  -- " + ln.replace("-/", "- /"))
            if "vars" in e and e["vars"]:
                out.append("  -- variables: " + ", ".join(f"{k} = var {v}" for k, v in e["vars"].items()))
            stmts = e["stmts"] if not dup else [f".unknown {_lean_str('method defined twice in the class body')}"]
            out.append(f"  | .{e['meth']} => some ⟨{e['nparams']}, [")
            out.append(",\n".join("      " + s for s in stmts))
            out.append("    ]⟩")
        out.append("  | _ => none")
        out.append("")
    out.append("@[simp] def body : Cls → Meth → Option MethodDef")
    for c in data["classes"]:
        out.append(f"  | .{c} => body_{c}")
    out.append("  | _ => fun _ => none")
    out.append("")
    out.append("@[simp] def table : Table := ⟨mro, body⟩")
    out.append("")
    out.append("/-- `dens_wrt_hausdorff=<constant>` passed by the class' `__init__` to its base `__init__` -/")
    out.append("def fixedDensWrtHausdorff : Cls → Option Bool")
    for c, v in data["fixed_flag"].items():
        out.append(f"  | .{c} => some {'true' if v else 'false'}")
    out.append("  | _ => none")
    out.append("")
    out.append("/-- `metric_matrix_class=matrices.<X>` passed by the class' `__init__` to its base `__init__` -/")
    out.append("def metricMatrixClass : Cls → Option String")
    for c, v in data["metric_class"].items():
        out.append(f'  | .{c} => some "{v}"')
    out.append("  | _ => none")
    out.append("")
    out.append("/-- (class, method, source text) of every shape the translator could not represent -/")
    unk = [(e["cls"], e["meth"], u) for e in data["entries"] for u in e["unknown"]]
    out.append("def unknownShapes : List (String × String × String) := [")
    out.append(",\n".join(f'  ("{c}", "{m}", {_lean_str(u)})' for c, m, u in unk))
    out.append("]")
    out.append("")
    out.append("/-- methods of the known classes whose names are outside the enumeration `Meth` (not translated;")
    out.append("a call to one of them is an `unknown` expression) -/")
    out.append("def skippedMethods : List (String × String) := [")
    out.append(",\n".join(f'  ("{c}", "{m}")' for c, m, _ in data["skipped"]))
    out.append("]")
    out.append("")
    out.append("/-- classes of systems.py outside the enumeration `Cls` / classes of `Cls` missing in the source -/")
    out.append("def otherClasses : List String := [" + ", ".join(f'"{c}"' for c in data["other_classes"]) + "]")
    out.append("def missingClasses : List String := [" + ", ".join(f'"{c}"' for c in data["missing_classes"]) + "]")
    out += ["", "end MiciVerif.Generated.SystemMethods", ""]
    return "\n".join(out)


def _fallback(msg: str) -> str:
    return "\n".join([
        "/- GENERATED by tools/extractors/system_methods.py — the translator FAILED; empty table (fail closed). -/",
        "import MiciVerif.Model.SysExpr",
        "namespace MiciVerif.Generated.SystemMethods",
        "open MiciVerif.SysExpr",
        "@[simp] def mro : Cls → List Cls := fun _ => []",
        "@[simp] def body : Cls → Meth → Option MethodDef := fun _ _ => none",
        "@[simp] def table : Table := ⟨mro, body⟩",
        "def fixedDensWrtHausdorff : Cls → Option Bool := fun _ => none",
        "def metricMatrixClass : Cls → Option String := fun _ => none",
        f"def unknownShapes : List (String × String × String) := [(\"*\", \"*\", {_lean_str(msg)})]",
        "def skippedMethods : List (String × String) := []",
        "def otherClasses : List String := []",
        "def missingClasses : List String := []",
        "end MiciVerif.Generated.SystemMethods",
        "",
    ])


def emit(repo: Path, out: Path) -> None:
    try:
        text = render(analyse(Path(repo)))
    except Exception as ex:  # noqa: BLE001  (fail closed: the eq_model theorems break)
        text = _fallback(repr(ex))
    (Path(out) / "SystemMethods.lean").write_text(text)


if __name__ == "__main__":
    import sys

    d = analyse(Path(sys.argv[1] if len(sys.argv) > 1 else "/repo"))
    for e in d["entries"]:
        print(e["cls"], e["meth"], "UNKNOWN " + repr(e["unknown"]) if e["unknown"] else "ok")
        for s in e["stmts"]:
            print("    ", s)
    print("skipped", d["skipped"])
    print("other", d["other_classes"], "missing", d["missing_classes"])
