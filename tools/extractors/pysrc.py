"""Translator plug-in `pysrc`: Python source -> shallow Lean definitions (C20, C16, C17).

Reads (pure `ast`, never importing mici) `utils.py`, `transitions.py`, `stagers.py` and
`adapters.py` of the tree under test and writes

* `Generated/UtilsSrc.lean`    the four stable helper functions, `LOG_2`, every method of
                               `LogRepFloat`, the multinomial `_weight_ratio`
                               (definitions over `LogRep.Prims F`, like `Model/LogRep.lean`);
* `Generated/StagersSrc.lean`  `WarmUpStager.stages`, `WindowedWarmUpStager.__init__` and
                               `.stages` incl. the window loop as a fuel-recursive function
                               (over `Nat`/`Rat`, like `Model/Stagers.lean`);
* `Generated/AdaptersSrc.lean` the scalar arithmetic of the dual-averaging `update`, the
                               Welford updates, the Chan merge steps and the initial step-size
                               search loop (over a field `K`, like `Model/Adapters.lean`); and the
                               whole methods: `DualAveragingStepSizeAdapter.__init__` (stored
                               attributes, defaults), `.initialize` (state dictionary, `is None`
                               selection of the regularisation target, call of the search),
                               `._find_and_set_init_step_size` (NaN guard, initial step size,
                               threshold, loop bound, exhausted-loop error around the loop body),
                               the three reducers of the module, `__init__` / `initialize` of the
                               two metric adapters and their complete `finalize` (single state or
                               loop over the chains, error, normalisation, regularisation, matrix
                               class and `.inv` of the new metric, per-chain cache clearing and
                               momentum refresh).

The theorems `src_<name>_eq_model` of `Props/C20S.lean`, `C16S.lean`, `C17S.lean` state that each
generated definition equals the hand-written model definition, so that every property theorem
transports to the definitions generated from the *current* source.

Fail closed: a function that is missing, has another signature or contains a construct outside
the supported subset is emitted as `def <name>_translated : Bool := false` plus a stub of the
expected type; the Props theorem requires `<name>_translated = true`.  The reason is written
next to the stub as a comment.

Translation conventions (the same abstractions the hand models make; they are validated by the
correspondence runs, not proved):
  utils     `a > b` is `P.lt b a`, `a >= b` is `P.le b a`, `a != b` is `!(P.eq a b)`; an `if` on a
            negated test swaps its branches; `0`/`0.0` is `P.zero`, `-inf` is `P.negInf`; `raise` is the
            value `P.err`; `try: exp(x) except OverflowError: inf` is `P.expSat x`; a method with an
            `other: ScalarLike` operand is translated once per dynamic type of `other` (`isinstance`
            decided statically) and the two halves are joined by a `match`.
  stagers   Python `int` variables are `Nat` (truncated subtraction), `float` parameters `Rat`, a decimal
            float literal is the rational it denotes, `int(e)` is `floor`; the stage dictionary is the
            list of its values in insertion order (keys must be pairwise different literals); an
            `adapters=` argument is abstracted to `Kind` (`adapters` .slow, `fast_adapters` .fast after
            checking its defining comprehension, `None` .main), `trace_funcs=` to "is set".
  adapters  NumPy arrays are one scalar component (the per-entry form of `Model/Adapters.lean`),
            `x ** 2` is `x * x`, dictionary entries of the adapter state are structure fields.
            Whole methods: loops are applications of the combinators of `Lemmas/PySrcAdaptersBase.lean`
            (`mergeLoop3/4`: `for i, s in enumerate(adapt_states): if i == 0 … else …`; `searchFor`: `for s in
            range(N): try … except IntegratorError …` then `raise`) to the generated loop bodies; the step
            size of the search is its exponent of 2 (`= 1` is exponent 0, `/= 2`, `*= 2`), the trial step and
            the Hamiltonian are the oracle `dH`, `np.isnan(h_init)` a Boolean argument; an optional setting
            (`float | None`) is `Option K` and may only be consumed under an `is None` test (`x or y` on it is
            rejected: truthiness would replace an explicit 0.0); decimal defaults are the exact rationals of
            their source text; `np.zeros…` of the position's shape is 0; `Cls(est).inv` is the record
            `⟨class, inverse := true, est⟩` handed to an abstract matrix constructor `mk`; `chain_state.pos =
            chain_state.pos` is the abstract cache-clearing action `clear`, `system.sample_momentum(chain_state,
            rng)` is `sample <metric in force at that statement> chain_state rng`, `chain_states` / `rngs` are
            one list of pairs (equal lengths: `zip(strict=True)`), the single-state branch wraps both in
            one-element lists; messages of exceptions are dropped, the two `AdaptationError`s of the search
            are distinguished by position.
"""
from __future__ import annotations

import ast
import traceback
from fractions import Fraction
from pathlib import Path


class Untranslatable(Exception):
    pass


def U(msg, node=None):
    where = f" (line {node.lineno})" if node is not None and hasattr(node, "lineno") else ""
    return Untranslatable(msg + where)


def clean(reason: str) -> str:
    return reason.replace("-/", "- /").replace("/-", "/ -").replace("\n", " ")[:300]


def find_func(tree, name, cls=None):
    body = tree.body
    if cls is not None:
        for n in body:
            if isinstance(n, ast.ClassDef) and n.name == cls:
                body = n.body
                break
        else:
            raise U(f"class {cls} not found")
    hits = [n for n in body if isinstance(n, ast.FunctionDef) and n.name == name]
    if len(hits) != 1:
        raise U(f"{len(hits)} definitions of {name}")
    return hits[0]


def arg_names(fn):
    a = fn.args
    if a.vararg or a.kwarg or a.posonlyargs:
        raise U("unsupported signature", fn)
    return [x.arg for x in a.args], [x.arg for x in a.kwonlyargs]


def strip_doc(stmts):
    if stmts and isinstance(stmts[0], ast.Expr) and isinstance(stmts[0].value, ast.Constant) and isinstance(stmts[0].value.value, str):
        return stmts[1:]
    return stmts


def has_exit(stmts) -> bool:
    for s in stmts:
        for n in ast.walk(s):
            if isinstance(n, (ast.Return, ast.Raise)):
                return True
    return False


def paren(s: str) -> str:
    s = s.strip()
    if s.startswith("(") and s.endswith(")"):
        depth = 0
        for i, ch in enumerate(s):
            depth += ch == "("
            depth -= ch == ")"
            if depth == 0 and i < len(s) - 1:
                break
        else:
            return s
    if all(c.isalnum() or c in "_.'" for c in s):
        return s
    return "(" + s + ")"


# =======================================================================================
# utils.py  (and the multinomial _weight_ratio of transitions.py)
# =======================================================================================

PRIM_CALLS = {"exp": "P.exp", "log": "P.log", "log1p": "P.log1p", "expm1": "P.expm1"}
ARITH = {ast.Add: "P.add", ast.Sub: "P.sub", ast.Mult: "P.mul", ast.Div: "P.div"}
# (lean method name, kind of `other`: "scalar" | "plain" | None, result type)
METHODS = {
    "__add__": ("add", "scalar", "S"),
    "__radd__": ("radd", "scalar", "S"),
    "__iadd__": ("iadd", "scalar", "R"),
    "__sub__": ("sub", "scalar", "S"),
    "__rsub__": ("rsub", "plain", "F"),
    "__mul__": ("mul", "scalar", "S"),
    "__rmul__": ("rmul", "scalar", "S"),
    "__truediv__": ("truediv", "scalar", "S"),
    "__rtruediv__": ("rtruediv", "plain", "F"),
    "__neg__": ("neg", None, "F"),
    "__eq__": ("eq", "scalar", "B"),
    "__ne__": ("ne", "scalar", "B"),
    "__lt__": ("lt", "scalar", "B"),
    "__gt__": ("gt", "scalar", "B"),
    "__le__": ("le", "scalar", "B"),
    "__ge__": ("ge", "scalar", "B"),
}
CMP_METHOD = {ast.Eq: "__eq__", ast.NotEq: "__ne__", ast.Lt: "__lt__", ast.Gt: "__gt__", ast.LtE: "__le__", ast.GtE: "__ge__"}
BIN_METHOD = {ast.Add: "__add__", ast.Sub: "__sub__", ast.Mult: "__mul__", ast.Div: "__truediv__"}
LEAN_TYPE = {"F": "F", "B": "Bool", "R": "LogRepF F", "S": "Scalar F"}
HELPERS = {"log1p_exp": 1, "log1m_exp": 1, "log_sum_exp": 2, "log_diff_exp": 2}


class UtilsTr:
    """Expression / statement translator for the scalar code of utils.py."""

    def __init__(self):
        self.done: set[str] = set()  # translated helper functions and methods (lean names)
        self.ret = "F"
        self.lits: dict = {}

    # ---- expressions: returns (lean, type) with type in F B R S N(one) --------------------
    def as_scalar(self, e, t, node=None):
        if t == "S":
            return e
        if t == "R":
            return f"(.rep {paren(e)})"
        if t == "F":
            return f"(.plain {paren(e)})"
        raise U(f"cannot use a {t} value as ScalarLike", node)

    def coerce(self, e, t, want, node=None):
        if t == want:
            return e
        if want == "S":
            return self.as_scalar(e, t, node)
        raise U(f"value of type {t} where {want} is expected", node)

    def method(self, pyname, recv, args, node):
        if pyname not in METHODS:
            raise U(f"method {pyname} outside the translated set", node)
        lname, okind, rt = METHODS[pyname]
        if lname not in self.done:
            raise U(f"method {pyname} is used before it could be translated", node)
        if okind is None:
            if args:
                raise U("unexpected operand", node)
            return f"({lname} P {paren(recv)})", rt
        if len(args) != 1:
            raise U("one operand expected", node)
        e, t = args[0]
        if okind == "scalar":
            return f"({lname} P {paren(recv)} {self.as_scalar(e, t, node)})", rt
        if t != "F":
            raise U(f"{pyname} is only modelled for a plain operand", node)
        return f"({lname} P {paren(recv)} {paren(e)})", rt

    def ex(self, n, env):  # noqa: C901, PLR0911, PLR0912, PLR0915
        if isinstance(n, ast.Constant):
            v = n.value
            if isinstance(v, bool):
                return ("true" if v else "false"), "B"
            if v is None:
                return "none", "N"
            if isinstance(v, (int, float)):
                if v == 0:
                    return "P.zero", "F"
                if v in self.lits:
                    return self.lits[v], "F"
            raise U(f"literal {v!r} outside the supported set", n)
        if isinstance(n, ast.Name):
            if n.id in env:
                e, t = env[n.id]
                if t == "R" and ("log_val", e) in env:
                    # the object after `self.log_val = ...`
                    return f"(⟨{env[('log_val', e)][0]}⟩ : LogRepF F)", "R"
                return e, t
            if n.id == "nan":
                return "P.nan", "F"
            if n.id == "LOG_2":
                return "P.log2", "F"
            raise U(f"unknown name {n.id}", n)
        if isinstance(n, ast.UnaryOp):
            if isinstance(n.op, ast.USub):
                if isinstance(n.operand, ast.Name) and n.operand.id == "inf" and "inf" not in env:
                    return "P.negInf", "F"
                e, t = self.ex(n.operand, env)
                if t == "F":
                    return f"(P.neg {paren(e)})", "F"
                if t == "R":
                    return self.method("__neg__", e, [], n)
            if isinstance(n.op, ast.Not):
                e, t = self.ex(n.operand, env)
                if t == "B":
                    return f"(!{paren(e)})", "B"
            raise U("unsupported unary operation", n)
        if isinstance(n, ast.BinOp):
            a, ta = self.ex(n.left, env)
            b, tb = self.ex(n.right, env)
            if type(n.op) in ARITH and ta == "F" and tb == "F":
                return f"({ARITH[type(n.op)]} {paren(a)} {paren(b)})", "F"
            if type(n.op) in BIN_METHOD and ta == "R":
                return self.method(BIN_METHOD[type(n.op)], a, [(b, tb)], n)
            raise U("unsupported binary operation", n)
        if isinstance(n, ast.BoolOp):
            parts = []
            for v in n.values:
                e, t = self.ex(v, env)
                if t != "B":
                    raise U("truth value of a non-boolean", v)
                parts.append(paren(e))
            op = " && " if isinstance(n.op, ast.And) else " || "
            return "(" + op.join(parts) + ")", "B"
        if isinstance(n, ast.Compare):
            if len(n.ops) != 1:
                raise U("chained comparison", n)
            op = n.ops[0]
            a, ta = self.ex(n.left, env)
            b, tb = self.ex(n.comparators[0], env)
            if isinstance(op, (ast.Is, ast.IsNot)):
                if tb != "N":
                    raise U("`is` with something else than None", n)
                r = (ta == "N") == isinstance(op, ast.Is)
                return ("true" if r else "false"), "B"
            if ta == "F" and tb == "F":
                tab = {
                    ast.Lt: f"(P.lt {paren(a)} {paren(b)})", ast.Gt: f"(P.lt {paren(b)} {paren(a)})",
                    ast.LtE: f"(P.le {paren(a)} {paren(b)})", ast.GtE: f"(P.le {paren(b)} {paren(a)})",
                    ast.Eq: f"(P.eq {paren(a)} {paren(b)})", ast.NotEq: f"(!(P.eq {paren(a)} {paren(b)}))",
                }
                if type(op) in tab:
                    return tab[type(op)], "B"
            if ta == "R" and type(op) in CMP_METHOD:
                return self.method(CMP_METHOD[type(op)], a, [(b, tb)], n)
            raise U("unsupported comparison", n)
        if isinstance(n, ast.IfExp):
            c, tc = self.ex(n.test, env)
            if tc != "B":
                raise U("truth value of a non-boolean", n)
            a, ta = self.ex(n.body, env)
            b, tb = self.ex(n.orelse, env)
            if ta != tb:
                a, b, ta = self.as_scalar(a, ta, n), self.as_scalar(b, tb, n), "S"
            return self.ite(c, a, b), ta
        if isinstance(n, ast.Attribute):
            e, t = self.ex(n.value, env)
            if t == "R" and n.attr == "log_val":
                key = ("log_val", e)
                if key in env:
                    return env[key]
                return f"{paren(e)}.logVal", "F"
            if t == "R" and n.attr == "val":
                if "val" not in self.done:
                    raise U("property val is not translated", n)
                return f"(val P {paren(e)})", "F"
            raise U(f"unsupported attribute .{n.attr}", n)
        if isinstance(n, ast.Call):
            return self.call(n, env)
        raise U(f"unsupported expression {type(n).__name__}", n)

    def call(self, n, env):  # noqa: C901, PLR0911, PLR0912
        f = n.func
        if isinstance(f, ast.Name):
            if f.id == "isinstance":
                if len(n.args) == 2 and isinstance(n.args[1], ast.Name) and n.args[1].id == "LogRepFloat":
                    _, t = self.ex(n.args[0], env)
                    if t in ("R", "F"):
                        return ("true" if t == "R" else "false"), "B"
                raise U("isinstance test that cannot be decided per case", n)
            if n.keywords and f.id != "LogRepFloat":
                raise U("keyword arguments", n)
            args = [self.ex(a, env) for a in n.args]
            if f.id in PRIM_CALLS:
                if len(args) != 1 or args[0][1] != "F":
                    raise U(f"{f.id} of a non-float", n)
                return f"({PRIM_CALLS[f.id]} {paren(args[0][0])})", "F"
            if f.id in HELPERS:
                if f.id not in self.done:
                    raise U(f"{f.id} is not translated", n)
                if len(args) != HELPERS[f.id] or any(t != "F" for _, t in args):
                    raise U(f"bad call of {f.id}", n)
                return f"({f.id} P " + " ".join(paren(e) for e, _ in args) + ")", "F"
            if f.id == "LogRepFloat":
                kw = {k.arg: k.value for k in n.keywords}
                if not n.args and set(kw) == {"log_val"}:
                    e, t = self.ex(kw["log_val"], env)
                    if t != "F":
                        raise U("log_val of a non-float", n)
                    if "init_log_val" not in self.done:
                        raise U("constructor is not translated", n)
                    return f"(init_log_val P {paren(e)})", "R"
                raise U("LogRepFloat(...) other than LogRepFloat(log_val=...)", n)
            if f.id == "min" and len(args) == 2 and args[1] == (self.lits.get(1), "F"):
                # Python: min(a, 1) is 1 iff `1 < a`, evaluated as a.__gt__(1) for a LogRepFloat
                e, t = args[0]
                one = args[1][0]
                if t == "S":
                    gt_r, _ = self.method("__gt__", "r", [(one, "F")], n)
                    return (
                        f"(match {e} with\n    | .rep r => if {gt_r} then .plain {one} else .rep r\n"
                        f"    | .plain v => if P.lt {one} v then .plain {one} else .plain v)"
                    ), "S"
                raise U("min of something else than a ScalarLike and 1", n)
            raise U(f"call of {f.id}", n)
        if isinstance(f, ast.Attribute):
            recv, t = self.ex(f.value, env)
            if n.keywords:
                raise U("keyword arguments", n)
            args = [self.ex(a, env) for a in n.args]
            if t == "R":
                return self.method(f.attr, recv, args, n)
            if t == "F" and f.attr == "__radd__" and len(args) == 1 and args[0][1] == "F":
                # float.__radd__(x, o) = o + x
                return f"(P.add {paren(args[0][0])} {paren(recv)})", "F"
            raise U(f"method call .{f.attr} on a {t}", n)
        raise U("unsupported call", n)

    @staticmethod
    def ite(c, a, b):
        if c == "true":
            return a
        if c == "false":
            return b
        if c.startswith("(!") and c.endswith(")"):
            return f"(if {c[2:-1]} then {b} else {a})"
        return f"(if {c} then {a} else {b})"

    # ---- statements -----------------------------------------------------------------------
    def err_value(self, node):
        if self.ret == "F":
            return "P.err"
        if self.ret == "R":
            return "(⟨P.err⟩ : LogRepF F)"
        raise U("raise in a function whose result cannot carry an exception", node)

    def block(self, stmts, env, end=None):  # noqa: C901, PLR0911, PLR0912
        """Expression computed by the statement list; `end(env)` gives the value when control falls
        off the end (None: not allowed)."""
        if not stmts:
            if end is None:
                raise U("control reaches the end of the function without return")
            return end(env)
        s, rest = stmts[0], stmts[1:]
        if isinstance(s, ast.Return):
            if s.value is None:
                raise U("bare return", s)
            e, t = self.ex(s.value, env)
            return self.coerce(e, t, self.ret, s)
        if isinstance(s, ast.Raise):
            return self.err_value(s)
        if isinstance(s, ast.Expr) and isinstance(s.value, ast.Constant):
            return self.block(rest, env, end)
        if isinstance(s, (ast.Assign, ast.AnnAssign)):
            targets = s.targets if isinstance(s, ast.Assign) else [s.target]
            if len(targets) != 1 or s.value is None:
                raise U("unsupported assignment", s)
            tg = targets[0]
            if isinstance(s.value, ast.Constant) and isinstance(s.value.value, str):
                return self.block(rest, env, end)  # msg = "..."
            e, t = self.ex(s.value, env)
            env2 = dict(env)
            if isinstance(tg, ast.Name):
                env2[tg.id] = (e, t)
            elif isinstance(tg, ast.Attribute) and tg.attr == "log_val" and t == "F":
                r, tr = self.ex(tg.value, env)
                if tr != "R":
                    raise U("assignment to an attribute of a non-LogRepFloat", s)
                env2[("log_val", r)] = (e, "F")
            else:
                raise U("unsupported assignment target", s)
            return self.block(rest, env2, end)
        if isinstance(s, ast.If):
            c, tc = self.ex(s.test, env)
            if tc != "B":
                raise U("truth value of a non-boolean", s)
            if c == "true":
                return self.block(list(s.body) + rest, env, end)
            if c == "false":
                return self.block(list(s.orelse) + rest, env, end)
            a = self.block(list(s.body) + rest, env, end)
            b = self.block(list(s.orelse) + rest, env, end)
            return self.ite(c, a, b)
        if isinstance(s, ast.Try):
            # try: return exp(X) / except OverflowError: return inf   ==>   P.expSat X
            ok = (
                len(s.body) == 1 and isinstance(s.body[0], ast.Return) and isinstance(s.body[0].value, ast.Call)
                and isinstance(s.body[0].value.func, ast.Name) and s.body[0].value.func.id == "exp"
                and len(s.body[0].value.args) == 1 and len(s.handlers) == 1 and not s.orelse and not s.finalbody
                and isinstance(s.handlers[0].type, ast.Name) and s.handlers[0].type.id == "OverflowError"
                and len(s.handlers[0].body) == 1 and isinstance(s.handlers[0].body[0], ast.Return)
                and isinstance(s.handlers[0].body[0].value, ast.Name) and s.handlers[0].body[0].value.id == "inf"
            )
            if not ok:
                raise U("try statement other than `try: return exp(x) except OverflowError: return inf`", s)
            e, t = self.ex(s.body[0].value.args[0], env)
            if t != "F":
                raise U("exp of a non-float", s)
            return self.coerce(f"(P.expSat {paren(e)})", "F", self.ret, s)
        raise U(f"unsupported statement {type(s).__name__}", s)


def emit_utils(repo: Path, out: Path):  # noqa: C901, PLR0912, PLR0915
    lines = [
        "/- GENERATED by tools/extractors/pysrc.py from src/mici/utils.py and src/mici/transitions.py",
        "   of the tree under test.  Do not edit.  Shallow translation of the scalar code; see the",
        "   docstring of the extractor for the conventions.  `<name>_translated = false` marks a",
        "   function the translator could not translate (fail closed). -/",
        "import MiciVerif.Model.LogRep",
        "set_option linter.unusedVariables false",
        "namespace MiciVerif.Generated.UtilsSrc",
        "open MiciVerif.LogRep",
        "",
    ]
    try:
        tree = ast.parse((repo / "src/mici/utils.py").read_text())
    except Exception as e:  # noqa: BLE001
        tree = ast.Module(body=[], type_ignores=[])
        lines.append(f"/- utils.py could not be parsed: {clean(repr(e))} -/")
    tr = UtilsTr()

    def emit(name, sig, rtype, stub, build):
        """`build()` returns the body; on failure the stub is emitted and the flag is false."""
        try:
            body = build()
            lines.append(f"def {name}_translated : Bool := true")
            lines.append(f"def {name} {{F : Type}} (P : Prims F) {sig} : {rtype} :=\n  {body}")
            tr.done.add(name)
        except Untranslatable as e:
            lines.append(f"/- NOT TRANSLATED: {clean(str(e))} -/")
            lines.append(f"def {name}_translated : Bool := false")
            lines.append(f"def {name} {{F : Type}} (P : Prims F) {sig} : {rtype} :=\n  {stub}")
            tr.done.add(name)  # later functions may still refer to the stub
        except Exception:  # noqa: BLE001
            lines.append(f"/- NOT TRANSLATED (translator error): {clean(traceback.format_exc(limit=2))} -/")
            lines.append(f"def {name}_translated : Bool := false")
            lines.append(f"def {name} {{F : Type}} (P : Prims F) {sig} : {rtype} :=\n  {stub}")
            tr.done.add(name)
        lines.append("")

    # LOG_2: float = log(2.0)   (a definition over the primitives and the literal 2)
    def build_log2():
        hits = [
            n for n in tree.body
            if isinstance(n, (ast.Assign, ast.AnnAssign))
            and any(isinstance(t, ast.Name) and t.id == "LOG_2" for t in (n.targets if isinstance(n, ast.Assign) else [n.target]))
        ]
        if len(hits) != 1 or hits[0].value is None:
            raise U(f"{len(hits)} assignments of LOG_2")
        for n in ast.walk(tree):
            if isinstance(n, ast.Name) and n.id == "LOG_2" and isinstance(n.ctx, ast.Store) and n is not getattr(hits[0], "target", None) and n not in getattr(hits[0], "targets", []):
                raise U("LOG_2 is re-assigned", n)
        t2 = UtilsTr()
        t2.lits = {2: "two"}
        e, t = t2.ex(hits[0].value, {})
        if t != "F":
            raise U("LOG_2 is not a float")
        return e

    emit("LOG_2", "(two : F)", "F", "P.err", build_log2)

    def helper(name, nargs):
        def build():
            fn = find_func(tree, name)
            pos, kwo = arg_names(fn)
            if len(pos) != nargs or kwo or fn.args.defaults:
                raise U("signature changed", fn)
            if fn.decorator_list:
                raise U("decorated function", fn)
            tr.ret = "F"
            tr.lits = {}
            env = {p: (f"a{i + 1}", "F") for i, p in enumerate(pos)}
            return tr.block(strip_doc(fn.body), env)

        sig = " ".join(f"(a{i + 1} : F)" for i in range(nargs))
        emit(name, sig, "F", "P.err", build)

    for name, nargs in HELPERS.items():
        helper(name, nargs)

    # ---- LogRepFloat -------------------------------------------------------------------
    def init_fn():
        fn = find_func(tree, "__init__", "LogRepFloat")
        pos, kwo = arg_names(fn)
        if pos != ["self", "val", "log_val"] or kwo:
            raise U("signature of __init__ changed", fn)
        d = fn.args.defaults
        if len(d) != 2 or not all(isinstance(x, ast.Constant) and x.value is None for x in d):
            raise U("defaults of __init__ changed", fn)
        return fn

    def build_init(given):
        def build():
            fn = init_fn()
            tr.ret = "R"
            tr.lits = {}
            env = {"self": ("self0", "R"), "val": ("none", "N"), "log_val": ("none", "N")}
            env[given] = ("a1", "F")

            def end(e):
                if ("log_val", "self0") not in e:
                    raise U("log_val is not set on every path")
                return f"(⟨{e[('log_val', 'self0')][0]}⟩ : LogRepF F)"

            return tr.block(strip_doc(fn.body), env, end=end)

        return build

    emit("init_log_val", "(a1 : F)", "LogRepF F", "⟨P.err⟩", build_init("log_val"))
    emit("init_val", "(a1 : F)", "LogRepF F", "⟨P.err⟩", build_init("val"))

    def build_val():
        fn = find_func(tree, "val", "LogRepFloat")
        if [ast.unparse(d) for d in fn.decorator_list] != ["property"]:
            raise U("val is not a plain property", fn)
        if arg_names(fn) != (["self"], []):
            raise U("signature changed", fn)
        tr.ret = "F"
        tr.lits = {}
        return tr.block(strip_doc(fn.body), {"self": ("x", "R")})

    emit("val", "(x : LogRepF F)", "F", "P.err", build_val)

    # methods in dependency order (a method that calls another one comes after it)
    order = ["__neg__", "__eq__", "__ne__", "__lt__", "__gt__", "__le__", "__ge__", "__add__", "__radd__", "__iadd__",
             "__sub__", "__rsub__", "__mul__", "__rmul__", "__truediv__", "__rtruediv__"]
    stubs = {"F": "P.err", "B": "false", "R": "⟨P.err⟩", "S": ".plain P.err"}
    for py in order:
        lname, okind, rt = METHODS[py]

        def build(py=py, okind=okind, rt=rt):
            fn = find_func(tree, py, "LogRepFloat")
            if fn.decorator_list:
                raise U("decorated method", fn)
            pos, kwo = arg_names(fn)
            if kwo or fn.args.defaults or pos != (["self"] if okind is None else ["self", "other"]):
                raise U("signature changed", fn)
            tr.ret = rt
            tr.lits = {}
            body = strip_doc(fn.body)
            end = None
            if okind is None:
                return tr.block(body, {"self": ("x", "R")}, end)
            if okind == "plain":
                return tr.block(body, {"self": ("x", "R"), "other": ("v", "F")}, end)
            a = tr.block(body, {"self": ("x", "R"), "other": ("y", "R")}, end)
            b = tr.block(body, {"self": ("x", "R"), "other": ("v", "F")}, end)
            return f"match o with\n  | .rep y => {a}\n  | .plain v => {b}"

        sig = "(x : LogRepF F)" + {None: "", "plain": " (v : F)", "scalar": " (o : Scalar F)"}[okind]
        emit(lname, sig, LEAN_TYPE[rt], stubs[rt], build)

    # ---- transitions.py: MultinomialDynamicIntegrationTransition._weight_ratio -----------
    def build_wr():
        ttree = ast.parse((repo / "src/mici/transitions.py").read_text())
        fn = find_func(ttree, "_weight_ratio", "MultinomialDynamicIntegrationTransition")
        pos, kwo = arg_names(fn)
        if pos != ["self", "numerator", "denominator"] or kwo or fn.decorator_list:
            raise U("signature changed", fn)
        tr.ret = "S"
        tr.lits = {1: "one"}
        return tr.block(strip_doc(fn.body), {"numerator": ("num", "R"), "denominator": ("den", "R")})

    emit("weight_ratio", "(one : F) (num den : LogRepF F)", "Scalar F", ".plain P.err", build_wr)
    lines.append("end MiciVerif.Generated.UtilsSrc")
    (out / "UtilsSrc.lean").write_text("\n".join(lines) + "\n")


# =======================================================================================
# stagers.py
# =======================================================================================

SELF_FIELDS = {
    "n_init_slow_window_iter": ("initSlowWindow", "Nat"),
    "n_init_fast_stage_iter": ("initFast", "Nat"),
    "n_final_fast_stage_iter": ("finalFast", "Nat"),
    "slow_window_multiplier": ("mult", "Rat"),
}
CONFIG_ORDER = ["n_init_slow_window_iter", "n_init_fast_stage_iter", "n_final_fast_stage_iter", "slow_window_multiplier"]
TRACE_FUNCS_NORMALISE = "trace_funcs = tuple(trace_funcs) if trace_funcs is not None else trace_funcs"
FAST_ADAPTERS_DEF = (
    "fast_adapters = {trans_key: [adapter for adapter in adapter_list if adapter.is_fast] "
    "for trans_key, adapter_list in adapters.items()}"
)
STAGES_SIG = (["self", "n_warm_up_iter", "n_main_iter", "adapters", "trace_funcs"], ["trace_warm_up"])
CMP_SYM = {ast.Lt: "<", ast.Gt: ">", ast.LtE: "≤", ast.GtE: "≥", ast.Eq: "=", ast.NotEq: "≠"}


class Segs:
    """A list of stages under construction: Lean list expressions to be joined with `++`."""

    def __init__(self, segs=(), keys=()):
        self.segs = list(segs)
        self.keys = list(keys)

    def lean(self):
        return " ++ ".join(self.segs) if self.segs else "[]"


class StagersTr:
    """Translator for `stages` / `__init__` of the stagers.  Values are (lean, type) with type in
    Nat Rat Prop Bool Kind Trace ListNat None, or a `Segs`."""

    def __init__(self, self_is_config: bool):
        self.self_is_config = self_is_config
        self.aux: list[str] = []  # auxiliary (loop) definitions
        self.fresh = 0

    # ---- expressions -------------------------------------------------------------------
    def num(self, n, env, want=None):
        e, t = self.ex(n, env, want)
        if t not in ("Nat", "Rat"):
            raise U("number expected", n)
        return e, t

    @staticmethod
    def to_rat(e, t):
        return e if t == "Rat" else f"({e} : Rat)"

    def ex(self, n, env, want=None):  # noqa: C901, PLR0911, PLR0912, PLR0915
        if isinstance(n, ast.Constant):
            v = n.value
            if isinstance(v, bool):
                return ("true" if v else "false"), "Bool"
            if v is None:
                return "none", "None"
            if isinstance(v, int) and v >= 0:
                return str(v), ("Rat" if want == "Rat" else "Nat")
            if isinstance(v, float) and v >= 0:
                q = Fraction(repr(v))
                return f"({q.numerator} / {q.denominator} : Rat)", "Rat"
            raise U(f"literal {v!r}", n)
        if isinstance(n, ast.Name):
            if n.id in env:
                v = env[n.id]
                if v is None:
                    raise U(f"{n.id} may be unbound here", n)
                return v
            raise U(f"unknown name {n.id}", n)
        if isinstance(n, ast.Attribute):
            if isinstance(n.value, ast.Name) and n.value.id == "self" and self.self_is_config and n.attr in SELF_FIELDS:
                f, t = SELF_FIELDS[n.attr]
                return f"self.{f}", t
            raise U(f"attribute {ast.unparse(n)}", n)
        if isinstance(n, ast.BinOp):
            if not isinstance(n.op, (ast.Add, ast.Sub, ast.Mult)):
                raise U("unsupported arithmetic operator", n)
            a, ta = self.num(n.left, env)
            b, tb = self.num(n.right, env)
            if "Rat" in (ta, tb):
                # literals adapt to the other operand's type, variables are cast
                a, ta = self.num(n.left, env, "Rat")
                b, tb = self.num(n.right, env, "Rat")
                a, b, t = self.to_rat(a, ta), self.to_rat(b, tb), "Rat"
            else:
                t = "Nat"
            sym = {ast.Add: "+", ast.Sub: "-", ast.Mult: "*"}[type(n.op)]
            if isinstance(n.op, ast.Mult):
                return f"{paren(a)} * {paren(b)}", t
            # left-associative chains stay flat, a right operand that is a sum is parenthesised
            bb = paren(b) if isinstance(n.right, ast.BinOp) else b
            return f"{a} {sym} {bb}", t
        if isinstance(n, ast.Compare):
            if len(n.ops) != 1 or type(n.ops[0]) not in CMP_SYM:
                raise U("unsupported comparison", n)
            a, ta = self.num(n.left, env)
            b, tb = self.num(n.comparators[0], env)
            if "Rat" in (ta, tb):
                a, ta = self.num(n.left, env, "Rat")
                b, tb = self.num(n.comparators[0], env, "Rat")
                a, b = self.to_rat(a, ta), self.to_rat(b, tb)
            return f"{a} {CMP_SYM[type(n.ops[0])]} {b}", "Prop"
        if isinstance(n, ast.Call) and isinstance(n.func, ast.Name) and n.func.id == "int" and len(n.args) == 1 and not n.keywords:
            e, t = self.num(n.args[0], env)
            if t == "Nat":
                return e, "Nat"
            return f"{paren(e)}.floor.toNat", "Nat"
        if isinstance(n, ast.IfExp):
            c, tc = self.ex(n.test, env)
            a, ta = self.ex(n.body, env)
            b, tb = self.ex(n.orelse, env)
            if tc not in ("Bool", "Prop"):
                raise U("condition of a conditional expression", n)
            if {ta, tb} <= {"Trace", "None"}:
                ta = "Trace"
                a = "false" if a == "none" else a
                b = "false" if b == "none" else b
            elif ta != tb:
                raise U("branches of different types", n)
            if (a, b) == ("true", "false") and tc == "Bool":
                return c, ta
            return f"(if {c} then {a} else {b})", ta
        raise U(f"unsupported expression {type(n).__name__}: {ast.unparse(n)[:60]}", n)

    def cond(self, n, env):
        c, t = self.ex(n, env)
        if t not in ("Prop", "Bool"):
            raise U("condition is not a comparison / flag", n)
        return c

    def stage(self, call, env):
        if not (isinstance(call, ast.Call) and isinstance(call.func, ast.Name) and call.func.id == "ChainStage" and not call.args):
            raise U("value stored in the stage dictionary is not ChainStage(keyword=...)", call)
        kw = {k.arg: k.value for k in call.keywords}
        if set(kw) != {"n_iter", "adapters", "trace_funcs", "record_stats"} or len(call.keywords) != 4:
            raise U("ChainStage keywords", call)
        n, tn = self.ex(kw["n_iter"], env)
        a, ta = self.ex(kw["adapters"], env)
        t, tt = self.ex(kw["trace_funcs"], env)
        r, tr_ = self.ex(kw["record_stats"], env)
        if tn != "Nat":
            raise U("n_iter is not an integer", call)
        if ta == "None":
            a = ".main"
        elif ta != "Kind":
            raise U("adapters= is not one of adapters / fast_adapters / None", call)
        if tt == "None":
            t = "false"
        elif tt != "Trace":
            raise U("trace_funcs= is not trace_funcs / None", call)
        if tr_ != "Bool":
            raise U("record_stats is not a flag", call)
        return f"⟨{n}, {a}, {t}, {r}⟩"

    # ---- statements: env -> env (no return inside) ----------------------------------------
    def run(self, stmts, env, lets, top):  # noqa: C901, PLR0912, PLR0915
        """Execute straight-line statements symbolically.  `top`: bindings may be emitted as `let`
        lines (appended to `lets`); inside a branch everything is substituted."""
        env = dict(env)
        i = 0
        while i < len(stmts):
            s = stmts[i]
            i += 1
            if isinstance(s, ast.Expr) and isinstance(s.value, ast.Constant):
                continue
            src = ast.unparse(s)
            if src == TRACE_FUNCS_NORMALISE and env.get("trace_funcs") == ("true", "Trace"):
                continue
            if src == FAST_ADAPTERS_DEF and env.get("adapters") == (".slow", "Kind"):
                env["fast_adapters"] = (".fast", "Kind")
                continue
            if isinstance(s, ast.AugAssign) and isinstance(s.target, ast.Name):
                s = ast.Assign(targets=[s.target], value=ast.BinOp(left=ast.Name(id=s.target.id, ctx=ast.Load()), op=s.op, right=s.value), lineno=s.lineno)
            if isinstance(s, ast.Assign) and len(s.targets) == 1:
                tg = s.targets[0]
                if isinstance(tg, ast.Name):
                    if tg.id in ("adapters", "trace_funcs", "self"):
                        raise U(f"re-binding of {tg.id}", s)
                    if isinstance(s.value, ast.Dict) and not s.value.keys:
                        env[tg.id] = Segs()
                        continue
                    if isinstance(s.value, ast.List) and not s.value.elts:
                        env[tg.id] = ("[]", "ListNat")
                        continue
                    e, t = self.ex(s.value, env)
                    if top and t in ("Nat", "Rat") and not all(c.isalnum() or c in "_." for c in e):
                        name = tg.id
                        while any(l.startswith(f"let {name} ") for l in lets):
                            name += "'"
                        lets.append(f"let {name} : {t} := {e}")
                        e = name
                    env[tg.id] = (e, t)
                    continue
                if isinstance(tg, ast.Subscript) and isinstance(tg.value, ast.Name) and isinstance(env.get(tg.value.id), Segs):
                    key = tg.slice
                    if not (isinstance(key, ast.Constant) and isinstance(key.value, str)):
                        raise U("stage label is not a string literal", s)
                    sg = env[tg.value.id]
                    if key.value in sg.keys:
                        raise U(f"stage label {key.value!r} is assigned twice (dictionary entry overwritten)", s)
                    env[tg.value.id] = Segs([*sg.segs, "[" + self.stage(s.value, env) + "]"], [*sg.keys, key.value])
                    continue
                raise U("unsupported assignment", s)
            if isinstance(s, ast.If):
                if has_exit([s]):
                    raise U("return/raise inside a conditional block", s)
                c = self.cond(s.test, env)
                e1 = self.run(s.body, env, lets, False)
                e2 = self.run(s.orelse, env, lets, False)
                env = self.phi(c, env, e1, e2, lets, top, s)
                continue
            if isinstance(s, ast.While):
                env = self.loop(s, env)
                continue
            if isinstance(s, ast.For):
                env = self.for_map(s, env)
                continue
            raise U(f"unsupported statement: {src[:70]}", s)
        return env

    def phi(self, c, env0, e1, e2, lets, top, node):
        out = dict(env0)
        for k in sorted(set(e1) | set(e2), key=lambda k: (list(e1).index(k) if k in e1 else 10**6)):
            v0, v1, v2 = env0.get(k), e1.get(k), e2.get(k)
            if v1 is v0 and v2 is v0 or (not isinstance(v0, Segs) and v1 == v0 and v2 == v0):
                continue
            if isinstance(v1, Segs) or isinstance(v2, Segs):
                if not (isinstance(v0, Segs) and isinstance(v1, Segs) and isinstance(v2, Segs)):
                    raise U(f"stage dictionary {k} is created in one branch only", node)
                n0 = len(v0.segs)
                if v1.segs[:n0] != v0.segs or v2.segs[:n0] != v0.segs:
                    raise U("stage dictionary rebuilt in a branch", node)
                if set(v1.keys[len(v0.keys):]) & set(v2.keys[len(v0.keys):]):
                    raise U("the same stage label in both branches", node)
                a, b = Segs(v1.segs[n0:]).lean(), Segs(v2.segs[n0:]).lean()
                out[k] = Segs([*v0.segs, f"(if {c} then {a} else {b})"], sorted(set(v1.keys) | set(v2.keys), key=str))
                continue
            if v1 is None or v2 is None or k not in e1 or k not in e2:
                out[k] = None  # bound on one path only: unusable afterwards
                continue
            if v1[1] != v2[1]:
                raise U(f"{k} has different types in the two branches", node)
            e = f"if {c} then {v1[0]} else {v2[0]}"
            if top and v1[1] in ("Nat", "Rat"):
                name = k
                while any(l.startswith(f"let {name} ") for l in lets):
                    name += "'"
                lets.append(f"let {name} : {v1[1]} := {e}")
                out[k] = (name, v1[1])
            else:
                out[k] = (f"({e})", v1[1])
        return out

    def for_map(self, s, env):
        """for i, n_iter in enumerate(L): D[f"..{i}.."] = ChainStage(n_iter=n_iter, ...)"""
        it = s.iter
        ok = (
            isinstance(it, ast.Call) and isinstance(it.func, ast.Name) and it.func.id == "enumerate" and len(it.args) == 1
            and isinstance(it.args[0], ast.Name) and isinstance(s.target, ast.Tuple) and len(s.target.elts) == 2
            and all(isinstance(e, ast.Name) for e in s.target.elts) and not s.orelse and len(s.body) == 1
            and isinstance(s.body[0], ast.Assign) and len(s.body[0].targets) == 1
            and isinstance(s.body[0].targets[0], ast.Subscript) and isinstance(s.body[0].targets[0].value, ast.Name)
        )
        if not ok:
            raise U("for loop other than `for i, n in enumerate(L): D[label(i)] = ChainStage(...)`", s)
        lst = env.get(it.args[0].id)
        if not (isinstance(lst, tuple) and lst[1] == "ListNat"):
            raise U("enumerate of something else than the window list", s)
        dname = s.body[0].targets[0].value.id
        sg = env.get(dname)
        if not isinstance(sg, Segs):
            raise U("target of the loop body is not the stage dictionary", s)
        idx, var = (e.id for e in s.target.elts)
        key = s.body[0].targets[0].slice
        # the label must depend on the index (distinct entries) and differ from the literal labels
        if not (isinstance(key, ast.JoinedStr) and any(isinstance(n, ast.Name) and n.id == idx for n in ast.walk(key))):
            raise U("label of the window stages does not contain the loop index", s)
        lit = "".join(v.value for v in key.values if isinstance(v, ast.Constant))
        st = self.stage(s.body[0].value, {**env, var: (var, "Nat"), idx: None})
        env = dict(env)
        env[dname] = Segs([*sg.segs, f"{paren(lst[0])}.map (fun {var} => {st})"], [*sg.keys, ("fstring", lit)])
        return env

    def loop(self, s, env):  # noqa: C901, PLR0912, PLR0915
        """`while a < b:` with a body of assignments, one conditional re-assignment block and one
        `L.append(x)` becomes a fuel-recursive function returning the appended values."""
        if s.orelse or has_exit([s]) or any(isinstance(n, (ast.Break, ast.Continue)) for n in ast.walk(s)):
            raise U("while loop with else/break/continue/return", s)
        stored, appended, read = [], [], []
        for n in ast.walk(ast.Module(body=[ast.Expr(value=s.test), *s.body], type_ignores=[])):
            if isinstance(n, ast.Name):
                if isinstance(n.ctx, ast.Store):
                    stored.append(n.id)
                else:
                    read.append(n.id)
            if isinstance(n, ast.Attribute) and isinstance(n.value, ast.Name) and n.value.id == "self":
                read.append("self." + n.attr)
        body = []
        for st in s.body:
            if (isinstance(st, ast.Expr) and isinstance(st.value, ast.Call) and isinstance(st.value.func, ast.Attribute)
                    and st.value.func.attr == "append" and isinstance(st.value.func.value, ast.Name) and len(st.value.args) == 1):
                appended.append(st.value.func.value.id)
                body.append(("append", st.value.args[0]))
            else:
                body.append(("stmt", st))
        if len(appended) != 1 or env.get(appended[0]) != ("[]", "ListNat"):
            raise U("loop body must append exactly once to a list that is empty before the loop", s)
        for n in ast.walk(s):
            if isinstance(n, ast.Call) and isinstance(n.func, ast.Attribute) and n.func.attr == "append" and not any(
                    k == "append" and n.args and a is n.args[0] for k, a in body):
                raise U("append inside a nested block", n)
        lst = appended[0]
        # reading order of first occurrence: walk again in source order
        src_order = []
        for n in ast.walk(ast.Module(body=[ast.Expr(value=s.test), *s.body], type_ignores=[])):
            nm = None
            if isinstance(n, ast.Name):
                nm = n.id
            elif isinstance(n, ast.Attribute) and isinstance(n.value, ast.Name) and n.value.id == "self":
                nm = "self." + n.attr
            if nm and nm not in src_order:
                src_order.append(nm)
        carried = [v for v in src_order if v in stored and v in env and v != lst]
        temps = [v for v in stored if v not in env]
        free = [v for v in src_order if v not in stored and v not in ("self", "int", lst) and v not in temps]
        for v in carried:
            if not (isinstance(env[v], tuple) and env[v][1] == "Nat"):
                raise U(f"loop-carried variable {v} is not an integer", s)
        params, call_args = [], []
        inner = {}
        for v in free:
            if v.startswith("self."):
                attr = v[5:]
                if not (self.self_is_config and attr in SELF_FIELDS):
                    raise U(f"attribute {v} in the loop", s)
                f, t = SELF_FIELDS[attr]
                params.append(f"({attr} : {t})")
                call_args.append(f"self.{f}")
                inner[v] = (attr, t)
            else:
                val = env.get(v)
                if not (isinstance(val, tuple) and val[1] in ("Nat", "Rat")):
                    raise U(f"free variable {v} of the loop is not a number", s)
                params.append(f"({v} : {val[1]})")
                call_args.append(paren(val[0]))
                inner[v] = (v, val[1])
        for v in carried:
            inner[v] = (v, "Nat")
        # loop test `a < b` with a carried counter on the left
        t = s.test
        if not (isinstance(t, ast.Compare) and len(t.ops) == 1 and isinstance(t.ops[0], ast.Lt)
                and isinstance(t.left, ast.Name) and t.left.id in carried and isinstance(t.comparators[0], ast.Name)
                and t.comparators[0].id in free):
            raise U("loop test is not `counter < bound` with a loop-invariant bound", s)
        bound = t.comparators[0].id
        sub = StagersTr(False)
        sub_inner = dict(inner)

        # translate the body with `self.attr` mapped to the parameter of the same name
        def ex_inner(n, e, want=None, _orig=sub.ex):
            if isinstance(n, ast.Attribute) and isinstance(n.value, ast.Name) and n.value.id == "self":
                key = "self." + n.attr
                if key in inner:
                    return inner[key]
                raise U(f"attribute {key} in the loop", n)
            return _orig(n, e, want)

        sub.ex = ex_inner
        lets: list[str] = []
        cur = sub_inner
        elem = None
        for kind, x in body:
            if kind == "append":
                e, tt = sub.ex(x, cur)
                if tt != "Nat":
                    raise U("appended value is not an integer", s)
                elem = e
            else:
                cur = sub.run([x], cur, lets, True)
        cond = sub.cond(s.test, sub_inner)
        self.fresh += 1
        fname = f"while_loop_{self.fresh}"
        nxt = " ".join(paren(cur[v][0]) for v in carried)
        pnames = " ".join(p.split(" ")[0][1:] for p in params)
        d = [
            f"def {fname} {' '.join(params)} : Nat → {' → '.join('Nat' for _ in carried)} → List Nat",
            f"  | 0, {', '.join('_' for _ in carried)} => []",
            f"  | fuel + 1, {', '.join(carried)} =>",
            f"    if {cond} then",
        ]
        d += [f"      {l}" for l in lets]
        d += [f"      {elem} :: {fname} {pnames} fuel {nxt}", "    else []"]
        self.aux.append("\n".join(d))
        out = dict(env)
        for v in carried:
            out[v] = None  # values after the loop are not tracked
        init = " ".join(paren(env[v][0]) for v in carried)
        out[lst] = (f"({fname} {' '.join(call_args)} ({paren(env[bound][0])} + 1) {init})", "ListNat")
        return out


def emit_stagers(repo: Path, out: Path):  # noqa: C901, PLR0915
    lines = [
        "/- GENERATED by tools/extractors/pysrc.py from src/mici/stagers.py of the tree under test.",
        "   Do not edit.  See the docstring of the extractor for the translation conventions. -/",
        "import MiciVerif.Model.Stagers",
        "set_option linter.unusedVariables false",
        "namespace MiciVerif.Generated.StagersSrc",
        "open MiciVerif.Stagers",
        "",
    ]
    try:
        tree = ast.parse((repo / "src/mici/stagers.py").read_text())
    except Exception as e:  # noqa: BLE001
        tree = ast.Module(body=[], type_ignores=[])
        lines.append(f"/- stagers.py could not be parsed: {clean(repr(e))} -/")

    def emit(name, sig, rtype, stub, build):
        try:
            aux, body = build()
            lines.extend(a + "\n" for a in aux)
            lines.append(f"def {name}_translated : Bool := true")
            lines.append(f"def {name} {sig} : {rtype} :=\n{body}")
        except Untranslatable as e:
            lines.append(f"/- NOT TRANSLATED: {clean(str(e))} -/")
            lines.append(f"def {name}_translated : Bool := false")
            lines.append(f"def {name} {sig} : {rtype} :=\n  {stub}")
        except Exception:  # noqa: BLE001
            lines.append(f"/- NOT TRANSLATED (translator error): {clean(traceback.format_exc(limit=2))} -/")
            lines.append(f"def {name}_translated : Bool := false")
            lines.append(f"def {name} {sig} : {rtype} :=\n  {stub}")
        lines.append("")

    def stages_fn(cls):
        fn = find_func(tree, "stages", cls)
        if fn.decorator_list:
            raise U("decorated method", fn)
        if arg_names(fn) != STAGES_SIG:
            raise U("signature of stages changed", fn)
        if fn.args.defaults or [ast.unparse(d) for d in fn.args.kw_defaults] != ["False"]:
            raise U("defaults of stages changed", fn)
        return fn

    def build_stages(cls, is_cfg):
        def build():
            fn = stages_fn(cls)
            tr = StagersTr(is_cfg)
            env = {
                "n_warm_up_iter": ("n_warm_up_iter", "Nat"), "n_main_iter": ("n_main_iter", "Nat"),
                "trace_warm_up": ("trace_warm_up", "Bool"), "adapters": (".slow", "Kind"), "trace_funcs": ("true", "Trace"),
            }
            body = strip_doc(fn.body)
            if not (body and isinstance(body[-1], ast.Return) and isinstance(body[-1].value, ast.Name)) or has_exit(body[:-1]):
                raise U("stages must end with its only return, of the stage dictionary", fn)
            lets: list[str] = []
            env = tr.run(body[:-1], env, lets, True)
            res = env.get(body[-1].value.id)
            if not isinstance(res, Segs):
                raise U("returned value is not the stage dictionary", fn)
            return tr.aux, "\n".join(f"  {l}" for l in [*lets, res.lean()])

        return build

    emit("WarmUpStager_stages", "(n_warm_up_iter n_main_iter : Nat) (trace_warm_up : Bool)", "List Stage", "[]",
         build_stages("WarmUpStager", False))

    def build_init():
        fn = find_func(tree, "__init__", "WindowedWarmUpStager")
        pos, kwo = arg_names(fn)
        if pos != ["self", *CONFIG_ORDER] or kwo or fn.decorator_list:
            raise U("signature of __init__ changed", fn)
        tr = StagersTr(False)
        env = {p: (p, SELF_FIELDS[p][1]) for p in CONFIG_ORDER}
        guards, fields = [], {}
        for s in strip_doc(fn.body):
            if isinstance(s, ast.Expr) and isinstance(s.value, ast.Constant):
                continue
            if isinstance(s, ast.If) and not s.orelse and fields == {}:
                # if <test>: msg = "..."; raise ValueError(msg)
                ok = s.body and isinstance(s.body[-1], ast.Raise) and all(
                    isinstance(b, ast.Assign) and isinstance(b.value, ast.Constant) for b in s.body[:-1])
                if not ok:
                    raise U("validation block other than `if test: raise`", s)
                guards.append(tr.cond(s.test, env))
                continue
            if (isinstance(s, ast.Assign) and len(s.targets) == 1 and isinstance(s.targets[0], ast.Attribute)
                    and isinstance(s.targets[0].value, ast.Name) and s.targets[0].value.id == "self"
                    and s.targets[0].attr in SELF_FIELDS and s.targets[0].attr not in fields):
                e, t = tr.ex(s.value, env)
                if t != SELF_FIELDS[s.targets[0].attr][1]:
                    raise U("attribute of another type", s)
                fields[s.targets[0].attr] = e
                continue
            raise U(f"unsupported statement in __init__: {ast.unparse(s)[:60]}", s)
        if set(fields) != set(CONFIG_ORDER):
            raise U("not every setting is stored")
        body = "some ⟨" + ", ".join(fields[k] for k in CONFIG_ORDER) + "⟩"
        for g in reversed(guards):
            body = f"if {g} then none else\n  {body}"
        return [], "  " + body

    emit("WindowedWarmUpStager_init",
         "(n_init_slow_window_iter n_init_fast_stage_iter n_final_fast_stage_iter : Nat) (slow_window_multiplier : Rat)",
         "Option Config", "none", build_init)
    # number of while loops the Props module refers to: emit a stub loop when translation failed
    before = len(lines)
    emit("WindowedWarmUpStager_stages", "(self : Config) (n_warm_up_iter n_main_iter : Nat) (trace_warm_up : Bool)",
         "List Stage", "[]", build_stages("WindowedWarmUpStager", True))
    if not any(l.startswith("def while_loop_1 ") for l in lines[before:]):
        lines.insert(before, "def while_loop_1 (n_slow_stage_iter : Nat) (slow_window_multiplier : Rat) : Nat → Nat → Nat → List Nat\n  | _, _, _ => []\n")
    lines.append("end MiciVerif.Generated.StagersSrc")
    (out / "StagersSrc.lean").write_text("\n".join(lines) + "\n")


# =======================================================================================
# adapters.py
# =======================================================================================

KBINDERS = "{K : Type} [Zero K] [One K] [Add K] [Sub K] [Mul K] [Div K] [NatCast K]"


class NumTr:
    """Straight-line arithmetic over a field `K` and `Nat`, with vectors as component pairs.

    Values: ("Nat", e) | ("K", e) | ("V", eA, eB).  `state` maps the keys of the adapter-state
    dictionary (`adapt_state["k"]`) to values; `attrs` maps `self.<attr>` / dotted names."""

    def __init__(self, dict_name, state, attrs, names, special=None):
        self.dict_name = dict_name
        self.state = dict(state)
        self.attrs = dict(attrs)
        self.env = dict(names)
        self.special = special or (lambda n, tr: None)
        self.lets: list[str] = []
        self.used: set[str] = set()
        self.outputs: dict[str, tuple] = {}

    # ---- values ------------------------------------------------------------------------
    @staticmethod
    def k(v):
        """Cast a scalar value to K."""
        if v[0] == "Nat":
            e = v[1]
            return ("K", f"({e} : K)" if all(c.isalnum() or c in "_.'" for c in e) else f"(({e} : Nat) : K)")
        return v

    def bin(self, op, a, b, node):
        sym = {ast.Add: "+", ast.Sub: "-", ast.Mult: "*", ast.Div: "/"}.get(type(op))
        if sym is None:
            raise U("unsupported arithmetic operator", node)
        if a[0] == "V" or b[0] == "V":
            comps = []
            for i in (1, 2):
                x = ("K", a[i]) if a[0] == "V" else a
                y = ("K", b[i]) if b[0] == "V" else b
                comps.append(self.bin(op, x, y, node)[1])
            return ("V", *comps)
        if a[0] == "Nat" and b[0] == "Nat" and sym != "/":
            return ("Nat", f"{self.atom(a[1], sym, True)} {sym} {self.atom(b[1], sym, False)}")
        a, b = self.k(a), self.k(b)
        return ("K", f"{self.atom(a[1], sym, True)} {sym} {self.atom(b[1], sym, False)}")

    @staticmethod
    def atom(e, sym, left):
        """Parenthesise an operand where Lean's precedence would regroup it."""
        if all(c.isalnum() or c in "_.'" for c in e) or (e.startswith("(") and paren(e) == e):
            return e
        top = NumTr.top_op(e)
        prec = {"+": 1, "-": 1, "*": 2, "/": 2, None: 3}
        if prec[top] > prec[sym] or (prec[top] == prec[sym] and left):
            return e
        return f"({e})"

    @staticmethod
    def top_op(e):
        depth, top = 0, None
        i = 0
        while i < len(e):
            ch = e[i]
            if ch in "(⟨[":
                depth += 1
            elif ch in ")⟩]":
                depth -= 1
            elif depth == 0 and ch in "+-*/" and i > 0 and e[i - 1] == " " and i + 1 < len(e) and e[i + 1] == " ":
                if top is None or ch in "+-":
                    top = ch if top not in ("+", "-") else top
            i += 1
        return top

    def ex(self, n):  # noqa: C901, PLR0911, PLR0912
        sp = self.special(n, self)
        if sp is not None:
            return sp
        if isinstance(n, ast.Constant) and isinstance(n.value, int) and not isinstance(n.value, bool) and n.value >= 0:
            return ("Nat", str(n.value))
        if isinstance(n, ast.Name):
            if n.id in self.env:
                return self.env[n.id]
            raise U(f"unknown name {n.id}", n)
        if isinstance(n, ast.Attribute):
            key = ast.unparse(n)
            if key in self.attrs:
                return self.attrs[key]
            raise U(f"attribute {key}", n)
        if isinstance(n, ast.Subscript):
            if isinstance(n.value, ast.Name) and n.value.id == self.dict_name and isinstance(n.slice, ast.Constant):
                if n.slice.value in self.state:
                    return self.state[n.slice.value]
                raise U(f"state entry {n.slice.value!r}", n)
            # v[None, :] -> component b ; v[:, None] -> component a  (entry (a, b) of the outer product)
            v = self.ex(n.value)
            sl = ast.unparse(n.slice)
            if v[0] == "V" and sl in ("(None, :)", "None, :"):
                return ("K", v[2])
            if v[0] == "V" and sl in ("(:, None)", ":, None"):
                return ("K", v[1])
            raise U(f"subscript {ast.unparse(n)}", n)
        if isinstance(n, ast.Call):
            if (isinstance(n.func, ast.Attribute) and isinstance(n.func.value, ast.Name) and n.func.value.id == self.dict_name
                    and n.func.attr == "pop" and len(n.args) == 1 and isinstance(n.args[0], ast.Constant) and not n.keywords):
                if n.args[0].value in self.state:
                    return self.state[n.args[0].value]
                raise U(f"state entry {n.args[0].value!r}", n)
            if ast.unparse(n.func) == "np.outer" and len(n.args) == 2 and not n.keywords:
                u, v = self.ex(n.args[0]), self.ex(n.args[1])
                if u[0] == "V" and v[0] == "V":
                    return self.bin(ast.Mult(), ("K", u[1]), ("K", v[2]), n)
            raise U(f"call {ast.unparse(n)[:50]}", n)
        if isinstance(n, ast.BinOp):
            if isinstance(n.op, ast.Pow) and isinstance(n.right, ast.Constant) and n.right.value == 2:
                v = self.ex(n.left)
                if v[0] == "V":  # diagonal entry of the square only makes sense per component
                    raise U("square of a vector in a matrix context", n)
                return self.bin(ast.Mult(), v, v, n)
            return self.bin(n.op, self.ex(n.left), self.ex(n.right), n)
        raise U(f"unsupported expression {ast.unparse(n)[:50]}", n)

    # ---- statements --------------------------------------------------------------------
    def bind(self, name, v):
        """Emit let-bindings for the value and return the value referring to the new names."""
        def fresh(nm):
            while nm in self.used:
                nm += "'"
            self.used.add(nm)
            return nm

        if v[0] == "V":
            a, b = fresh(name + "_a"), fresh(name + "_b")
            self.lets += [f"let {a} : K := {v[1]}", f"let {b} : K := {v[2]}"]
            return ("V", a, b)
        nm = fresh(name)
        self.lets.append(f"let {nm} : {v[0]} := {v[1]}")
        return (v[0], nm)

    def target(self, tg):
        if isinstance(tg, ast.Name):
            return ("name", tg.id)
        if (isinstance(tg, ast.Subscript) and isinstance(tg.value, ast.Name) and tg.value.id == self.dict_name
                and isinstance(tg.slice, ast.Constant) and tg.slice.value in self.state):
            return ("state", tg.slice.value)
        key = ast.unparse(tg)
        if key in self.attrs and self.attrs[key][0] == "OUT":
            return ("out", key)
        raise U(f"assignment target {key}", tg)

    def run(self, stmts):
        for s in stmts:
            if isinstance(s, ast.Expr) and isinstance(s.value, ast.Constant):
                continue
            if isinstance(s, ast.AugAssign):
                kind, key = self.target(s.target)
                cur = self.ex(s.target) if kind != "out" else None
                if cur is None:
                    raise U("augmented assignment to an output", s)
                v = self.bin(s.op, cur, self.ex(s.value), s)
                if cur[0] == "Nat" and v[0] != "Nat":
                    raise U("integer variable becomes a float", s)
            elif isinstance(s, ast.Assign) and len(s.targets) == 1:
                kind, key = self.target(s.targets[0])
                v = self.ex(s.value)
            else:
                raise U(f"unsupported statement {ast.unparse(s)[:60]}", s)
            if kind == "out":
                self.outputs[key] = self.bind(key.rsplit(".", 1)[-1], self.k(v))
                continue
            old = (self.state if kind == "state" else self.env).get(key)
            if old is not None and old[0] != v[0]:
                if old[0] in ("K", "V") and v[0] == "Nat":
                    v = self.k(v)
                else:
                    raise U(f"{key} changes its type", s)
            v = self.bind(key, v)
            (self.state if kind == "state" else self.env)[key] = v

    def body(self, result):
        return "\n".join(f"  {l}" for l in [*self.lets, result])


def da_special(n, tr):
    """The three real functions of the dual-averaging update and the statistic."""
    if isinstance(n, ast.BinOp) and isinstance(n.op, ast.Pow):
        if ast.unparse(n.right) == "self.iter_decay_coeff":
            # (1 / iter) ** self.iter_decay_coeff
            b = n.left
            if isinstance(b, ast.BinOp) and isinstance(b.op, ast.Div) and isinstance(b.left, ast.Constant) and b.left.value == 1:
                v = tr.ex(b.right)
                if v[0] == "Nat":
                    return ("K", f"P.smoothW {paren(v[1])}")
            raise U("power with the decay coefficient of something else than 1 / iter", n)
        if isinstance(n.right, ast.Constant) and n.right.value == 0.5:
            v = tr.ex(n.left)
            if v[0] == "Nat":
                return ("K", f"P.sqrtIter {paren(v[1])}")
            raise U("square root of a non-integer", n)
    if isinstance(n, ast.Call) and isinstance(n.func, ast.Name) and n.func.id == "exp" and len(n.args) == 1:
        v = tr.k(tr.ex(n.args[0]))
        return ("K", f"P.exp {paren(v[1])}")
    if isinstance(n, ast.Call) and ast.unparse(n) == "self.adapt_stat_func(trans_stats)":
        return ("K", "a")
    if isinstance(n, ast.Constant) and n.value == 1 and not isinstance(n.value, bool):
        return None
    return None


UPDATE_SIG = ["self", "adapt_state", "chain_state", "trans_stats", "transition"]


def merge_body(fn, first: bool):
    """Statements of the `i == 0` / `else` branch of the loop over `adapt_states` in `finalize`."""
    for s in fn.body:
        if isinstance(s, ast.If) and ast.unparse(s.test) == "isinstance(adapt_states, dict)" and len(s.orelse) >= 1:
            loops = [x for x in s.orelse if isinstance(x, ast.For)]
            rest = [x for x in s.orelse if not isinstance(x, ast.For)]
            if len(loops) != 1 or rest:
                break
            lp = loops[0]
            if ast.unparse(lp.target) != "(i, adapt_state)" or ast.unparse(lp.iter) != "enumerate(adapt_states)" or lp.orelse:
                break
            if len(lp.body) != 1 or not isinstance(lp.body[0], ast.If) or ast.unparse(lp.body[0].test) != "i == 0":
                break
            return lp.body[0].body if first else lp.body[0].orelse
    raise U("finalize no longer has the shape `for i, adapt_state in enumerate(adapt_states): if i == 0: … else: …`", fn)


def emit_adapters(repo: Path, out: Path):  # noqa: C901, PLR0915
    lines = [
        "/- GENERATED by tools/extractors/pysrc.py from src/mici/adapters.py of the tree under test.",
        "   Do not edit.  Per-component scalar form of the NumPy code (see the extractor docstring). -/",
        "import MiciVerif.Lemmas.PySrcAdaptersBase",
        "set_option linter.unusedVariables false",
        "namespace MiciVerif.Generated.AdaptersSrc",
        "open MiciVerif.Adapters MiciVerif.PySrcAdapters",
        "",
    ]
    try:
        tree = ast.parse((repo / "src/mici/adapters.py").read_text())
    except Exception as e:  # noqa: BLE001
        tree = ast.Module(body=[], type_ignores=[])
        lines.append(f"/- adapters.py could not be parsed: {clean(repr(e))} -/")

    def emit(name, sig, rtype, stub, build, binders=KBINDERS):
        try:
            body = build()
            lines.append(f"def {name}_translated : Bool := true")
            lines.append(f"def {name} {binders} {sig} : {rtype} :=\n{body}")
        except Untranslatable as e:
            lines.append(f"/- NOT TRANSLATED: {clean(str(e))} -/")
            lines.append(f"def {name}_translated : Bool := false")
            lines.append(f"def {name} {binders} {sig} : {rtype} :=\n  {stub}")
        except Exception:  # noqa: BLE001
            lines.append(f"/- NOT TRANSLATED (translator error): {clean(traceback.format_exc(limit=2))} -/")
            lines.append(f"def {name}_translated : Bool := false")
            lines.append(f"def {name} {binders} {sig} : {rtype} :=\n  {stub}")
        lines.append("")

    def update_fn(cls):
        fn = find_func(tree, "update", cls)
        pos, kwo = arg_names(fn)
        if pos != UPDATE_SIG or kwo or fn.decorator_list:
            raise U("signature of update changed", fn)
        return fn

    # ---- dual averaging update ---------------------------------------------------------
    def build_da():
        fn = update_fn("DualAveragingStepSizeAdapter")
        tr = NumTr(
            "adapt_state",
            {"iter": ("Nat", "s.iter"), "adapt_stat_error": ("K", "s.err"), "smoothed_log_step_size": ("K", "s.smoothed"),
             "log_step_size_reg_target": ("K", "s.regTarget")},
            {"self.iter_offset": ("K", "P.iterOffset"), "self.adapt_stat_target": ("K", "P.target"),
             "self.log_step_size_reg_coefficient": ("K", "P.regCoeff"), "transition.integrator.step_size": ("OUT",)},
            {}, da_special,
        )
        tr.run(strip_doc(fn.body))
        if set(tr.outputs) != {"transition.integrator.step_size"}:
            raise U("update does not set integrator.step_size exactly once")
        st = tr.state
        return tr.body(
            f"(⟨{st['iter'][1]}, {st['smoothed_log_step_size'][1]}, {st['adapt_stat_error'][1]}, "
            f"{st['log_step_size_reg_target'][1]}⟩, {tr.outputs['transition.integrator.step_size'][1]})"
        )

    emit("da_update", "(P : DAParams K) (s : DAState K) (a : K)", "DAState K × K", "(s, a)", build_da)

    # ---- Welford updates ---------------------------------------------------------------
    def build_var_update():
        fn = update_fn("OnlineVarianceMetricAdapter")
        tr = NumTr("adapt_state", {"iter": ("Nat", "s.iter"), "mean": ("K", "s.mean"), "sum_diff_sq": ("K", "s.m2")},
                   {"chain_state.pos": ("K", "x")}, {})
        tr.run(strip_doc(fn.body))
        st = tr.state
        return tr.body(f"⟨{st['iter'][1]}, {st['mean'][1]}, {st['sum_diff_sq'][1]}⟩")

    emit("var_update", "(s : WState K) (x : K)", "WState K", "s", build_var_update)

    def build_cov_update():
        fn = update_fn("OnlineCovarianceMetricAdapter")
        tr = NumTr("adapt_state", {"iter": ("Nat", "s.iter"), "mean": ("V", "s.meanA", "s.meanB"), "sum_diff_outer": ("K", "s.c")},
                   {"chain_state.pos": ("V", "p.1", "p.2")}, {})
        tr.run(strip_doc(fn.body))
        st = tr.state
        return tr.body(f"⟨{st['iter'][1]}, {st['mean'][1]}, {st['mean'][2]}, {st['sum_diff_outer'][1]}, s.nan⟩")

    emit("cov_update", "(s : CState K) (p : K × K)", "CState K", "s", build_cov_update)

    # ---- Chan / Schubert-Gertz merge steps of finalize -----------------------------------
    def build_merge(cls, key, vec, first):
        def build():
            fn = find_func(tree, "finalize", cls)
            stmts = merge_body(fn, first)
            state = {"iter": ("Nat", "s.iter"), "mean": ("V", "s.meanA", "s.meanB") if vec else ("K", "s.meanA"), key: ("K", "s.c")}
            est = "covar_est" if vec else "var_est"
            names = {} if first else {"n_iter": ("Nat", "acc.iter"), "mean_est": ("V", "acc.meanA", "acc.meanB") if vec else ("K", "acc.meanA"),
                                      est: ("K", "acc.c")}
            tr = NumTr("adapt_state", state, {}, names)
            tr.run(stmts)
            for v in ("n_iter", "mean_est", est):
                if v not in tr.env:
                    raise U(f"{v} is not set")
            m = tr.env["mean_est"]
            if vec:
                return tr.body(f"({tr.env['n_iter'][1]}, {m[1]}, {m[2]}, {tr.env[est][1]})")
            return tr.body(f"({tr.env['n_iter'][1]}, {m[1]}, {tr.env[est][1]})")

        return build

    emit("var_merge_first", "(s : CState K)", "Nat × K × K", "(0, s.c, s.c)",
         build_merge("OnlineVarianceMetricAdapter", "sum_diff_sq", False, True))
    emit("var_merge_step", "(acc s : CState K)", "Nat × K × K", "(0, s.c, s.c)",
         build_merge("OnlineVarianceMetricAdapter", "sum_diff_sq", False, False))
    emit("cov_merge_first", "(s : CState K)", "Nat × K × K × K", "(0, s.c, s.c, s.c)",
         build_merge("OnlineCovarianceMetricAdapter", "sum_diff_outer", True, True))
    emit("cov_merge_step", "(acc s : CState K)", "Nat × K × K × K", "(0, s.c, s.c, s.c)",
         build_merge("OnlineCovarianceMetricAdapter", "sum_diff_outer", True, False))

    # ---- finalize: dual averaging ----------------------------------------------------------
    def build_da_finalize():
        fn = find_func(tree, "finalize", "DualAveragingStepSizeAdapter")
        body = strip_doc(fn.body)
        if len(body) != 1 or not isinstance(body[0], ast.If) or ast.unparse(body[0].test) != "isinstance(adapt_states, dict)":
            raise U("finalize is not a single `if isinstance(adapt_states, dict)`", fn)

        def val(n, one):  # noqa: C901
            if isinstance(n, ast.Call) and isinstance(n.func, ast.Name) and n.func.id == "exp" and len(n.args) == 1 and not n.keywords:
                return f"exp {paren(val(n.args[0], one))}"
            if isinstance(n, ast.Call) and ast.unparse(n.func) == "self.log_step_size_reducer" and len(n.args) == 1 and not n.keywords:
                return f"reducer {paren(val(n.args[0], one))}"
            if (isinstance(n, ast.Subscript) and isinstance(n.value, ast.Name) and isinstance(n.slice, ast.Constant)
                    and n.slice.value == "smoothed_log_step_size" and n.value.id == ("adapt_states" if one else "adapt_state")):
                return ("s" if one else "adapt_state") + ".smoothed"
            if (isinstance(n, ast.ListComp) and not one and len(n.generators) == 1 and not n.generators[0].ifs
                    and ast.unparse(n.generators[0].target) == "adapt_state" and ast.unparse(n.generators[0].iter) == "adapt_states"):
                return f"l.map (fun adapt_state => {val(n.elt, False)})"
            raise U(f"unsupported expression in finalize: {ast.unparse(n)[:60]}", n)

        def branch(stmts, one):
            if len(stmts) != 1 or not isinstance(stmts[0], ast.Assign) or ast.unparse(stmts[0].targets[0]) != "transition.integrator.step_size":
                raise U("branch of finalize does not just set integrator.step_size", fn)
            return val(stmts[0].value, one)

        return f"  match x with\n  | .inl s => {branch(body[0].body, True)}\n  | .inr l => {branch(body[0].orelse, False)}"

    emit("da_finalize", "(exp : K → K) (reducer : List K → K) (x : DAState K ⊕ List (DAState K))", "K", "exp (reducer [])", build_da_finalize)

    # ---- finalize: error for < 2 samples, unbiased estimate, regularisation -----------------
    def regularize(cls, meth, est, diag_aware):
        fn = find_func(tree, meth, cls)
        pos, kwo = arg_names(fn)
        if pos != ["self", est, "n_iter"] or kwo or fn.decorator_list:
            raise U(f"signature of {meth} changed", fn)
        tr = NumTr("-", {}, {"self.reg_iter_offset": ("Nat", "off"), "self.reg_scale": ("K", "scale")},
                   {est: ("K", "v"), "n_iter": ("Nat", "n")})
        alias = None

        def run(stmts):
            nonlocal alias
            for st in stmts:
                if isinstance(st, ast.Expr) and isinstance(st.value, ast.Constant):
                    continue
                if isinstance(st, ast.AugAssign) and isinstance(st.target, ast.Name) and st.target.id == est:
                    tr.run([st])
                    continue
                if diag_aware and isinstance(st, ast.Assign) and ast.unparse(st.value) == f"np.einsum('ii->i', {est})" and isinstance(st.targets[0], ast.Name):
                    alias = st.targets[0].id
                    continue
                if diag_aware and alias and isinstance(st, ast.AugAssign) and isinstance(st.target, ast.Name) and st.target.id == alias and isinstance(st.op, ast.Add):
                    cur = tr.env[est]
                    new = tr.bin(ast.Add(), cur, tr.ex(st.value), st)
                    tr.env[est] = ("K", f"(if diag then {new[1]} else {cur[1]})")
                    continue
                raise U(f"unsupported statement in {meth}: {ast.unparse(st)[:60]} (the estimate must be updated in place)", st)

        body = strip_doc(fn.body)
        if len(body) == 1 and isinstance(body[0], ast.If) and not body[0].orelse:
            t = ast.unparse(body[0].test)
            if t != "self.reg_iter_offset is not None and self.reg_iter_offset != 0":
                raise U(f"guard of {meth} changed: {t[:60]}", body[0])
            before = tr.env[est]
            run(body[0].body)
            inner = "\n".join(f"    {l}" for l in [*tr.lets, tr.env[est][1]])
            return [], f"if off != 0 then\n{inner}\n  else {before[1]}"
        run(body)
        return tr.lets, tr.env[est][1]

    def build_regularize(cls, meth, est, diag_aware):
        def build():
            lets, res = regularize(cls, meth, est, diag_aware)
            return "\n".join(f"  {l}" for l in [*lets, res])

        return build

    emit("var_regularize", "(off : Nat) (scale : K) (v : K) (n : Nat)", "K", "v",
         build_regularize("OnlineVarianceMetricAdapter", "_regularize_var_est", "var_est", False))
    emit("cov_regularize", "(off : Nat) (scale : K) (v : K) (n : Nat) (diag : Bool)", "K", "v",
         build_regularize("OnlineCovarianceMetricAdapter", "_regularize_covar_est", "covar_est", True))

    def finalize_tail(cls, est, meth):
        """(fn, the three statements `if n_iter < 2: raise`, `est /= n_iter - 1`, `self._regularize…(est, n_iter)`,
        the statements after them)."""
        fn = find_func(tree, "finalize", cls)
        pos, kwo = arg_names(fn)
        if pos != ["self", "adapt_states", "chain_states", "transition", "rngs"] or kwo or fn.decorator_list:
            raise U("signature of finalize changed", fn)
        body = strip_doc(fn.body)
        idx = [i for i, st in enumerate(body) if isinstance(st, ast.If) and ast.unparse(st.test) == "isinstance(adapt_states, dict)"]
        if idx != [0]:
            raise U("finalize does not start with the accumulation block", fn)
        tail = body[1:]
        if len(tail) < 3:
            raise U("statements after the accumulation block changed", fn)
        g = tail[0]
        if not (isinstance(g, ast.If) and isinstance(g.test, ast.Compare) and len(g.test.ops) == 1 and type(g.test.ops[0]) in CMP_SYM
                and isinstance(g.test.left, ast.Name) and g.test.left.id == "n_iter" and isinstance(g.test.comparators[0], ast.Constant)
                and isinstance(g.test.comparators[0].value, int) and not isinstance(g.test.comparators[0].value, bool)
                and g.test.comparators[0].value >= 0
                and not g.orelse and isinstance(g.body[-1], ast.Raise)
                and g.body[-1].exc is not None and ast.unparse(g.body[-1].exc).startswith("AdaptationError")
                and all(isinstance(b, ast.Assign) and isinstance(b.value, (ast.Constant, ast.JoinedStr)) for b in g.body[:-1])):
            raise U("the check for fewer than two samples changed", g)
        if not (isinstance(tail[1], ast.AugAssign) and isinstance(tail[1].target, ast.Name) and tail[1].target.id == est):
            raise U("the estimate is not normalised in place", tail[1])
        if ast.unparse(tail[2]) != f"self.{meth}({est}, n_iter)":
            raise U("regularisation call changed", tail[2])
        return fn, body[0], tail[:3], tail[3:]

    def build_finalize_tail(cls, est, meth, regname, extra, metric_cls):
        def build():
            fn, _, arith, _ = finalize_tail(cls, est, meth)
            tr = NumTr("-", {}, {}, {est: ("K", "acc.c"), "n_iter": ("Nat", "acc.iter")})
            tr.run([arith[1]])
            g = arith[0].test
            cond = f"acc.iter {CMP_SYM[type(g.ops[0])]} {g.comparators[0].value}"
            return tr.body(f"if {cond} then .error .tooFewSamples else .ok ({regname} off scale {tr.env[est][1]} acc.iter{extra})")

        return build

    emit("var_finalize", "(off : Nat) (scale : K) (acc : CState K)", "Except AdaptErr K", ".error .hInitNaN",
         build_finalize_tail("OnlineVarianceMetricAdapter", "var_est", "_regularize_var_est", "var_regularize", "", "PositiveDiagonalMatrix"))
    emit("cov_finalize", "(off : Nat) (scale : K) (diag : Bool) (acc : CState K)", "Except AdaptErr K", ".error .hInitNaN",
         build_finalize_tail("OnlineCovarianceMetricAdapter", "covar_est", "_regularize_covar_est", "cov_regularize", " diag", "DensePositiveDefiniteMatrix"))

    # ---- initial step-size search: body of the loop as Boolean functions ------------------
    ATOMS = {
        "s == 0": "first", "np.isnan(delta_h)": "isnan", "delta_h > delta_h_threshold": "gt",
        "delta_h <= delta_h_threshold": "le", "True": "true", "False": "false",
    }

    def bexpr(n, env):
        src = ast.unparse(n)
        if src in ATOMS:
            return ATOMS[src]
        if isinstance(n, ast.Name) and n.id in env:
            if env[n.id] is None:
                raise U(f"{n.id} may be unbound", n)
            return env[n.id]
        if isinstance(n, ast.BoolOp):
            op = " && " if isinstance(n.op, ast.And) else " || "
            return "(" + op.join(bexpr(v, env) for v in n.values) + ")"
        if isinstance(n, ast.UnaryOp) and isinstance(n.op, ast.Not):
            return f"!{bexpr(n.operand, env)}"
        raise U(f"condition outside the supported set: {src[:60]}", n)

    def bite(c, a, b):
        if a == b:
            return a
        if (a, b) == ("true", "false"):
            return c
        return f"(if {c} then {a} else {b})"

    def brun(stmts, env, lets):
        """env: step_size_too_big, halve (None = not yet decided), ret (None = no return yet)."""
        env = dict(env)
        for st in stmts:
            src = ast.unparse(st)
            if src in ("state = integrator.step(init_state)", "delta_h = abs(h_init - system.h(state))"):
                if env.get("ret") is not None or env.get("halve") is not None:
                    raise U("step / energy evaluation after the decision", st)
                env[src.split(" ")[0]] = "done"
                continue
            if isinstance(st, ast.Assign) and src.startswith("step_size_too_big = "):
                e = bexpr(st.value, env)
                if lets is not None and e not in ("true", "false"):
                    nm = "step_size_too_big'"
                    while any(l.startswith(f"let {nm} ") for l in lets):
                        nm += "'"
                    lets.append(f"let {nm} : Bool := {e}")
                    e = nm
                env["step_size_too_big"] = e
                continue
            if src == "integrator.step_size /= 2":
                env["halve"] = "true"
                continue
            if src == "integrator.step_size *= 2":
                env["halve"] = "false"
                continue
            if isinstance(st, ast.If):
                c = bexpr(st.test, env)
                if len(st.body) == 1 and ast.unparse(st.body[0]) == "return integrator.step_size" and not st.orelse:
                    if env.get("ret") is not None or env.get("halve") is not None:
                        raise U("second return / return after the step-size update", st)
                    env["ret"] = c
                    continue
                if has_exit([st]):
                    raise U("return in an unsupported position", st)
                e1, e2 = brun(st.body, env, None), brun(st.orelse, env, None)
                for k in ("step_size_too_big", "halve"):
                    if e1.get(k) != env.get(k) or e2.get(k) != env.get(k):
                        if e1.get(k) is None or e2.get(k) is None:
                            env[k] = None if k == "step_size_too_big" else env.get(k)
                            if k == "halve":
                                raise U("step size updated on one branch only", st)
                            # first assignment under a condition: unbound on the other path
                            raise U("step_size_too_big bound on one path only", st)
                        v = bite(c, e1[k], e2[k])
                        if lets is not None and k == "step_size_too_big":
                            nm = "step_size_too_big'"
                            while any(l.startswith(f"let {nm} ") for l in lets):
                                nm += "'"
                            lets.append(f"let {nm} : Bool := {v}")
                            v = nm
                        env[k] = v
                for k in ("state", "delta_h", "ret"):
                    if e1.get(k) != env.get(k) or e2.get(k) != env.get(k):
                        raise U("unsupported statement inside a conditional", st)
                continue
            raise U(f"unsupported statement in the search loop: {src[:60]}", st)
        return env

    def search_parts():
        fn = find_func(tree, "_find_and_set_init_step_size", "DualAveragingStepSizeAdapter")
        body = strip_doc(fn.body)
        srcs = [ast.unparse(x) for x in body]
        loops = [x for x in body if isinstance(x, ast.For)]
        if len(loops) != 1:
            raise U("search has not exactly one loop", fn)
        lp = loops[0]
        i = body.index(lp)
        pre = srcs[:i]
        if pre[:2] != ["init_state = state.copy()", "h_init = system.h(init_state)"]:
            raise U("statements before the search loop changed", fn)
        post = body[i + 1:]
        if not (post and isinstance(post[-1], ast.Raise) and ast.unparse(post[-1].exc).startswith("AdaptationError")
                and all(isinstance(x, ast.Assign) for x in post[:-1])):
            raise U("the search does not end by raising AdaptationError", fn)
        if (ast.unparse(lp.target) != "s" or lp.orelse or not (isinstance(lp.iter, ast.Call) and ast.unparse(lp.iter.func) == "range"
                                                                 and len(lp.iter.args) == 1 and not lp.iter.keywords)):
            raise U("loop header changed", lp)
        if len(lp.body) != 1 or not isinstance(lp.body[0], ast.Try):
            raise U("loop body is not a single try statement", lp)
        t = lp.body[0]
        if t.orelse or t.finalbody or len(t.handlers) != 1 or ast.unparse(t.handlers[0].type) != "IntegratorError" or t.handlers[0].name:
            raise U("exception handling of the loop body changed", t)
        return t.body, t.handlers[0].body, body[:i], lp, post

    def build_try():
        body, *_ = search_parts()
        lets: list[str] = []
        env = brun(body, {"step_size_too_big": "step_size_too_big", "halve": None, "ret": None}, lets)
        if env.get("state") != "done" or env.get("delta_h") != "done":
            raise U("the step / the energy difference is not evaluated")
        if env["halve"] is None:
            raise U("the step size is not updated")
        ret = env["ret"] if env["ret"] is not None else "false"
        return "\n".join(f"  {l}" for l in [*lets, f"({ret}, {env['step_size_too_big']}, {env['halve']})"])

    def build_except():
        _, handler, *_ = search_parts()
        env = brun(handler, {"step_size_too_big": "step_size_too_big", "halve": None, "ret": None}, None)
        if env["halve"] is None or env["ret"] is not None or "state" in env:
            raise U("handler does not just update the step size")
        return f"  ({env['step_size_too_big']}, {env['halve']})"

    emit("search_try", "(first isnan gt le step_size_too_big : Bool)", "Bool × Bool × Bool", "(false, false, false)", build_try, binders="")
    emit("search_except", "(step_size_too_big : Bool)", "Bool × Bool", "(false, false)", build_except, binders="")

    # =================================================================================
    # whole methods: constructors, `initialize`, the complete search, reducers, whole `finalize`
    # =================================================================================

    def rat_lit(v, node=None):
        """Exact rational of a non-negative decimal literal, as a Lean `Rat` term."""
        if isinstance(v, bool) or not isinstance(v, (int, float)) or v < 0 or v != v or v in (float("inf"),):
            raise U(f"default {v!r} outside the supported set", node)
        q = Fraction(repr(v)) if isinstance(v, float) else Fraction(v)
        return f"({q.numerator} / {q.denominator} : Rat)"

    def k_lit(v, node=None):
        """A non-negative numeric literal as a term of `K`."""
        if isinstance(v, bool) or not isinstance(v, (int, float)) or v < 0 or v != v or v == float("inf"):
            raise U(f"literal {v!r} outside the supported set", node)
        q = Fraction(repr(v)) if isinstance(v, float) else Fraction(v)
        if q.denominator == 1 and q.numerator in (0, 1):
            return f"({q.numerator} : K)"
        if q.denominator == 1:
            return f"(({q.numerator} : Nat) : K)"
        return f"((({q.numerator} : Nat) : K) / (({q.denominator} : Nat) : K))"

    def nat_lit(v, node=None):
        if isinstance(v, bool) or not isinstance(v, int) or v < 0:
            raise U(f"{v!r} is not a non-negative integer literal", node)
        return str(v)

    def self_assignments(fn, fields):
        """`self.<field> = <expr>` statements of a constructor: {field: expr}; anything else fails closed."""
        got = {}
        for st in strip_doc(fn.body):
            if isinstance(st, ast.Expr) and isinstance(st.value, ast.Constant):
                continue
            if (isinstance(st, ast.Assign) and len(st.targets) == 1 and isinstance(st.targets[0], ast.Attribute)
                    and isinstance(st.targets[0].value, ast.Name) and st.targets[0].value.id == "self"
                    and st.targets[0].attr in fields and st.targets[0].attr not in got):
                got[st.targets[0].attr] = st.value
                continue
            raise U(f"statement of __init__ outside the translated subset: {ast.unparse(st)[:60]}", st)
        if set(got) != set(fields):
            raise U(f"__init__ does not store {sorted(set(fields) - set(got))}", fn)
        return got

    # ---- DualAveragingStepSizeAdapter.__init__ ------------------------------------------
    DA_ARGS = [  # (argument, type of the argument, field of DAConfig, type of the field)
        ("adapt_stat_target", "K", "adaptStatTarget", "K"), ("adapt_stat_func", "OptFn", "adaptStatFunc", "SelFn"),
        ("log_step_size_reg_target", "OptK", "regTarget", "OptK"), ("log_step_size_reg_coefficient", "K", "regCoeff", "K"),
        ("iter_decay_coeff", "K", "iterDecayCoeff", "K"), ("iter_offset", "Nat", "iterOffset", "Nat"),
        ("max_init_step_size_iters", "Nat", "maxInitStepSizeIters", "Nat"), ("log_step_size_reducer", "OptRed", "reducer", "SelRed"),
    ]
    REDUCER_SEL = {"arithmetic_mean_log_step_size_reducer": ".arith", "geometric_mean_log_step_size_reducer": ".geom",
                   "min_log_step_size_reducer": ".min"}

    def da_init_fn():
        fn = find_func(tree, "__init__", "DualAveragingStepSizeAdapter")
        pos, kwo = arg_names(fn)
        if pos != ["self"] + [a for a, *_ in DA_ARGS] or kwo or fn.decorator_list or len(fn.args.defaults) != len(DA_ARGS):
            raise U("signature of __init__ changed", fn)
        return fn

    def build_da_defaults():
        fn = da_init_fn()
        out = []
        for (arg, ty, _, _), d in zip(DA_ARGS, fn.args.defaults, strict=True):
            if not isinstance(d, ast.Constant):
                raise U(f"default of {arg} is not a literal", d)
            if ty == "K":
                out.append(rat_lit(d.value, d))
            elif ty == "Nat":
                out.append(nat_lit(d.value, d))
            elif ty == "OptK":
                out.append("none" if d.value is None else f"some {rat_lit(d.value, d)}")
            else:
                if d.value is not None:
                    raise U(f"default of {arg} is not None", d)
                out.append("true")
        return "  ⟨" + ", ".join(out) + "⟩"

    def default_stat_func_ok():
        fn = find_func(tree, "default_adapt_stat_func")
        body = strip_doc(fn.body)
        return (arg_names(fn) == (["stats"], []) and len(body) == 1 and isinstance(body[0], ast.Return)
                and body[0].value is not None and ast.unparse(body[0].value) == "stats['accept_stat']")

    def build_da_init():
        fn = da_init_fn()
        vals = self_assignments(fn, [a for a, *_ in DA_ARGS])
        argty = {a: t for a, t, *_ in DA_ARGS}

        def sel(name, kind, node):
            if kind == "SelFn":
                if name == "default_adapt_stat_func" and default_stat_func_ok():
                    return ".acceptStat"
                raise U(f"default statistic function {name} is not `stats['accept_stat']`", node)
            if name in REDUCER_SEL:
                return REDUCER_SEL[name]
            raise U(f"default reducer {name} is not one of the reducers of the module", node)

        fields = []
        for arg, _, field, fty in DA_ARGS:
            v = vals[arg]
            if isinstance(v, ast.Name) and v.id in argty:
                if argty[v.id] != fty:
                    raise U(f"self.{arg} = {v.id}: an argument of another kind is stored", v)
                fields.append(f"{field} := {v.id}")
                continue
            if isinstance(v, ast.IfExp) and fty in ("SelFn", "SelRed"):
                t = ast.unparse(v.test)
                opt = "OptFn" if fty == "SelFn" else "OptRed"
                for a, ty in argty.items():
                    if ty != opt:
                        continue
                    if t == f"{a} is None" and isinstance(v.body, ast.Name) and isinstance(v.orelse, ast.Name) and v.orelse.id == a:
                        fields.append(f"{field} := (match {a} with | none => {sel(v.body.id, fty, v)} | some f => .custom f)")
                        break
                    if t == f"{a} is not None" and isinstance(v.orelse, ast.Name) and isinstance(v.body, ast.Name) and v.body.id == a:
                        fields.append(f"{field} := (match {a} with | none => {sel(v.orelse.id, fty, v)} | some f => .custom f)")
                        break
                else:
                    raise U(f"unsupported selection for self.{arg}: {ast.unparse(v)[:60]}", v)
                continue
            raise U(f"self.{arg} = {ast.unparse(v)[:60]}: outside the translated subset", v)
        return "  { " + ",\n    ".join(fields) + " }"

    emit("da_init_defaults", "", "DADefaults", "⟨0, false, none, 0, 0, 0, 0, false⟩", build_da_defaults, binders="")
    emit("da_init",
         "(adapt_stat_target : K) (adapt_stat_func : Option Fn) (log_step_size_reg_target : Option K) "
         "(log_step_size_reg_coefficient iter_decay_coeff : K) (iter_offset max_init_step_size_iters : Nat) "
         "(log_step_size_reducer : Option Red)", "DAConfig K Fn Red",
         "⟨adapt_stat_target, .acceptStat, none, adapt_stat_target, adapt_stat_target, 0, 0, .geom⟩", build_da_init,
         binders="{K Fn Red : Type}")

    # ---- DualAveragingStepSizeAdapter.initialize ------------------------------------------
    SEARCH_SIG = ["self", "state", "system", "integrator"]
    da_init_side = {"search_args": None}

    def build_da_initialize():  # noqa: C901, PLR0912, PLR0915
        fn = find_func(tree, "initialize", "DualAveragingStepSizeAdapter")
        pos, kwo = arg_names(fn)
        if pos != ["self", "chain_state", "transition"] or kwo or fn.decorator_list:
            raise U("signature of initialize changed", fn)
        alias = {}
        state = {}
        dict_name = None
        lets = []
        have_init = False

        def kx(n, some_var=None):
            """Expression of type K."""
            if isinstance(n, ast.Constant):
                return k_lit(n.value, n)
            if isinstance(n, ast.Name) and n.id == "init_step_size" and have_init:
                return "init_step_size"
            if isinstance(n, ast.Attribute) and ast.unparse(n) == "self.log_step_size_reg_target":
                if some_var is None:
                    raise U("the optional setting log_step_size_reg_target is used as a number without an `is None` test", n)
                return some_var
            if isinstance(n, ast.Call) and isinstance(n.func, ast.Name) and n.func.id == "log" and len(n.args) == 1 and not n.keywords:
                return f"log ({kx(n.args[0], some_var)})"
            if isinstance(n, ast.BinOp) and type(n.op) in (ast.Add, ast.Sub, ast.Mult, ast.Div):
                sym = {ast.Add: "+", ast.Sub: "-", ast.Mult: "*", ast.Div: "/"}[type(n.op)]
                a, b = kx(n.left, some_var), kx(n.right, some_var)
                return f"{paren(a)} {sym} {paren(b)}"
            if isinstance(n, ast.BoolOp):
                raise U("`or` / `and` of an optional float: an explicit falsy value (0.0) would be replaced (truthiness is not `is None`)", n)
            raise U(f"unsupported expression in initialize: {ast.unparse(n)[:60]}", n)

        def set_entry(key, e, node):
            if dict_name is None:
                raise U("the adapter state does not exist yet", node)
            if key not in ("iter", "smoothed_log_step_size", "adapt_stat_error", "log_step_size_reg_target"):
                raise U(f"unknown adapter state entry {key!r}", node)
            nm = key
            while any(l.startswith(f"let {nm} ") for l in lets):
                nm += "'"
            ty = "Nat" if key == "iter" else "K"
            lets.append(f"let {nm} : {ty} := {e}")
            state[key] = nm

        body = strip_doc(fn.body)
        if not body or not isinstance(body[-1], ast.Return):
            raise U("initialize does not end with a return", fn)
        for st in body[:-1]:
            src = ast.unparse(st)
            if isinstance(st, ast.Expr) and isinstance(st.value, ast.Constant):
                continue
            if isinstance(st, ast.Assign) and len(st.targets) == 1 and isinstance(st.targets[0], ast.Name):
                tg = st.targets[0].id
                if src in ("integrator = transition.integrator", "system = transition.system"):
                    alias[tg] = ast.unparse(st.value)
                    continue
                if isinstance(st.value, ast.Dict) and dict_name is None:
                    dict_name = tg
                    for kn, vn in zip(st.value.keys, st.value.values, strict=True):
                        if not (isinstance(kn, ast.Constant) and isinstance(kn.value, str)) or kn.value in state:
                            raise U("key of the adapter state", st)
                        if not isinstance(vn, ast.Constant):
                            raise U(f"initial value of {kn.value!r} is not a literal", vn)
                        set_entry(kn.value, nat_lit(vn.value, vn) if kn.value == "iter" else k_lit(vn.value, vn), vn)
                    continue
                if (tg == "init_step_size" and isinstance(st.value, ast.Call) and not st.value.keywords
                        and ast.unparse(st.value.func) == "self._find_and_set_init_step_size" and not have_init):
                    args = []
                    for a in st.value.args:
                        if isinstance(a, ast.Name) and a.id in alias:
                            args.append(alias[a.id])
                        elif isinstance(a, (ast.Name, ast.Attribute)):
                            args.append(ast.unparse(a))
                        else:
                            raise U("argument of the search", a)
                    da_init_side["search_args"] = args
                    have_init = True
                    continue
                raise U(f"unsupported statement in initialize: {src[:60]}", st)
            if (isinstance(st, ast.Assign) and len(st.targets) == 1 and isinstance(st.targets[0], ast.Subscript)
                    and isinstance(st.targets[0].value, ast.Name) and st.targets[0].value.id == dict_name
                    and isinstance(st.targets[0].slice, ast.Constant)):
                set_entry(st.targets[0].slice.value, kx(st.value), st)
                continue
            if isinstance(st, ast.If) and ast.unparse(st.test) in ("self.log_step_size_reg_target is None", "self.log_step_size_reg_target is not None"):
                none_br, some_br = (st.body, st.orelse) if ast.unparse(st.test).endswith("is None") else (st.orelse, st.body)

                def one(br):
                    if (len(br) == 1 and isinstance(br[0], ast.Assign) and len(br[0].targets) == 1
                            and isinstance(br[0].targets[0], ast.Subscript) and ast.unparse(br[0].targets[0].value) == dict_name
                            and isinstance(br[0].targets[0].slice, ast.Constant)):
                        return br[0].targets[0].slice.value, br[0].value
                    raise U("branch of the `is None` test does not just store one entry of the adapter state", st)

                k1, v1 = one(none_br)
                k2, v2 = one(some_br)
                if k1 != k2:
                    raise U("the two branches store different entries", st)
                set_entry(k1, f"(match self_log_step_size_reg_target with | none => {kx(v1)} | some t => {kx(v2, 't')})", st)
                continue
            raise U(f"unsupported statement in initialize: {src[:60]}", st)
        if not (isinstance(body[-1].value, ast.Name) and body[-1].value.id == dict_name):
            raise U("initialize does not return the adapter state", body[-1])
        need = ["iter", "smoothed_log_step_size", "adapt_stat_error", "log_step_size_reg_target"]
        if any(k not in state for k in need):
            raise U(f"adapter state lacks {[k for k in need if k not in state]}", fn)
        if not have_init:
            raise U("the initial step-size search is not called", fn)
        return "\n".join(f"  {l}" for l in [*lets, "⟨" + ", ".join(state[k] for k in need) + "⟩"])

    emit("da_initialize", "(self_log_step_size_reg_target : Option K) (log : K → K) (init_step_size : K)", "DAState K",
         "⟨1, init_step_size, init_step_size, init_step_size⟩", build_da_initialize)
    args = da_init_side["search_args"] or []
    lines.append("/-- arguments of the call `self._find_and_set_init_step_size(…)` in `initialize` (for the parameters state, system, integrator) -/")
    lines.append("def da_initialize_search_args : List String := [" + ", ".join('"' + a.replace('"', "'") + '"' for a in args) + "]")
    lines.append("")

    # ---- _find_and_set_init_step_size as a whole ---------------------------------------------
    search_side = {"thr": 0}

    def build_search_whole():  # noqa: C901
        fn = find_func(tree, "_find_and_set_init_step_size", "DualAveragingStepSizeAdapter")
        pos, kwo = arg_names(fn)
        if pos != SEARCH_SIG or kwo or fn.decorator_list:
            raise U("signature of _find_and_set_init_step_size changed", fn)
        _, _, pre, lp, post = search_parts()
        guard = None
        e0 = None
        thr = None
        for st in pre[2:]:
            src = ast.unparse(st)
            if isinstance(st, ast.If) and guard is None and e0 is None:
                if not (src.startswith("if np.isnan(h_init):") and not st.orelse and isinstance(st.body[-1], ast.Raise)
                        and st.body[-1].exc is not None and ast.unparse(st.body[-1].exc).startswith("AdaptationError")
                        and all(isinstance(b, ast.Assign) and isinstance(b.value, (ast.Constant, ast.JoinedStr)) for b in st.body[:-1])):
                    raise U("NaN check of the initial Hamiltonian changed", st)
                guard = "if h_init_isnan then .error .hInitNaN else"
                continue
            if (isinstance(st, ast.Assign) and ast.unparse(st.targets[0]) == "integrator.step_size" and e0 is None
                    and isinstance(st.value, ast.Constant) and isinstance(st.value.value, (int, float)) and not isinstance(st.value.value, bool)):
                v = float(st.value.value)
                if not v > 0 or v == float("inf"):
                    raise U("initial step size is not positive", st)
                import math as _m
                m, ex = _m.frexp(v)
                if m != 0.5:
                    raise U("initial step size is not a power of two", st)
                e0 = ex - 1
                continue
            if (isinstance(st, ast.Assign) and ast.unparse(st.targets[0]) == "delta_h_threshold" and thr is None
                    and isinstance(st.value, ast.Call) and ast.unparse(st.value.func) == "log" and len(st.value.args) == 1
                    and isinstance(st.value.args[0], ast.Constant) and isinstance(st.value.args[0].value, int)
                    and not isinstance(st.value.args[0].value, bool) and st.value.args[0].value > 0):
                thr = st.value.args[0].value
                continue
            raise U(f"statement before the search loop outside the translated subset: {src[:60]}", st)
        if e0 is None or thr is None:
            raise U("initial step size / threshold is not set before the loop", fn)
        search_side["thr"] = thr
        a = lp.iter.args[0]

        def fuel(n):
            if ast.unparse(n) == "self.max_init_step_size_iters":
                return "max_init_step_size_iters"
            if isinstance(n, ast.Constant):
                return nat_lit(n.value, n)
            if isinstance(n, ast.BinOp) and isinstance(n.op, (ast.Add, ast.Sub, ast.Mult)):
                sym = {ast.Add: "+", ast.Sub: "-", ast.Mult: "*"}[type(n.op)]
                return f"({fuel(n.left)} {sym} {fuel(n.right)})"
            raise U(f"loop bound {ast.unparse(n)[:40]}", n)

        e0s = str(e0) if e0 >= 0 else f"({e0})"
        out = [
            *([guard] if guard else []),
            f"let step_size_exponent : Int := {e0s}",
            f"searchFor search_try search_except .noInitStepSize dH delta_h_threshold {fuel(a)} true step_size_exponent false",
        ]
        return "\n".join(f"  {l}" for l in out)

    emit("find_init_step_size", "(h_init_isnan : Bool) (max_init_step_size_iters : Nat) (dH : Int → Outcome K) (delta_h_threshold : K)",
         "Except AdaptErr Int", ".ok 0", build_search_whole, binders="{K : Type} [LT K] [LE K] [DecidableLT K] [DecidableLE K]")
    lines.append("/-- `delta_h_threshold = log(<this>)` -/")
    lines.append(f"def find_init_step_size_threshold : Nat := {search_side['thr']}")
    lines.append("")

    # ---- the three reducers of the module --------------------------------------------------
    def red_ex(n, var=None):  # noqa: C901, PLR0911
        if isinstance(n, ast.Name) and var is not None and n.id == var:
            return var
        if isinstance(n, ast.Call) and isinstance(n.func, ast.Name) and not n.keywords and len(n.args) == 1:
            f, a = n.func.id, n.args[0]
            if f == "exp":
                return f"exp {paren(red_ex(a, var))}"
            if f == "len" and isinstance(a, ast.Name) and a.id == "log_step_sizes" and var is None:
                return "(log_step_sizes.length : K)"
            if f == "sum" and isinstance(a, (ast.GeneratorExp, ast.ListComp)) and var is None:
                g = a.generators
                if (len(g) == 1 and not g[0].ifs and not g[0].is_async and isinstance(g[0].target, ast.Name)
                        and isinstance(g[0].iter, ast.Name) and g[0].iter.id == "log_step_sizes"):
                    v = g[0].target.id
                    if isinstance(a.elt, ast.Name) and a.elt.id == v:
                        return "log_step_sizes.foldl (· + ·) 0"
                    return f"(log_step_sizes.map (fun {v} => {red_ex(a.elt, v)})).foldl (· + ·) 0"
            if f == "sum" and isinstance(a, ast.Name) and a.id == "log_step_sizes" and var is None:
                return "log_step_sizes.foldl (· + ·) 0"
        if isinstance(n, ast.BinOp) and type(n.op) in (ast.Add, ast.Sub, ast.Mult, ast.Div):
            sym = {ast.Add: "+", ast.Sub: "-", ast.Mult: "*", ast.Div: "/"}[type(n.op)]
            return f"{paren(red_ex(n.left, var))} {sym} {paren(red_ex(n.right, var))}"
        raise U(f"unsupported expression in a reducer: {ast.unparse(n)[:60]}", n)

    def reducer_ret(name):
        fn = find_func(tree, name)
        body = strip_doc(fn.body)
        if arg_names(fn) != (["log_step_sizes"], []) or fn.decorator_list or len(body) != 1 or not isinstance(body[0], ast.Return) or body[0].value is None:
            raise U(f"{name} is not a single return of a function of log_step_sizes", fn)
        return body[0].value

    def build_reducer(name):
        def build():
            return "  " + red_ex(reducer_ret(name))

        return build

    def build_min_reducer():
        v = reducer_ret("min_log_step_size_reducer")
        if ast.unparse(v) != "exp(min(log_step_sizes))":
            raise U(f"min reducer is not exp(min(log_step_sizes)): {ast.unparse(v)[:60]}", v)
        return "  (pyMin log_step_sizes).map (fun m => exp m)"

    emit("arith_reducer", "(exp : K → K) (log_step_sizes : List K)", "K", "exp 0", build_reducer("arithmetic_mean_log_step_size_reducer"))
    emit("geom_reducer", "(exp : K → K) (log_step_sizes : List K)", "K", "exp 0", build_reducer("geometric_mean_log_step_size_reducer"))
    emit("min_reducer", "(exp : K → K) (log_step_sizes : List K)", "Option K", "none", build_min_reducer, binders="{K : Type} [Min K]")

    # ---- metric adapters: __init__ and initialize -------------------------------------------
    def metric_init_fn(cls):
        fn = find_func(tree, "__init__", cls)
        pos, kwo = arg_names(fn)
        if pos != ["self", "reg_iter_offset", "reg_scale"] or kwo or fn.decorator_list or len(fn.args.defaults) != 2:
            raise U("signature of __init__ changed", fn)
        return fn

    def build_metric_defaults(cls):
        def build():
            d = metric_init_fn(cls).args.defaults
            if not all(isinstance(x, ast.Constant) for x in d):
                raise U("defaults are not literals")
            return f"  ({nat_lit(d[0].value, d[0])}, {rat_lit(d[1].value, d[1])})"

        return build

    def build_metric_init(cls):
        def build():
            vals = self_assignments(metric_init_fn(cls), ["reg_iter_offset", "reg_scale"])
            out = []
            for f in ("reg_iter_offset", "reg_scale"):
                v = vals[f]
                if not (isinstance(v, ast.Name) and v.id == f):
                    raise U(f"self.{f} = {ast.unparse(v)[:40]}: not the argument of the same name", v)
                out.append(v.id)
            return "  (" + ", ".join(out) + ")"

        return build

    def zeros(n, shapes):
        src = ast.unparse(n)
        if isinstance(n, ast.Constant):
            return k_lit(n.value, n)
        if src in shapes:
            return "(0 : K)"
        raise U(f"initial statistic {src[:60]} is not an array of zeros of the expected shape", n)

    def build_metric_initialize(cls, key, vec):
        def build():
            fn = find_func(tree, "initialize", cls)
            pos, kwo = arg_names(fn)
            if pos != ["self", "chain_state", "transition"] or kwo or fn.decorator_list:
                raise U("signature of initialize changed", fn)
            body = strip_doc(fn.body)
            pre = [ast.unparse(x) for x in body[:-1]]
            if vec:
                if pre != ["dim_pos = chain_state.pos.shape[0]", "dtype = chain_state.pos.dtype"]:
                    raise U("statements before the return of initialize changed", fn)
                mean_sh = {"np.zeros(shape=(dim_pos,), dtype=dtype)"}
                sum_sh = {"np.zeros(shape=(dim_pos, dim_pos), dtype=dtype)"}
            else:
                if pre:
                    raise U("statements before the return of initialize changed", fn)
                mean_sh = sum_sh = {"np.zeros_like(chain_state.pos)"}
            r = body[-1]
            if not (isinstance(r, ast.Return) and isinstance(r.value, ast.Dict)):
                raise U("initialize does not return a dictionary display", fn)
            d = {}
            for kn, vn in zip(r.value.keys, r.value.values, strict=True):
                if not (isinstance(kn, ast.Constant) and isinstance(kn.value, str)) or kn.value in d:
                    raise U("key of the adapter state", r)
                d[kn.value] = vn
            if set(d) != {"iter", "mean", key}:
                raise U(f"adapter state has the entries {sorted(d)}", r)
            if not isinstance(d["iter"], ast.Constant):
                raise U("initial iteration count is not a literal", r)
            it, mean, sm = nat_lit(d["iter"].value, d["iter"]), zeros(d["mean"], mean_sh), zeros(d[key], sum_sh)
            return f"  ⟨{it}, {mean}, {mean}, {sm}, false⟩" if vec else f"  ⟨{it}, {mean}, {sm}⟩"

        return build

    for pfx, cls, key, vec in (("var", "OnlineVarianceMetricAdapter", "sum_diff_sq", False),
                               ("cov", "OnlineCovarianceMetricAdapter", "sum_diff_outer", True)):
        emit(f"{pfx}_init_defaults", "", "Nat × Rat", "(0, 0)", build_metric_defaults(cls), binders="")
        emit(f"{pfx}_init", "(reg_iter_offset : Nat) (reg_scale : K)", "Nat × K", "(0, reg_scale)", build_metric_init(cls), binders="{K : Type}")
        emit(f"{pfx}_initialize", "", "CState K" if vec else "WState K", "⟨1, 0, 0, 0, false⟩" if vec else "⟨1, 0, 0⟩",
             build_metric_initialize(cls, key, vec))

    # ---- whole finalize of the metric adapters ------------------------------------------------
    METRIC_CLS = {"PositiveDiagonalMatrix": ".positiveDiagonal", "DensePositiveDefiniteMatrix": ".densePositiveDefinite"}

    def build_finalize_whole(pfx, cls, key, est, meth, vec):  # noqa: C901
        def build():  # noqa: C901, PLR0912
            fn, acc_if, _, rest = finalize_tail(cls, est, meth)
            merge_body(fn, True)  # shape of the loop over adapt_states (fails closed)
            # dict branch: n_iter / the estimate from the single state; chain_states and rngs wrapped in lists
            tr = NumTr("adapt_states", {"iter": ("Nat", "s.iter"), "mean": ("K", "s.meanA"), key: ("K", "s.c")}, {}, {})
            wrapped = set()
            for st in acc_if.body:
                src = ast.unparse(st)
                if src in ("chain_states = [chain_states]", "rngs = [rngs]"):
                    wrapped.add(src.split(" ")[0])
                    continue
                if isinstance(st, ast.Assign) and isinstance(st.targets[0], ast.Name) and st.targets[0].id in ("n_iter", est):
                    tr.run([st])
                    continue
                raise U(f"statement of the single-state branch outside the translated subset: {src[:60]}", st)
            if wrapped != {"chain_states", "rngs"}:
                raise U("the single chain state / generator is not wrapped in a list", acc_if)
            if tr.lets and any(" := s." not in l for l in tr.lets):
                raise U("single-state branch computes with the statistics", acc_if)
            if "n_iter" not in tr.env or est not in tr.env or tr.env["n_iter"][0] != "Nat" or tr.env[est][0] != "K":
                raise U("n_iter / the estimate is not taken from the single state", acc_if)
            sub = {l.split(" ")[1]: l.split(" := ")[1] for l in tr.lets}
            one = f"some ({sub[tr.env['n_iter'][1]]}, {sub[tr.env[est][1]]})"
            loop = (f"(mergeLoop4 cov_merge_first cov_merge_step l).map (fun r => (r.1, r.2.2.2))" if vec
                    else f"(mergeLoop3 var_merge_first var_merge_step l).map (fun r => (r.1, r.2.2))")
            fin = f"{pfx}_finalize off scale {'diag ' if vec else ''}⟨n_iter, 0, 0, {est}, false⟩"
            out = [
                "let acc : Option (Nat × K) := match x with",
                f"  | .inl s => {one}",
                f"  | .inr l => {loop}",
                "match acc with",
                "| none => .error .tooFewSamples",
                f"| some (n_iter, {est}) =>",
                f"  match {fin} with",
                "  | .error e => .error e",
                f"  | .ok {est}' =>",
            ]
            metric, chains = "old_metric", None
            ind = "    "
            for st in rest:
                src = ast.unparse(st)
                if isinstance(st, ast.Expr) and isinstance(st.value, ast.Constant):
                    continue
                if isinstance(st, ast.Assign) and len(st.targets) == 1 and ast.unparse(st.targets[0]) == "transition.system.metric" and metric == "old_metric":
                    v, inv = st.value, "false"
                    if isinstance(v, ast.Attribute) and v.attr == "inv":
                        v, inv = v.value, "true"
                    if not (isinstance(v, ast.Call) and isinstance(v.func, ast.Name) and v.func.id in METRIC_CLS and not v.keywords
                            and len(v.args) == 1 and isinstance(v.args[0], ast.Name) and v.args[0].id == est):
                        raise U(f"new metric {src[:70]} is not <matrix class>({est})[.inv]", st)
                    out.append(f"{ind}let metric : Met := mk ⟨{METRIC_CLS[v.func.id]}, {inv}, {est}'⟩")
                    metric = "metric"
                    continue
                if isinstance(st, ast.For) and chains is None:
                    if ast.unparse(st.target) != "(chain_state, rng)" or ast.unparse(st.iter) != "zip(chain_states, rngs, strict=True)" or st.orelse:
                        raise U("header of the momentum refresh loop changed", st)
                    out.append(f"{ind}let chain_states : List St := chains.map (fun c =>")
                    out.append(f"{ind}  let chain_state : St := c.1")
                    out.append(f"{ind}  let rng : Rng := c.2")
                    for b in st.body:
                        bs = ast.unparse(b)
                        if isinstance(b, ast.Expr) and isinstance(b.value, ast.Constant):
                            continue
                        if bs == "chain_state.pos = chain_state.pos":
                            out.append(f"{ind}  let chain_state : St := clear chain_state")
                        elif bs == "chain_state.mom = transition.system.sample_momentum(chain_state, rng)":
                            out.append(f"{ind}  let chain_state : St := setMom chain_state (sample {metric} chain_state rng)")
                        else:
                            raise U(f"statement of the momentum refresh loop outside the translated subset: {bs[:70]} "
                                    "(each chain's momentum must be drawn by system.sample_momentum(chain_state, rng) with its own generator)", b)
                    out.append(f"{ind}  chain_state)")
                    chains = "chain_states"
                    continue
                raise U(f"statement after the regularisation outside the translated subset: {src[:70]}", st)
            out.append(f"{ind}.ok ({metric}, {chains or 'chains.map (fun c => c.1)'})")
            return "\n".join(f"  {l}" for l in out)

        return build

    FW_BINDERS = "{K Met St Rng Mom : Type} [Zero K] [One K] [Add K] [Sub K] [Mul K] [Div K] [NatCast K]"
    FW_ARGS = ("(mk : MetricAssign K → Met) (clear : St → St) (setMom : St → Mom → St) (sample : Met → St → Rng → Mom) "
               "(old_metric : Met) (x : CState K ⊕ List (CState K)) (chains : List (St × Rng))")
    emit("var_finalize_whole", "(off : Nat) (scale : K) " + FW_ARGS, "Except AdaptErr (Met × List St)", ".error .hInitNaN",
         build_finalize_whole("var", "OnlineVarianceMetricAdapter", "sum_diff_sq", "var_est", "_regularize_var_est", False), binders=FW_BINDERS)
    emit("cov_finalize_whole", "(off : Nat) (scale : K) (diag : Bool) " + FW_ARGS, "Except AdaptErr (Met × List St)", ".error .hInitNaN",
         build_finalize_whole("cov", "OnlineCovarianceMetricAdapter", "sum_diff_outer", "covar_est", "_regularize_covar_est", True), binders=FW_BINDERS)


    lines.append("end MiciVerif.Generated.AdaptersSrc")
    (out / "AdaptersSrc.lean").write_text("\n".join(lines) + "\n")


# =======================================================================================
# entry point
# =======================================================================================


def _failsafe(fn, repo, out, fname, ns):
    try:
        fn(repo, out)
    except Exception:  # noqa: BLE001
        # never crash: a file without the expected definitions makes every src_* theorem fail
        (out / fname).write_text(
            f"/- GENERATED: the translator crashed: {clean(traceback.format_exc(limit=3))} -/\n"
            f"namespace {ns}\nend {ns}\n"
        )


def emit(repo: Path, out: Path) -> None:
    _failsafe(emit_utils, repo, out, "UtilsSrc.lean", "MiciVerif.Generated.UtilsSrc")
    _failsafe(emit_stagers, repo, out, "StagersSrc.lean", "MiciVerif.Generated.StagersSrc")
    _failsafe(emit_adapters, repo, out, "AdaptersSrc.lean", "MiciVerif.Generated.AdaptersSrc")
