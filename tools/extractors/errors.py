"""Translator plug-in for C12: exception hierarchy and protected regions.

Reads (pure `ast`) errors.py, solvers.py, transitions.py, integrators.py of the tree under
test and writes Generated/Errors.lean:

* `hierarchy`        : (class, base) pairs of errors.py
* `solverCalls`      : for every `solve_*` function of solvers.py, every *risky* call (a call of the
                       user-supplied `func`/`norm`, any `system.<method>(…)`, or a `.inv` attribute /
                       matrix product on their results) with a flag telling whether it is lexically inside a
                       `try` whose handlers catch ValueError AND LinAlgError and re-raise ConvergenceError
* `solverReturns`    : for every `return` of a solver: is it guarded by a convergence test
                       (an enclosing `if` whose test compares `error` with a `*_tol` name using `<`)
* `solverFallsToRaise`: the function body ends with `raise ConvergenceError(…)`
* `transitionCalls`  : calls of `self.integrator.step` / `self.system.h` / `self._check_divergence` in
                       `_sample_n_step` and `_build_tree` with a flag: inside `try … except IntegratorError`
* `integratorRaises` : exception classes raised in integrators.py and transitions.py `_check_divergence`

Fail-closed: anything not understood is emitted with flag `false`.
"""
from __future__ import annotations

import ast
from pathlib import Path


def lean_str(s: str) -> str:
    return '"' + s.replace("\\", "\\\\").replace('"', '\\"').replace("\n", " ") + '"'


def lean_bool(b: bool) -> str:
    return "true" if b else "false"


def handler_names(h: ast.ExceptHandler) -> list[str]:
    t = h.type
    if t is None:
        return ["BaseException"]
    if isinstance(t, ast.Tuple):
        return [ast.unparse(e) for e in t.elts]
    return [ast.unparse(t)]


def raises_in(body, name) -> bool:
    for n in ast.walk(ast.Module(body=body, type_ignores=[])):
        if isinstance(n, ast.Raise) and n.exc is not None:
            e = n.exc
            if isinstance(e, ast.Call):
                e = e.func
            if ast.unparse(e) == name:
                return True
    return False


class ProtectVisitor(ast.NodeVisitor):
    """Walk a function keeping the stack of enclosing try-bodies and if-tests."""

    def __init__(self, risky_pred, protect_pred):
        self.risky_pred = risky_pred
        self.protect_pred = protect_pred
        self.try_stack: list[ast.Try] = []
        self.if_stack: list[ast.expr] = []
        self.calls: list[tuple[str, bool]] = []
        self.returns: list[tuple[str, bool]] = []

    def visit_Try(self, node: ast.Try):
        self.try_stack.append(node)
        for s in node.body:
            self.visit(s)
        self.try_stack.pop()
        # handlers / orelse / finalbody are NOT protected by this try
        for h in node.handlers:
            for s in h.body:
                self.visit(s)
        for s in node.orelse + node.finalbody:
            self.visit(s)

    def visit_If(self, node: ast.If):
        self.visit(node.test)
        self.if_stack.append(node.test)
        for s in node.body:
            self.visit(s)
        self.if_stack.pop()
        for s in node.orelse:
            self.visit(s)

    def protected(self) -> bool:
        return any(self.protect_pred(t) for t in self.try_stack)

    def visit_Call(self, node: ast.Call):
        if self.risky_pred(node):
            self.calls.append((ast.unparse(node)[:80], self.protected()))
        self.generic_visit(node)

    def visit_Return(self, node: ast.Return):
        guarded = any(is_convergence_test(t) for t in self.if_stack)
        self.returns.append((ast.unparse(node)[:60], guarded))
        self.generic_visit(node)


def is_convergence_test(test: ast.expr) -> bool:
    """`error < <something>_tol` possibly and-ed with other conditions."""
    for n in ast.walk(test):
        if isinstance(n, ast.Compare) and len(n.ops) == 1 and isinstance(n.ops[0], ast.Lt):
            left = ast.unparse(n.left)
            right = ast.unparse(n.comparators[0])
            if left == "error" and right.endswith("_tol"):
                # must be a conjunct, not under `or` / `not`
                return conjunct_of(test, n)
    return False


def conjunct_of(test, target) -> bool:
    if test is target:
        return True
    if isinstance(test, ast.BoolOp) and isinstance(test.op, ast.And):
        return any(conjunct_of(v, target) for v in test.values)
    return False


def solver_risky(node: ast.Call) -> bool:
    f = node.func
    if isinstance(f, ast.Name) and f.id in ("func", "norm"):
        return True
    if isinstance(f, ast.Attribute) and isinstance(f.value, ast.Name) and f.value.id == "system":
        return True
    return False


def solver_protect(t: ast.Try) -> bool:
    caught = set()
    ok_handler = False
    for h in t.handlers:
        names = handler_names(h)
        caught |= set(names)
        if {"ValueError", "LinAlgError"} <= set(names) and raises_in(h.body, "ConvergenceError"):
            ok_handler = True
    return ok_handler and {"ValueError", "LinAlgError"} <= caught


def trans_risky(node: ast.Call) -> bool:
    s = ast.unparse(node.func)
    return s in ("self.integrator.step", "self.system.h", "self._h_trial_state", "self._check_divergence")


def trans_protect(t: ast.Try) -> bool:
    return any("IntegratorError" in handler_names(h) for h in t.handlers)


def emit(repo: Path, out: Path) -> None:
    src = repo / "src" / "mici"
    lines = ["-- GENERATED by tools/extractors/errors.py from the source under test. Do not edit.",
             "namespace MiciVerif.Generated.Errors", ""]
    # 1. hierarchy
    tree = ast.parse((src / "errors.py").read_text())
    hier = []
    for n in tree.body:
        if isinstance(n, ast.ClassDef):
            bases = [ast.unparse(b) for b in n.bases] or ["object"]
            hier.append((n.name, bases[0] if len(bases) == 1 else "?multiple"))
    lines.append("def hierarchy : List (String × String) := [")
    lines.append(",\n".join(f"  ({lean_str(a)}, {lean_str(b)})" for a, b in hier))
    lines.append("]\n")
    # 2. solvers
    tree = ast.parse((src / "solvers.py").read_text())
    calls, rets, falls = [], [], []
    imports_ok = False
    for n in tree.body:
        if isinstance(n, ast.ImportFrom) and n.module == "mici.errors":
            imports_ok = {"ConvergenceError", "LinAlgError"} <= {a.name for a in n.names}
    for n in tree.body:
        if isinstance(n, ast.FunctionDef) and n.name.startswith("solve_"):
            v = ProtectVisitor(solver_risky, solver_protect)
            for s in n.body:
                v.visit(s)
            calls += [(n.name, c, p) for c, p in v.calls]
            rets += [(n.name, r, g) for r, g in v.returns]
            last = n.body[-1]
            falls.append((n.name, isinstance(last, ast.Raise) and raises_in([last], "ConvergenceError")))
    lines.append(f"def solversImportMiciErrors : Bool := {lean_bool(imports_ok)}\n")
    lines.append("def solverCalls : List (String × String × Bool) := [")
    lines.append(",\n".join(f"  ({lean_str(a)}, {lean_str(b)}, {lean_bool(c)})" for a, b, c in calls))
    lines.append("]\n")
    lines.append("def solverReturns : List (String × String × Bool) := [")
    lines.append(",\n".join(f"  ({lean_str(a)}, {lean_str(b)}, {lean_bool(c)})" for a, b, c in rets))
    lines.append("]\n")
    lines.append("def solverFallsToRaise : List (String × Bool) := [")
    lines.append(",\n".join(f"  ({lean_str(a)}, {lean_bool(b)})" for a, b in falls))
    lines.append("]\n")
    # 3. transitions
    tree = ast.parse((src / "transitions.py").read_text())
    tcalls = []
    for cls in tree.body:
        if isinstance(cls, ast.ClassDef):
            for fn in cls.body:
                if isinstance(fn, ast.FunctionDef) and fn.name in ("_sample_n_step", "_build_tree"):
                    v = ProtectVisitor(trans_risky, trans_protect)
                    for s in fn.body:
                        v.visit(s)
                    for c, p in v.calls:
                        # system.h of the *initial* state (h_init) is outside the trajectory
                        tcalls.append((f"{cls.name}.{fn.name}", c, p))
    lines.append("def transitionCalls : List (String × String × Bool) := [")
    lines.append(",\n".join(f"  ({lean_str(a)}, {lean_str(b)}, {lean_bool(c)})" for a, b, c in tcalls))
    lines.append("]\n")
    # 3b. Integrator.step converts linear-algebra errors of `_step` into IntegratorError, and the
    #     trial-state energy evaluation of the transitions maps them to NaN
    step_conv = False
    itree = ast.parse((src / "integrators.py").read_text())
    for cls in itree.body:
        if isinstance(cls, ast.ClassDef) and cls.name == "Integrator":
            for fn in cls.body:
                if isinstance(fn, ast.FunctionDef) and fn.name == "step":
                    for t in ast.walk(fn):
                        if isinstance(t, ast.Try):
                            inside = any(isinstance(c, ast.Call) and ast.unparse(c.func) == "self._step"
                                         for b in t.body for c in ast.walk(b))
                            for h in t.handlers:
                                if inside and {"ValueError", "LinAlgError"} <= set(handler_names(h)) and raises_in(h.body, "IntegratorError"):
                                    step_conv = True
    trial_nan = False
    for cls in tree.body:
        if isinstance(cls, ast.ClassDef):
            for fn in cls.body:
                if isinstance(fn, ast.FunctionDef) and fn.name == "_h_trial_state":
                    for t in ast.walk(fn):
                        if isinstance(t, ast.Try):
                            inside = any(isinstance(c, ast.Call) and ast.unparse(c.func) == "self.system.h"
                                         for b in t.body for c in ast.walk(b))
                            for h in t.handlers:
                                rets = [r for b in h.body for r in ast.walk(b) if isinstance(r, ast.Return)]
                                if inside and {"ValueError", "LinAlgError"} <= set(handler_names(h)) and any(
                                        r.value is not None and ast.unparse(r.value) in ("np.nan", "nan") for r in rets):
                                    trial_nan = True
    lines.append(f"def integratorStepConvertsLinAlgErrors : Bool := {lean_bool(step_conv)}\n")
    lines.append(f"def trialEnergyErrorsBecomeNaN : Bool := {lean_bool(trial_nan)}\n")
    # 4. what integrators / divergence checks raise
    raised = []
    for fname in ("integrators.py", "transitions.py", "solvers.py"):
        t = ast.parse((src / fname).read_text())
        for n in ast.walk(t):
            if isinstance(n, ast.Raise) and n.exc is not None:
                e = n.exc.func if isinstance(n.exc, ast.Call) else n.exc
                raised.append((fname, ast.unparse(e)))
    raised = sorted(set(raised))
    lines.append("def raisedClasses : List (String × String) := [")
    lines.append(",\n".join(f"  ({lean_str(a)}, {lean_str(b)})" for a, b in raised))
    lines.append("]\n")
    lines.append("end MiciVerif.Generated.Errors")
    (out / "Errors.lean").write_text("\n".join(lines) + "\n")
