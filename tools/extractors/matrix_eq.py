"""Translator plug-in for C19: equality / hash / constructor tables of ``mici.matrices``.

Pure ``ast`` walking of ``<repo>/src/mici/matrices.py`` (the module is never imported).  For every
class of the module (inheritance resolved here with a C3 linearisation over the parsed
``ClassDef`` statements) the entry records what its *effective* ``_compute_hash``,
``_check_equality`` and ``__init__`` chain do:

* ``hashFields``  attribute names read from ``self`` by the effective ``_compute_hash``
* ``eqFields``    attribute names ``X`` for which the effective ``_check_equality`` compares
                  ``self.X`` with ``other.Y`` in one of the understood shapes; ``eqSameName`` says
                  that ``X == Y`` for every such comparison
* ``unknown``     fail-closed flag: some syntactic shape was not understood (``unknownWhy`` says
                  which); the decidable soundness predicate is false for such an entry
* ``hashByValue`` the effective ``_compute_hash`` does not call ``hash_array``, or ``mici.utils.hash_array`` has
                  exactly the expected shape (real dtypes cast to float64 before hashing the bytes), i.e. array
                  hashes are functions of the VALUES like ``np.array_equal``
* ``dunderOk``    the effective ``__eq__`` / ``__hash__`` / ``__getstate__`` are ``Matrix``'s and have the expected
                  shape (``other is self or (same class and self._check_equality(other))``, ``_hash`` memo around
                  ``_compute_hash``, pickled state = ``__dict__`` with ``_hash`` reset to ``None``); no other
                  copy / pickle hooks
* ``params`` / ``caches`` / ``frozen``  attributes stored on ``self`` by the ``__init__`` chain
                  (``super().__init__`` followed along the MRO, keyword arguments bound to the next
                  ``__init__``'s formals, the rest stored by ``Matrix.__init__``): ``caches`` are
                  those whose last store is the constant ``None``, ``params`` the others, ``frozen``
                  the params stored through ``Matrix.__init__``'s kwargs loop *and* that loop sets
                  ``v.flags.writeable = False`` on arrays
* ``frozenExplicit``  attributes made read-only by an explicit ``....flags.writeable = False`` statement: in a
                  method effective for the class that also assigns ``self.X`` (lazy fill: ``self.X.flags.writeable =
                  False`` or ``for a in self.X: a.flags.writeable = False``), or in an ``__init__`` of the chain on the
                  local name that is then stored (``n.flags.writeable = False`` / ``for a in (n, *m): a.flags... = False``
                  followed by ``self.X = n``)
* ``aliases``     property name -> stored attribute, read off ``@property def x(self): ... return
                  self._x`` bodies (pure alias, or the lazy shape ``if self._x is None: ...``)
* ``handAliases`` the small hand-written map below (same object stored under two names by the
                  low-rank update constructors); each pair is only emitted if its two syntactic
                  anchor points are still present in the constructor.

``extract(repo)`` returns the table as Python data (used by harness/c19.py for the dynamic
cross-check), ``emit(repo, out)`` writes ``<out>/MatrixEq.lean``.
"""
from __future__ import annotations

import ast
from pathlib import Path

SRC = "src/mici/matrices.py"
UTILS = "src/mici/utils.py"

# Hand-written alias map (kept tiny): class that *declares* the alias -> {alias: (target, local)}.
# `self.<alias> = <local>` and `super().__init__(..., <target>=<local>, ...)` must both occur in that
# class's __init__ (checked syntactically; otherwise the alias is dropped, which breaks the Lean
# obligation).  The harness checks `obj.<alias> is obj.<target>` on live objects.
HAND_ALIASES = {
    "SymmetricLowRankUpdateMatrix": {
        "factor_matrix": ("left_factor_matrix", "factor_matrix"),
        "symmetric_matrix": ("square_matrix", "symmetric_matrix"),
        "inner_symmetric_matrix": ("inner_square_matrix", "inner_symmetric_matrix"),
    },
    "PositiveDefiniteLowRankUpdateMatrix": {
        "pos_def_matrix": ("symmetric_matrix", "pos_def_matrix"),
        "inner_pos_def_matrix": ("inner_symmetric_matrix", "inner_pos_def_matrix"),
    },
}

EXPECTED_EQ = """
def __eq__(self, other):
    return other is self or (
        other.__class__ == self.__class__ and self._check_equality(other)
    )
"""
EXPECTED_GETSTATE = """
def __getstate__(self):
    state = self.__dict__.copy()
    state["_hash"] = None
    return state
"""
EXPECTED_HASH_ARRAY = """
def hash_array(array):
    if array.dtype != np.float64 and (
        np.issubdtype(array.dtype, np.integer)
        or np.issubdtype(array.dtype, np.floating)
        or array.dtype == np.bool_
    ):
        array = array.astype(np.float64)
    if array.dtype == np.float64:
        array = array + 0.0
    if XXHASH_AVAILABLE:
        h = xxhash.xxh64()
        h.update(array.view(np.byte).data)
        h.update(bytes(f"{array.dtype}{array.shape}{array.strides}", "utf-8"))
        return h.intdigest()
    return hash(array.tobytes())
"""
EXPECTED_HASH = """
def __hash__(self):
    if self._hash is None:
        self._hash = self._compute_hash()
    return self._hash
"""


# ---------------------------------------------------------------------------------------------
# class table + C3


class Cls:
    def __init__(self, node: ast.ClassDef):
        self.node = node
        self.name = node.name
        self.bases = [b.id for b in node.bases if isinstance(b, ast.Name)]
        self.members: dict[str, ast.AST] = {}
        for st in node.body:
            if isinstance(st, ast.FunctionDef):
                # a later def of the same name (setter etc.) shadows: keep the last like Python does
                self.members[st.name] = st
            elif isinstance(st, ast.Assign):
                for t in st.targets:
                    if isinstance(t, ast.Name):
                        self.members[t.id] = st


def _c3(name, classes, memo):
    if name in memo:
        return memo[name]
    c = classes[name]
    bases = [b for b in c.bases if b in classes]
    seqs = [list(_c3(b, classes, memo)) for b in bases] + [list(bases)]
    res = [name]
    while any(seqs):
        for s in seqs:
            if not s:
                continue
            cand = s[0]
            if not any(cand in t[1:] for t in seqs):
                break
        else:
            raise ValueError("inconsistent MRO for " + name)
        res.append(cand)
        for s in seqs:
            if s and s[0] == cand:
                del s[0]
    memo[name] = res
    return res


def _decorators(fn):
    out = set()
    for d in getattr(fn, "decorator_list", []):
        if isinstance(d, ast.Name):
            out.add(d.id)
        elif isinstance(d, ast.Attribute):
            out.add(d.attr)
        else:
            out.add("?")
    return out


def _body(fn):
    b = list(fn.body)
    if b and isinstance(b[0], ast.Expr) and isinstance(b[0].value, ast.Constant) and isinstance(b[0].value.value, str):
        b = b[1:]
    return b


def _lookup(mro, classes, name):
    for cn in mro:
        if name in classes[cn].members:
            return cn, classes[cn].members[name]
    return None, None


# ---------------------------------------------------------------------------------------------
# _compute_hash / _check_equality


class _Unknown(Exception):
    pass


_PURE_CALLS = {"hash", "hash_array", "tuple", "len", "all", "zip"}


def _is_field(node, names):
    """`self.X` / `other.X` -> (owner, X)."""
    if isinstance(node, ast.Attribute) and isinstance(node.value, ast.Name) and node.value.id in names:
        if node.attr.startswith("__"):
            raise _Unknown("dunder attribute " + node.attr)
        return node.value.id, node.attr
    return None


def _call_name(node):
    if isinstance(node.func, ast.Name):
        return node.func.id
    if (
        isinstance(node.func, ast.Attribute)
        and isinstance(node.func.value, ast.Name)
        and node.func.value.id == "np"
        and node.func.attr == "array_equal"
    ):
        return "np.array_equal"
    return None


def _walk_pure(node, objs, env, reads):
    """Walk an expression made only of the whitelisted pure shapes; collect field reads."""
    f = _is_field(node, objs)
    if f:
        reads.append(f)
        return
    if isinstance(node, ast.Constant):
        return
    if isinstance(node, ast.Name):
        if node.id in env:
            return
        raise _Unknown("bare name " + node.id)
    if isinstance(node, ast.Tuple):
        for e in node.elts:
            _walk_pure(e, objs, env, reads)
        return
    if isinstance(node, ast.Call):
        cn = _call_name(node)
        if cn not in _PURE_CALLS and cn != "np.array_equal":
            raise _Unknown("call of " + (cn or ast.dump(node.func)[:40]))
        for a in node.args:
            if isinstance(a, ast.Starred):
                raise _Unknown("starred argument")
            _walk_pure(a, objs, env, reads)
        for k in node.keywords:
            if not (cn == "zip" and k.arg == "strict" and isinstance(k.value, ast.Constant)):
                raise _Unknown("keyword argument")
        return
    if isinstance(node, ast.GeneratorExp):
        env2 = set(env)
        for g in node.generators:
            if g.ifs or g.is_async:
                raise _Unknown("filtered comprehension")
            _walk_pure(g.iter, objs, env2, reads)
            tg = g.target.elts if isinstance(g.target, ast.Tuple) else [g.target]
            for t in tg:
                if not isinstance(t, ast.Name):
                    raise _Unknown("comprehension target")
                env2.add(t.id)
        _walk_pure(node.elt, objs, env2, reads)
        return
    if isinstance(node, ast.Compare) and len(node.ops) == 1 and isinstance(node.ops[0], ast.Eq):
        _walk_pure(node.left, objs, env, reads)
        _walk_pure(node.comparators[0], objs, env, reads)
        return
    raise _Unknown("expression " + type(node).__name__)


def analyse_hash(fn):
    """-> (fields, why) ; why == '' iff understood."""
    try:
        if _decorators(fn):
            raise _Unknown("decorated _compute_hash")
        args = [a.arg for a in fn.args.args]
        if len(args) != 1 or fn.args.vararg or fn.args.kwarg or fn.args.kwonlyargs:
            raise _Unknown("signature")
        body = _body(fn)
        if len(body) != 1 or not isinstance(body[0], ast.Return) or body[0].value is None:
            raise _Unknown("body is not a single return")
        reads: list = []
        _walk_pure(body[0].value, {args[0]}, set(), reads)
        for node in ast.walk(body[0].value):
            if isinstance(node, ast.Compare | ast.BoolOp):
                raise _Unknown("comparison inside hash")
        return _uniq([x for _, x in reads]), ""
    except _Unknown as e:
        return _uniq(_all_self_attrs(fn)), str(e)


def _all_self_attrs(fn):
    a0 = fn.args.args[0].arg if fn.args.args else "self"
    return [
        n.attr
        for n in ast.walk(fn)
        if isinstance(n, ast.Attribute) and isinstance(n.value, ast.Name) and n.value.id == a0
    ]


def _uniq(xs):
    out = []
    for x in xs:
        if x not in out:
            out.append(x)
    return out


def _pair(a, b, s, o):
    """a, b field reads, exactly one on self and one on other -> (self_attr, other_attr)."""
    fa, fb = _is_field(a, {s, o}), _is_field(b, {s, o})
    if not fa or not fb:
        return None
    if fa[0] == s and fb[0] == o:
        return fa[1], fb[1]
    if fa[0] == o and fb[0] == s:
        return fb[1], fa[1]
    raise _Unknown("comparison of two attributes of the same object")


def analyse_eq(fn):
    """-> (pairs [(self_attr, other_attr)], why)."""
    try:
        if _decorators(fn):
            raise _Unknown("decorated _check_equality")
        args = [a.arg for a in fn.args.args]
        if len(args) != 2 or fn.args.vararg or fn.args.kwarg or fn.args.kwonlyargs:
            raise _Unknown("signature")
        s, o = args
        body = _body(fn)
        if len(body) != 1 or not isinstance(body[0], ast.Return) or body[0].value is None:
            raise _Unknown("body is not a single return")
        conj = []

        def flatten(e):
            if isinstance(e, ast.BoolOp):
                if not isinstance(e.op, ast.And):
                    raise _Unknown("disjunction in _check_equality")
                for v in e.values:
                    flatten(v)
            else:
                conj.append(e)

        flatten(body[0].value)
        pairs, lens, zips = [], [], []
        for c in conj:
            if isinstance(c, ast.Compare):
                if len(c.ops) != 1 or not isinstance(c.ops[0], ast.Eq):
                    raise _Unknown("comparison operator other than ==")
                a, b = c.left, c.comparators[0]
                p = _pair(a, b, s, o)
                if p:
                    pairs.append(p)
                    continue
                if (
                    isinstance(a, ast.Call) and isinstance(b, ast.Call)
                    and _call_name(a) == "len" and _call_name(b) == "len"
                    and len(a.args) == 1 and len(b.args) == 1 and not a.keywords and not b.keywords
                ):
                    p = _pair(a.args[0], b.args[0], s, o)
                    if p:
                        lens.append(p)
                        continue
                raise _Unknown("comparison shape " + ast.unparse(c)[:60])
            if isinstance(c, ast.Call) and _call_name(c) == "np.array_equal":
                if len(c.args) != 2 or c.keywords:
                    raise _Unknown("np.array_equal arguments")
                p = _pair(c.args[0], c.args[1], s, o)
                if not p:
                    raise _Unknown("np.array_equal on " + ast.unparse(c)[:60])
                pairs.append(p)
                continue
            if isinstance(c, ast.Call) and _call_name(c) == "all":
                if len(c.args) != 1 or c.keywords or not isinstance(c.args[0], ast.GeneratorExp):
                    raise _Unknown("all(...) shape")
                g = c.args[0]
                if len(g.generators) != 1 or g.generators[0].ifs or g.generators[0].is_async:
                    raise _Unknown("all(...) comprehension")
                gen = g.generators[0]
                if not (isinstance(gen.target, ast.Tuple) and len(gen.target.elts) == 2
                        and all(isinstance(t, ast.Name) for t in gen.target.elts)):
                    raise _Unknown("all(...) target")
                ta, tb = (t.id for t in gen.target.elts)
                e = g.elt
                if not (isinstance(e, ast.Compare) and len(e.ops) == 1 and isinstance(e.ops[0], ast.Eq)
                        and isinstance(e.left, ast.Name) and isinstance(e.comparators[0], ast.Name)
                        and {e.left.id, e.comparators[0].id} == {ta, tb} and ta != tb):
                    raise _Unknown("all(...) element comparison")
                it = gen.iter
                if not (isinstance(it, ast.Call) and _call_name(it) == "zip" and len(it.args) == 2):
                    raise _Unknown("all(...) iterable is not zip of two")
                strict = any(k.arg == "strict" and isinstance(k.value, ast.Constant) and k.value.value is True
                             for k in it.keywords)
                if any(k.arg != "strict" for k in it.keywords):
                    raise _Unknown("zip keyword")
                p = _pair(it.args[0], it.args[1], s, o)
                if not p:
                    raise _Unknown("zip arguments")
                zips.append((p, strict))
                continue
            raise _Unknown("conjunct " + ast.unparse(c)[:60])
        for p, strict in zips:
            # element-wise comparison covers the whole sequence only with strict zip or a length test
            if not strict and p not in lens:
                raise _Unknown("zip without strict=True or length test compares a prefix only")
            pairs.append(p)
        for p in lens:
            if p not in pairs:
                raise _Unknown("length-only comparison of " + p[0])
        return _uniq(pairs), ""
    except _Unknown as e:
        return [(x, x) for x in _uniq(_all_self_attrs(fn))], str(e)


def _same_dump(fn, expected_src):
    exp = ast.parse(expected_src).body[0]
    return (
        [a.arg for a in fn.args.args] == [a.arg for a in exp.args.args]
        and not fn.args.vararg and not fn.args.kwarg and not fn.args.kwonlyargs and not _decorators(fn)
        and [ast.dump(s) for s in _body(fn)] == [ast.dump(s) for s in _body(exp)]
    )


# ---------------------------------------------------------------------------------------------
# __init__ chain


def _is_super_init(call):
    return (
        isinstance(call, ast.Call)
        and isinstance(call.func, ast.Attribute)
        and call.func.attr == "__init__"
        and isinstance(call.func.value, ast.Call)
        and isinstance(call.func.value.func, ast.Name)
        and call.func.value.func.id == "super"
        and not call.func.value.args
    )


def _self_store_targets(target, selfname):
    out = []
    if isinstance(target, ast.Attribute) and isinstance(target.value, ast.Name) and target.value.id == selfname:
        out.append(target.attr)
    elif isinstance(target, ast.Tuple | ast.List):
        for e in target.elts:
            out += _self_store_targets(e, selfname)
    return out


def _is_none(v):
    return isinstance(v, ast.Constant) and v.value is None


def walk_init(mro, classes, idx, kwnames, events, why, depth=0):
    """Simulate the stores of the __init__ found at or after mro[idx], called with keyword
    names `kwnames` (positional arguments do not matter for what is stored)."""
    if depth > 40:
        why.append("__init__ chain too deep")
        return
    fn, owner_i = None, None
    for i in range(idx, len(mro)):
        m = classes[mro[i]].members.get("__init__")
        if isinstance(m, ast.FunctionDef):
            fn, owner_i = m, i
            break
    if fn is None:
        if kwnames:
            why.append("keyword arguments reach object.__init__")
        return
    owner = mro[owner_i]
    if _decorators(fn) or fn.args.vararg:
        why.append(f"{owner}.__init__ signature")
    selfname = fn.args.args[0].arg
    formals = {a.arg for a in fn.args.args[1:]} | {a.arg for a in fn.args.kwonlyargs}
    varkw = fn.args.kwarg.arg if fn.args.kwarg else None
    passthrough = [k for k in kwnames if k not in formals]
    if passthrough and varkw is None:
        why.append(f"{owner}.__init__ receives unexpected keywords {passthrough}")

    def stmts(body):
        for st in body:
            if isinstance(st, ast.Assign | ast.AnnAssign | ast.AugAssign):
                targets = st.targets if isinstance(st, ast.Assign) else [st.target]
                val = st.value
                for t in targets:
                    for x in _self_store_targets(t, selfname):
                        is_none = _is_none(val) and not isinstance(t, ast.Tuple | ast.List) and isinstance(st, ast.Assign | ast.AnnAssign)
                        events.append((x, is_none, False, owner))
                    # self.__dict__[...] = ... outside the recognised kwargs loop
                    if (
                        isinstance(t, ast.Subscript)
                        and isinstance(t.value, ast.Attribute)
                        and t.value.attr == "__dict__"
                        and isinstance(t.value.value, ast.Name)
                        and t.value.value.id == selfname
                    ):
                        why.append(f"{owner}.__init__ stores through __dict__ outside the kwargs loop")
            elif isinstance(st, ast.Expr) and _is_super_init(st.value):
                call = st.value
                names = []
                for k in call.keywords:
                    if k.arg is None:
                        if isinstance(k.value, ast.Name) and k.value.id == varkw:
                            names += passthrough
                        else:
                            why.append(f"{owner}.__init__ passes ** of something else")
                    else:
                        names.append(k.arg)
                if any(isinstance(a, ast.Starred) for a in call.args):
                    why.append(f"{owner}.__init__ passes *args")
                walk_init(mro, classes, owner_i + 1, names, events, why, depth + 1)
            elif isinstance(st, ast.For) and _is_kwargs_loop(st, varkw):
                k, v = (e.id for e in st.target.elts)
                stored, frozen = _kwargs_loop_effect(st, selfname, k, v)
                if not stored:
                    why.append(f"{owner}.__init__ kwargs loop does not store")
                else:
                    for name in passthrough:
                        events.append((name, False, frozen, owner))
            elif isinstance(st, ast.If):
                stmts(st.body)
                stmts(st.orelse)
            elif isinstance(st, ast.For | ast.While | ast.With):
                stmts(st.body)
                stmts(getattr(st, "orelse", []))
            elif isinstance(st, ast.Try):
                stmts(st.body)
                for h in st.handlers:
                    stmts(h.body)
                stmts(st.orelse)
                stmts(st.finalbody)
            else:
                # any other statement must not contain a super().__init__ call or a store on self
                for n in ast.walk(st):
                    if _is_super_init(n):
                        why.append(f"{owner}.__init__ calls super().__init__ inside an expression")
                    if isinstance(n, ast.Call) and isinstance(n.func, ast.Name) and n.func.id == "setattr":
                        why.append(f"{owner}.__init__ uses setattr")

    stmts(fn.body)


def _is_kwargs_loop(st, varkw):
    return (
        varkw is not None
        and isinstance(st.iter, ast.Call)
        and isinstance(st.iter.func, ast.Attribute)
        and st.iter.func.attr == "items"
        and isinstance(st.iter.func.value, ast.Name)
        and st.iter.func.value.id == varkw
        and isinstance(st.target, ast.Tuple)
        and len(st.target.elts) == 2
        and all(isinstance(e, ast.Name) for e in st.target.elts)
    )


def _kwargs_loop_effect(st, selfname, k, v):
    stored = frozen = False
    for s in st.body:
        if (
            isinstance(s, ast.Assign) and len(s.targets) == 1
            and isinstance(s.targets[0], ast.Subscript)
            and isinstance(s.targets[0].value, ast.Attribute)
            and s.targets[0].value.attr == "__dict__"
            and isinstance(s.targets[0].value.value, ast.Name) and s.targets[0].value.value.id == selfname
            and isinstance(s.targets[0].slice, ast.Name) and s.targets[0].slice.id == k
            and isinstance(s.value, ast.Name) and s.value.id == v
        ):
            stored = True
        if isinstance(s, ast.If) and not s.orelse:
            t = s.test
            is_arr_test = (
                isinstance(t, ast.Call) and isinstance(t.func, ast.Name) and t.func.id == "isinstance"
                and len(t.args) == 2 and isinstance(t.args[0], ast.Name) and t.args[0].id == v
                and ast.unparse(t.args[1]) == "np.ndarray"
            )
            for b in s.body:
                if (
                    is_arr_test
                    and isinstance(b, ast.Assign) and len(b.targets) == 1
                    and ast.unparse(b.targets[0]) == f"{v}.flags.writeable"
                    and isinstance(b.value, ast.Constant) and b.value.value is False
                ):
                    frozen = True
    return stored, frozen


# ---------------------------------------------------------------------------------------------
# explicit freezes


def _is_freeze(st, of):
    """`<of>.flags.writeable = False`"""
    return (
        isinstance(st, ast.Assign) and len(st.targets) == 1
        and ast.unparse(st.targets[0]) == f"{of}.flags.writeable"
        and isinstance(st.value, ast.Constant) and st.value.value is False
    )


def explicit_freezes(fn):
    """Attributes of self made read-only by explicit statements of `fn` (see module docstring)."""
    if not fn.args.args:
        return []
    s = fn.args.args[0].arg
    stored = {}  # attr -> local name it was stored from (or None)
    for n in ast.walk(fn):
        if isinstance(n, ast.Assign):
            for t in n.targets:
                for x in _self_store_targets(t, s):
                    stored[x] = n.value.id if isinstance(n.value, ast.Name) and not isinstance(t, ast.Tuple | ast.List) else None
    frozen_self, frozen_local = set(), set()
    for n in ast.walk(fn):
        if isinstance(n, ast.Assign) and len(n.targets) == 1 and isinstance(n.value, ast.Constant) and n.value.value is False:
            t = ast.unparse(n.targets[0])
            if t.endswith(".flags.writeable"):
                base = t[: -len(".flags.writeable")]
                if base.startswith(s + ".") and base.count(".") == 1:
                    frozen_self.add(base.split(".")[1])
                elif "." not in base:
                    frozen_local.add(base)
        if isinstance(n, ast.For) and isinstance(n.target, ast.Name) and any(_is_freeze(b, n.target.id) for b in n.body):
            it = n.iter
            f = _is_field_safe(it, s)
            if f:
                frozen_self.add(f)
            elif isinstance(it, ast.Tuple):
                for e in it.elts:
                    e = e.value if isinstance(e, ast.Starred) else e
                    if isinstance(e, ast.Name):
                        frozen_local.add(e.id)
    # a local frozen inside a `for v in ...` loop variable is not a parameter name: harmless extra
    out = [x for x in frozen_self if x in stored]
    out += [x for x, loc in stored.items() if loc is not None and loc in frozen_local]
    return _uniq(out)


# ---------------------------------------------------------------------------------------------
# aliases


def property_alias(fn):
    """`@property def x(self): [if self._x is None ...: ...] return self._x` -> '_x' else None."""
    if "property" not in _decorators(fn) or "abstractmethod" in _decorators(fn):
        return None
    body = _body(fn)
    if not body or not isinstance(body[-1], ast.Return):
        return None
    s = fn.args.args[0].arg
    f = _is_field_safe(body[-1].value, s)
    if not f:
        return None
    for st in body[:-1]:
        # only the lazy-fill shape is accepted before the return
        if not isinstance(st, ast.If) or st.orelse:
            return None
        tested = {n.attr for n in ast.walk(st.test) if isinstance(n, ast.Attribute)
                  and isinstance(n.value, ast.Name) and n.value.id == s}
        if f not in tested or not all(isinstance(n, ast.Compare | ast.BoolOp | ast.Attribute | ast.Name | ast.Constant | ast.Is | ast.Or | ast.Load)
                                      for n in ast.walk(st.test)):
            return None
    return f


def _is_field_safe(node, s):
    if isinstance(node, ast.Attribute) and isinstance(node.value, ast.Name) and node.value.id == s:
        return node.attr
    return None


def hand_aliases_for(mro, classes):
    out = []
    for cn in mro:
        for alias, (target, local) in HAND_ALIASES.get(cn, {}).items():
            fn = classes[cn].members.get("__init__")
            if not isinstance(fn, ast.FunctionDef):
                continue
            s = fn.args.args[0].arg
            store_i = kw_i = None
            reassigned_after = False
            for i, st in enumerate(fn.body):
                if (isinstance(st, ast.Assign) and len(st.targets) == 1
                        and _is_field_safe(st.targets[0], s) == alias
                        and isinstance(st.value, ast.Name) and st.value.id == local):
                    store_i = i
                elif isinstance(st, ast.Expr) and _is_super_init(st.value):
                    for k in st.value.keywords:
                        if k.arg == target and isinstance(k.value, ast.Name) and k.value.id == local:
                            kw_i = i
                elif store_i is not None:
                    for n in ast.walk(st):
                        if isinstance(n, ast.Name) and n.id == local and isinstance(n.ctx, ast.Store):
                            reassigned_after = True
            if store_i is not None and kw_i is not None and store_i < kw_i and not reassigned_after:
                out.append((alias, target))
    return out


# ---------------------------------------------------------------------------------------------


def hash_array_by_value(repo: Path) -> bool:
    """`mici.utils.hash_array` has exactly the expected shape: real-valued arrays (integer / floating /
    bool dtype) are cast to float64 and negative zeros mapped to positive zeros (`array + 0.0`) before
    their bytes are hashed, so the hash is a function of the VALUES, as `np.array_equal` is."""
    try:
        tree = ast.parse((Path(repo) / UTILS).read_text())
    except (OSError, SyntaxError):
        return False
    fns = [n for n in tree.body if isinstance(n, ast.FunctionDef) and n.name == "hash_array"]
    return len(fns) == 1 and _same_dump(fns[0], EXPECTED_HASH_ARRAY)


def _calls_hash_array(fn) -> bool:
    return any(isinstance(n, ast.Call) and isinstance(n.func, ast.Name) and n.func.id == "hash_array" for n in ast.walk(fn))


def extract(repo: Path) -> list[dict]:
    tree = ast.parse((Path(repo) / SRC).read_text())
    by_value = hash_array_by_value(Path(repo))
    # `hash_array` must be the one imported from mici.utils (not rebound in matrices.py)
    rebound = any(
        (isinstance(n, ast.FunctionDef | ast.ClassDef) and n.name == "hash_array")
        or (isinstance(n, ast.Assign) and any(isinstance(t, ast.Name) and t.id == "hash_array" for t in n.targets))
        for n in ast.walk(tree)
    )
    imported = any(
        isinstance(n, ast.ImportFrom) and n.module == "mici.utils" and any(a.name == "hash_array" and a.asname is None for a in n.names)
        for n in tree.body
    )
    by_value = by_value and imported and not rebound
    classes: dict[str, Cls] = {}
    for st in tree.body:
        if isinstance(st, ast.ClassDef):
            classes[st.name] = Cls(st)
    memo: dict = {}
    table = []
    for name, c in classes.items():
        try:
            mro = _c3(name, classes, memo)
        except ValueError as e:
            table.append(_unknown_entry(name, str(e)))
            continue
        if mro[-1] != "Matrix":
            continue  # not a matrix class
        why: list[str] = []
        # abstractness: some name whose effective definition is an abstractmethod
        abstract_names = set()
        for cn in mro:
            for mn, m in classes[cn].members.items():
                if isinstance(m, ast.FunctionDef) and "abstractmethod" in _decorators(m):
                    abstract_names.add(mn)
        still_abstract = []
        for mn in sorted(abstract_names):
            _, m = _lookup(mro, classes, mn)
            if isinstance(m, ast.FunctionDef) and "abstractmethod" in _decorators(m):
                still_abstract.append(mn)
        abstract = bool(still_abstract)
        # dispatch
        eq_owner, eq_fn = _lookup(mro, classes, "__eq__")
        h_owner, h_fn = _lookup(mro, classes, "__hash__")
        dunder_ok = (
            eq_owner == "Matrix" and h_owner == "Matrix"
            and isinstance(eq_fn, ast.FunctionDef) and isinstance(h_fn, ast.FunctionDef)
            and _same_dump(eq_fn, EXPECTED_EQ) and _same_dump(h_fn, EXPECTED_HASH)
            and _lookup(mro, classes, "__getstate__")[0] == "Matrix"
            and isinstance(_lookup(mro, classes, "__getstate__")[1], ast.FunctionDef)
            and _same_dump(_lookup(mro, classes, "__getstate__")[1], EXPECTED_GETSTATE)
            and all(_lookup(mro, classes, n)[0] is None for n in ("__reduce__", "__reduce_ex__", "__setstate__", "__copy__", "__deepcopy__"))
            and _lookup(mro, classes, "__ne__")[0] is None
            and _lookup(mro, classes, "__getattr__")[0] is None
            and _lookup(mro, classes, "__getattribute__")[0] is None
            and _lookup(mro, classes, "__setattr__")[0] is None
        )
        hash_owner, hash_fn = _lookup(mro, classes, "_compute_hash")
        ceq_owner, ceq_fn = _lookup(mro, classes, "_check_equality")
        hash_fields, eq_pairs = [], []
        if abstract and (not isinstance(hash_fn, ast.FunctionDef) or "abstractmethod" in _decorators(hash_fn)):
            hash_owner = hash_owner or ""
        elif isinstance(hash_fn, ast.FunctionDef):
            hash_fields, w = analyse_hash(hash_fn)
            if w:
                why.append(f"{hash_owner}._compute_hash: {w}")
        else:
            why.append("_compute_hash is not a function")
        if abstract and (not isinstance(ceq_fn, ast.FunctionDef) or "abstractmethod" in _decorators(ceq_fn)):
            ceq_owner = ceq_owner or ""
        elif isinstance(ceq_fn, ast.FunctionDef):
            eq_pairs, w = analyse_eq(ceq_fn)
            if w:
                why.append(f"{ceq_owner}._check_equality: {w}")
        else:
            why.append("_check_equality is not a function")
        # constructor chain
        events: list = []
        walk_init(mro, classes, 0, [], events, why)
        last: dict = {}
        for x, is_none, frozen, owner in events:
            last.pop(x, None)
            last[x] = (is_none, frozen, owner)
        params = [x for x, (n, _, _) in last.items() if not n]
        caches = [x for x, (n, _, _) in last.items() if n]
        frozen = [x for x, (n, f, _) in last.items() if not n and f]
        # aliases for the names used by eq / hash
        used = _uniq(hash_fields + [a for a, _ in eq_pairs] + [b for _, b in eq_pairs])
        aliases = []
        for u in used:
            _, m = _lookup(mro, classes, u)
            if isinstance(m, ast.FunctionDef):
                tgt = property_alias(m)
                if tgt is not None:
                    aliases.append((u, tgt))
                elif "property" not in _decorators(m):
                    why.append(f"attribute {u} used by eq/hash is a method")
        hand = [p for p in hand_aliases_for(mro, classes)]
        # explicit freezes: effective (non-__init__) members + every __init__ of the chain
        fx = []
        member_names = _uniq([mn for cn in mro for mn in classes[cn].members])
        for mn in member_names:
            if mn == "__init__":
                continue
            _, m = _lookup(mro, classes, mn)
            if isinstance(m, ast.FunctionDef):
                fx += explicit_freezes(m)
        for owner in _uniq([ev[3] for ev in events]):
            m = classes[owner].members.get("__init__")
            if isinstance(m, ast.FunctionDef):
                fx += explicit_freezes(m)
        fx = [x for x in _uniq(fx) if x in last]
        table.append({
            "name": name,
            "abstract": abstract,
            "mro": mro,
            "hashFrom": hash_owner or "",
            "eqFrom": ceq_owner or "",
            "dunderOk": dunder_ok,
            "hashByValue": (not (isinstance(hash_fn, ast.FunctionDef) and _calls_hash_array(hash_fn))) or by_value,
            "hashFields": hash_fields,
            "eqFields": _uniq([a for a, _ in eq_pairs]),
            "eqSameName": all(a == b for a, b in eq_pairs),
            "unknown": bool(why),
            "unknownWhy": "; ".join(why),
            "params": params,
            "caches": caches,
            "frozen": frozen,
            "frozenExplicit": fx,
            "aliases": aliases,
            "handAliases": hand,
        })
    return table


def _unknown_entry(name, why):
    return {
        "name": name, "abstract": False, "mro": [name], "hashFrom": "", "eqFrom": "", "dunderOk": False,
        "hashByValue": False, "hashFields": [], "eqFields": [], "eqSameName": False, "unknown": True, "unknownWhy": why,
        "params": [], "caches": [], "frozen": [], "frozenExplicit": [], "aliases": [], "handAliases": [],
    }


# ---------------------------------------------------------------------------------------------
# Lean output


def _s(x: str) -> str:
    return '"' + x.replace("\\", "\\\\").replace('"', '\\"').replace("\n", " ") + '"'


def _ls(xs) -> str:
    return "[" + ", ".join(_s(x) for x in xs) + "]"


def _lp(xs) -> str:
    return "[" + ", ".join(f"({_s(a)}, {_s(b)})" for a, b in xs) + "]"


def _b(x: bool) -> str:
    return "true" if x else "false"


HEADER = """/-
GENERATED by tools/extractors/matrix_eq.py from src/mici/matrices.py of the tree under test.
Do not edit; rewritten by every `./check C19` run.  Clean-tree copy: Generated.expected/MatrixEq.lean.

One entry per class of mici.matrices (inheritance resolved by a C3 linearisation over the parsed
class statements).  Field meanings: see MiciVerif/Model/MatricesEqTable.lean.

`aliases` are read off `@property def x(self): ... return self._x` bodies.
`handAliases` is the only hand-written part of the alias map (tools/extractors/matrix_eq.py,
HAND_ALIASES): the low-rank update constructors store one object under two names
  SymmetricLowRankUpdateMatrix:        factor_matrix = left_factor_matrix, symmetric_matrix = square_matrix,
                                       inner_symmetric_matrix = inner_square_matrix
  PositiveDefiniteLowRankUpdateMatrix: pos_def_matrix = symmetric_matrix, inner_pos_def_matrix = inner_symmetric_matrix
(right_factor_matrix is factor_matrix.T, a function of factor_matrix).  A pair is emitted only while
`self.<alias> = v` and `super().__init__(..., <target>=v, ...)` both occur in that constructor; the harness
checks `obj.<alias> is obj.<target>` on live objects.
-/
import MiciVerif.Model.MatricesEqTable

namespace MiciVerif.Generated.MatrixEq
open MiciVerif.MatricesEq

def table : List ClassEntry := [
"""


def render(table) -> str:
    rows = []
    for e in table:
        rows.append(
            "  { name := " + _s(e["name"]) + ", abstract := " + _b(e["abstract"]) + ",\n"
            "    mro := " + _ls(e["mro"]) + ",\n"
            "    hashFrom := " + _s(e["hashFrom"]) + ", eqFrom := " + _s(e["eqFrom"]) + ", dunderOk := " + _b(e["dunderOk"]) + ",\n"
            "    hashByValue := " + _b(e["hashByValue"]) + ",\n"
            "    hashFields := " + _ls(e["hashFields"]) + ",\n"
            "    eqFields := " + _ls(e["eqFields"]) + ", eqSameName := " + _b(e["eqSameName"]) + ",\n"
            "    unknown := " + _b(e["unknown"]) + ", unknownWhy := " + _s(e["unknownWhy"]) + ",\n"
            "    params := " + _ls(e["params"]) + ",\n"
            "    caches := " + _ls(e["caches"]) + ",\n"
            "    frozen := " + _ls(e["frozen"]) + ",\n"
            "    frozenExplicit := " + _ls(e["frozenExplicit"]) + ",\n"
            "    aliases := " + _lp(e["aliases"]) + ",\n"
            "    handAliases := " + _lp(e["handAliases"]) + " }"
        )
    return HEADER + ",\n".join(rows) + "\n]\n\nend MiciVerif.Generated.MatrixEq\n"


def emit(repo: Path, out: Path) -> None:
    try:
        table = extract(Path(repo))
    except Exception as e:  # noqa: BLE001  (fail closed, never crash the dispatcher)
        table = [_unknown_entry("<extractor-error>", f"{type(e).__name__}: {e}")]
    (Path(out) / "MatrixEq.lean").write_text(render(table))


if __name__ == "__main__":
    import json
    import sys

    print(json.dumps(extract(Path(sys.argv[1] if len(sys.argv) > 1 else "/repo")), indent=1))
