"""Translator plug-in: statistic tables of every transition class of mici/transitions.py.

For every class of `transitions.py` (pure `ast`, mici is never imported) the generated Lean table
`MiciVerif/Generated/StatTypes.lean` lists

* the statistic keys the class *declares* (`self._statistic_types = {...}` / `[...] = (dtype, fill)`
  in the `__init__` chain, or `statistic_types` returning `None`), with dtype kind and fill value;
* the keys its `sample` (following `return self._sample_n_step(...)`, `self._build_tree(..., stats,
  ...)` and module helpers that receive `stats`) really writes into the returned dictionary:
  `always` (on every path), `sometimes`, and `onError` (written only under
  `isinstance(exc, SomeError)`), minus keys removed with `stats.pop`;
* which error classes are raised by the methods of the class itself (`ownRaises`).

plus `libRaises`: error classes (with their ancestors) raised anywhere in the other library modules.

Fail-closed: any use of the statistics dictionary that is not understood (aliasing, non-constant
key, unknown callee, `update`, unusual return value, missing method, syntax the walker does not
know) sets `unknown := true` on the entry, which makes the decidable predicate
`MiciVerif.C13.keysOk` false.
"""
from __future__ import annotations

import ast
from pathlib import Path

TARGET = "StatTypes.lean"


class Unknown(Exception):
    pass


def _const_str(node):
    if isinstance(node, ast.Constant) and isinstance(node.value, str):
        return node.value
    return None


def _dtype_kind(node) -> str:
    src = ast.unparse(node)
    if src in ("np.int64", "np.int32", "int", "np.intp"):
        return "int"
    if src in ("np.float64", "np.float32", "float"):
        return "float"
    if src in ("bool", "np.bool_"):
        return "bool"
    return "other:" + src


def _fill(node) -> str:
    src = ast.unparse(node)
    return {"np.nan": "nan", "-1": "-1", "False": "False"}.get(src, "other:" + src)


def _decl_tuple(node):
    if isinstance(node, ast.Tuple) and len(node.elts) == 2:
        return _dtype_kind(node.elts[0]), _fill(node.elts[1])
    return "other:" + ast.unparse(node), "other"


def _is_self_stat_types(node) -> bool:
    return (
        isinstance(node, ast.Attribute) and node.attr == "_statistic_types"
        and isinstance(node.value, ast.Name) and node.value.id == "self"
    )


class ClassInfo:
    def __init__(self, node: ast.ClassDef):
        self.node = node
        self.name = node.name
        self.bases = [ast.unparse(b) for b in node.bases]
        self.methods = {n.name: n for n in node.body if isinstance(n, ast.FunctionDef)}
        self.abstract_methods = {
            n.name for n in self.methods.values()
            if any("abstract" in ast.unparse(d) for d in n.decorator_list)
        }


def init_declarations(ci: ClassInfo):
    """(list of (key, kind, fill), unknown) declared by this class's own __init__."""
    decl, unknown = [], False
    init = ci.methods.get("__init__")
    if init is None:
        return decl, unknown
    for node in ast.walk(init):
        if isinstance(node, ast.Assign):
            for tgt in node.targets:
                if _is_self_stat_types(tgt):
                    if isinstance(node.value, ast.Dict):
                        for k, v in zip(node.value.keys, node.value.values, strict=True):
                            ks = _const_str(k)
                            if ks is None:
                                unknown = True
                            else:
                                decl.append((ks, *_decl_tuple(v)))
                    else:
                        unknown = True
                elif isinstance(tgt, ast.Subscript) and _is_self_stat_types(tgt.value):
                    ks = _const_str(tgt.slice)
                    if ks is None:
                        unknown = True
                    else:
                        decl.append((ks, *_decl_tuple(node.value)))
        elif isinstance(node, (ast.AugAssign, ast.Delete)):
            if "_statistic_types" in ast.unparse(node):
                unknown = True
        elif isinstance(node, ast.Call) and "_statistic_types" in ast.unparse(node.func):
            unknown = True  # e.g. self._statistic_types.update(...)
    return decl, unknown


class Writes:
    """Result of analysing a statement list w.r.t. one dict variable."""

    def __init__(self):
        self.must: set[str] = set()
        self.may: set[str] = set()
        self.on_error: set[tuple[str, str]] = set()
        self.removed: set[str] = set()
        self.unknown = False


class Analyzer:
    def __init__(self, module: ast.Module, classes: dict[str, ClassInfo], mro: list[ClassInfo]):
        self.funcs = {n.name: n for n in module.body if isinstance(n, ast.FunctionDef)}
        self.classes = classes
        self.mro = mro
        self.stack: list[str] = []

    def find_method(self, name):
        for ci in self.mro:
            if name in ci.methods and name not in ci.abstract_methods:
                return ci.methods[name]
        return None

    # -- statements ------------------------------------------------------------------
    def block(self, stmts, var, guard=None) -> Writes:
        w = Writes()
        stopped = False  # a nested `return` was seen: later writes are no longer definite
        for s in stmts:
            sw = self.stmt(s, var, guard)
            w.may |= sw.may
            w.on_error |= sw.on_error
            w.removed |= sw.removed
            w.unknown |= sw.unknown
            if not stopped:
                w.must |= sw.must
            if any(isinstance(n, ast.Return) for n in ast.walk(s)) and not isinstance(s, ast.Return):
                stopped = True
        w.must -= w.removed
        return w

    def _merge(self, w: Writes, parts: list[Writes], must: set[str]):
        for p in parts:
            w.may |= p.may
            w.on_error |= p.on_error
            w.removed |= p.removed
            w.unknown |= p.unknown
        w.must |= must

    def stmt(self, s, var, guard) -> Writes:
        w = Writes()
        if isinstance(s, ast.If):
            g = self._isinstance_guard(s.test)
            b = self.block(s.body, var, g or guard)
            o = self.block(s.orelse, var, guard)
            self._merge(w, [b, o], b.must & o.must if g is None else set())
            self.expr_uses(s.test, var, w)
            return w
        if isinstance(s, (ast.For, ast.While)):
            b = self.block(s.body, var, guard)
            o = self.block(s.orelse, var, guard)
            self._merge(w, [b, o], set())
            self.expr_uses(s.iter if isinstance(s, ast.For) else s.test, var, w)
            return w
        if isinstance(s, ast.Try):
            b = self.block(s.body, var, guard)
            o = self.block(s.orelse, var, guard)
            hs = [self.block(h.body, var, guard) for h in s.handlers]
            f = self.block(s.finalbody, var, guard)
            normal = b.must | o.must
            must = normal
            for h in hs:
                must = must & h.must
            self._merge(w, [b, o, f, *hs], must | f.must)
            return w
        if isinstance(s, ast.With):
            b = self.block(s.body, var, guard)
            self._merge(w, [b], b.must)
            return w
        if isinstance(s, (ast.FunctionDef, ast.ClassDef, ast.Match, ast.AsyncFor, ast.AsyncWith)):
            if var in {n.id for n in ast.walk(s) if isinstance(n, ast.Name)}:
                w.unknown = True
            return w
        # simple statements -------------------------------------------------------------
        if isinstance(s, (ast.Assign, ast.AugAssign, ast.AnnAssign)):
            targets = s.targets if isinstance(s, ast.Assign) else [s.target]
            for t in targets:
                self.target(t, var, w, guard, s)
            if getattr(s, "value", None) is not None:
                self.expr_uses(s.value, var, w, guard)
            return w
        if isinstance(s, ast.Delete):
            for t in s.targets:
                if var in {n.id for n in ast.walk(t) if isinstance(n, ast.Name)}:
                    w.unknown = True
            return w
        for child in ast.iter_child_nodes(s):
            if isinstance(child, ast.expr):
                if isinstance(s, ast.Return):
                    continue  # return values are judged by the caller of `returned`
                self.expr_uses(child, var, w, guard)
        return w

    def _isinstance_guard(self, test):
        if (
            isinstance(test, ast.Call) and isinstance(test.func, ast.Name) and test.func.id == "isinstance"
            and len(test.args) == 2 and isinstance(test.args[1], ast.Name)
        ):
            return test.args[1].id
        return None

    def target(self, t, var, w: Writes, guard, stmt):
        if isinstance(t, ast.Subscript) and isinstance(t.value, ast.Name) and t.value.id == var:
            k = _const_str(t.slice)
            if k is None:
                w.unknown = True
            elif guard is not None:
                w.on_error.add((guard, k))
            else:
                w.must.add(k)
                w.may.add(k)
            return
        if isinstance(t, ast.Name) and t.id == var:
            # (re)binding of the variable: only a dict literal with constant keys is understood
            v = getattr(stmt, "value", None)
            if isinstance(stmt, ast.Assign) and isinstance(v, ast.Dict) and all(_const_str(k) is not None for k in v.keys):
                for k in v.keys:
                    w.must.add(_const_str(k))
                    w.may.add(_const_str(k))
            else:
                w.unknown = True
            return
        if isinstance(t, (ast.Tuple, ast.List)):
            for e in t.elts:
                self.target(e, var, w, guard, stmt)
            return
        if var in {n.id for n in ast.walk(t) if isinstance(n, ast.Name)}:
            w.unknown = True

    # -- expressions -----------------------------------------------------------------
    def expr_uses(self, e, var, w: Writes, guard=None):
        """Account for every occurrence of `var` inside expression `e`."""
        if e is None:
            return
        handled: set[int] = set()
        for node in ast.walk(e):
            if isinstance(node, ast.Call):
                f = node.func
                # stats.pop("k")
                if isinstance(f, ast.Attribute) and isinstance(f.value, ast.Name) and f.value.id == var:
                    handled.add(id(f.value))
                    if f.attr == "pop" and node.args and _const_str(node.args[0]) is not None:
                        w.removed.add(_const_str(node.args[0]))
                    elif f.attr in ("get", "keys", "items", "values", "copy"):
                        pass
                    else:
                        w.unknown = True
                    continue
                # helper(..., stats, ...) / self.method(..., stats, ...)
                for pos, a in enumerate(node.args):
                    if isinstance(a, ast.Name) and a.id == var:
                        handled.add(id(a))
                        self.call(f, pos, None, w, guard)
                for kw in node.keywords:
                    if isinstance(kw.value, ast.Name) and kw.value.id == var:
                        handled.add(id(kw.value))
                        self.call(f, None, kw.arg, w, guard)
            elif isinstance(node, ast.Subscript) and isinstance(node.value, ast.Name) and node.value.id == var:
                handled.add(id(node.value))  # read access stats["k"]
        for node in ast.walk(e):
            if isinstance(node, ast.Name) and node.id == var and id(node) not in handled:
                w.unknown = True  # aliasing / unknown use

    def call(self, f, pos, kwname, w: Writes, guard):
        fn = None
        offset = 0
        if isinstance(f, ast.Name) and f.id in self.funcs:
            fn = self.funcs[f.id]
        elif isinstance(f, ast.Attribute) and isinstance(f.value, ast.Name) and f.value.id == "self":
            fn = self.find_method(f.attr)
            offset = 1
        if fn is None:
            w.unknown = True
            return
        params = [a.arg for a in fn.args.args]
        if kwname is not None:
            pname = kwname if kwname in params else None
        else:
            pname = params[pos + offset] if pos + offset < len(params) else None
        if pname is None:
            w.unknown = True
            return
        key = f"{fn.name}:{pname}"
        if key in self.stack:
            return  # recursive call: contributes nothing new
        self.stack.append(key)
        try:
            cw = self.block(fn.body, pname, guard)
        finally:
            self.stack.pop()
        w.may |= cw.may
        w.on_error |= cw.on_error
        w.removed |= cw.removed
        w.unknown |= cw.unknown
        w.must |= cw.must

    # -- whole `sample` ----------------------------------------------------------------
    def returned(self, fn: ast.FunctionDef):
        """Analyse the statistics dictionary returned by method `fn`.
        Returns (returns_none, Writes)."""
        rets = [n for n in ast.walk(fn) if isinstance(n, ast.Return)]
        w = Writes()
        if len(rets) != 1 or fn.body[-1] is not rets[0]:
            w.unknown = True
            return False, w
        v = rets[0].value
        # return self._sample_n_step(...)
        if isinstance(v, ast.Call) and isinstance(v.func, ast.Attribute) and isinstance(v.func.value, ast.Name) \
                and v.func.value.id == "self":
            callee = self.find_method(v.func.attr)
            if callee is None or callee.name in self.stack:
                w.unknown = True
                return False, w
            self.stack.append(callee.name)
            try:
                return self.returned(callee)
            finally:
                self.stack.pop()
        if isinstance(v, ast.Tuple) and len(v.elts) == 2:
            second = v.elts[1]
            if isinstance(second, ast.Constant) and second.value is None:
                return True, w
            if isinstance(second, ast.Name):
                return False, self.block(fn.body, second.id)
        w.unknown = True
        return False, w


def lean_str(s: str) -> str:
    return '"' + s.replace("\\", "\\\\").replace('"', '\\"') + '"'


def lean_list(items) -> str:
    return "[" + ", ".join(items) + "]"


def emit(repo: Path, out: Path) -> None:
    src = repo / "src" / "mici"
    tree = ast.parse((src / "transitions.py").read_text())
    classes = {n.name: ClassInfo(n) for n in tree.body if isinstance(n, ast.ClassDef)}

    def mro(ci: ClassInfo) -> list[ClassInfo]:
        res = [ci]
        for b in ci.bases:
            if b in classes:
                for c in mro(classes[b]):
                    if c not in res:
                        res.append(c)
        return res

    # error hierarchy and raise sites --------------------------------------------------
    err_tree = ast.parse((src / "errors.py").read_text())
    err_base = {
        n.name: [ast.unparse(b) for b in n.bases] for n in err_tree.body if isinstance(n, ast.ClassDef)
    }

    def ancestors(e: str) -> list[str]:
        res = [e]
        for b in err_base.get(e, []):
            if b in err_base:
                res += [a for a in ancestors(b) if a not in res]
        return res

    def raised_in(node) -> set[str]:
        res = set()
        for n in ast.walk(node):
            if isinstance(n, ast.Raise) and n.exc is not None:
                f = n.exc.func if isinstance(n.exc, ast.Call) else n.exc
                name = f.id if isinstance(f, ast.Name) else (f.attr if isinstance(f, ast.Attribute) else None)
                if name in err_base:
                    res |= set(ancestors(name))
        return res

    lib_raises: set[str] = set()
    for f in sorted(src.glob("*.py")):
        if f.name in ("transitions.py", "errors.py"):
            continue
        lib_raises |= raised_in(ast.parse(f.read_text()))

    entries = []
    for ci in classes.values():
        if not any(c.name == "Transition" for c in mro(ci)):
            continue
        chain = mro(ci)
        unknown = False
        # declared -----------------------------------------------------------------
        prop = None
        for c in chain:
            if "statistic_types" in c.methods:
                prop = c.methods["statistic_types"]
                break
        declares_none = False
        if prop is None:
            unknown = True
        else:
            rets = [n for n in ast.walk(prop) if isinstance(n, ast.Return)]
            if len(rets) == 1 and isinstance(rets[0].value, ast.Constant) and rets[0].value.value is None:
                declares_none = True
            elif len(rets) == 1 and _is_self_stat_types(rets[0].value):
                pass
            else:
                unknown = True
        declared: dict[str, tuple[str, str]] = {}
        if not declares_none:
            for c in reversed(chain):
                d, u = init_declarations(c)
                unknown |= u
                for k, kind, fill in d:
                    declared[k] = (kind, fill)
        # written ------------------------------------------------------------------
        an = Analyzer(tree, classes, chain)
        sample = an.find_method("sample")
        abstract = sample is None
        returns_none = False
        w = Writes()
        if sample is not None:
            try:
                returns_none, w = an.returned(sample)
            except RecursionError:
                w.unknown = True
        unknown |= w.unknown
        always = sorted(w.must - w.removed)
        sometimes = sorted((w.may - w.must) - w.removed)
        on_error = sorted((e, k) for e, k in w.on_error if k not in w.must)
        own = set()
        for c in chain:
            own |= raised_in(c.node)
        entries.append(
            "  { name := " + lean_str(ci.name)
            + ",\n    abstract := " + str(abstract).lower()
            + ",\n    declaresNone := " + str(declares_none).lower()
            + ",\n    declared := " + lean_list(
                "{ key := " + lean_str(k) + ", kind := " + lean_str(v[0]) + ", fill := " + lean_str(v[1]) + " }"
                for k, v in declared.items())
            + ",\n    returnsNone := " + str(returns_none).lower()
            + ",\n    always := " + lean_list(lean_str(k) for k in always)
            + ",\n    sometimes := " + lean_list(lean_str(k) for k in sometimes)
            + ",\n    onError := " + lean_list("(" + lean_str(e) + ", " + lean_str(k) + ")" for e, k in on_error)
            + ",\n    ownRaises := " + lean_list(lean_str(e) for e in sorted(own))
            + ",\n    unknown := " + str(unknown).lower() + " }"
        )
    if not entries:
        entries.append(
            '  { name := "<no transition classes found>", abstract := false, declaresNone := false, declared := [],\n'
            "    returnsNone := false, always := [], sometimes := [], onError := [], ownRaises := [], unknown := true }"
        )
    text = (
        "/- GENERATED by tools/extractors/stat_types.py from src/mici/transitions.py — do not edit. -/\n"
        "namespace MiciVerif.Generated.StatTypes\n\n"
        "structure StatDecl where\n  key : String\n  kind : String\n  fill : String\n  deriving DecidableEq, Repr\n\n"
        "structure TransEntry where\n  name : String\n  abstract : Bool\n  declaresNone : Bool\n"
        "  declared : List StatDecl\n  returnsNone : Bool\n  always : List String\n  sometimes : List String\n"
        "  onError : List (String × String)\n  ownRaises : List String\n  unknown : Bool\n  deriving Repr\n\n"
        "/-- error classes (with ancestors) raised by library modules other than transitions.py -/\n"
        "def libRaises : List String := " + lean_list(lean_str(e) for e in sorted(lib_raises)) + "\n\n"
        "def table : List TransEntry := [\n" + ",\n".join(entries) + "\n]\n\n"
        "end MiciVerif.Generated.StatTypes\n"
    )
    target = out / TARGET
    if not target.exists() or target.read_text() != text:
        target.write_text(text)
