"""Translator plug-in `sampler_skeleton`: control skeleton of the chain / stage orchestration.

Reads `src/mici/samplers.py` of the tree under test (pure `ast`, mici is never imported) and
writes `lean/MiciVerif/Generated/SamplerSkeleton.lean`: for each of

    _sample_chain, _sample_chains_sequential, _sample_chains_worker, _sample_chains_parallel,
    _finalize_adapters, _collate_chain_outputs, _update_chain_stats, _flush_memmap_chain_data,
    MarkovChainMonteCarloMethod.sample_chains

a deep-embedded statement tree (`MiciVerif.Skel.S`, expressions `MiciVerif.Skel.E`, both defined in
`lean/MiciVerif/Model/SamplerSkeleton.lean`) plus the parameter list with defaults.  The theorems
of `Props/C13S.lean`, `C14S.lean`, `C15S.lean`, `C16K.lean` state that every generated tree equals
the expected tree written next to the hand model (`Model/SamplerSkeleton.lean`) and re-derive the
individual facts `Model/Sampler.lean` relies on (zero-iteration-stage skip, offset rule, statistics
before traces, return on interrupt before `_finalize_adapters`, ...) from the *generated* trees.

The translation is generic and total on the supported subset: every statement and every
expression of the function body is translated structurally, so any edit of the orchestration code
changes the generated tree.  What is dropped is an explicit allow-list (`_ignorable`):
docstrings, `logger.<level>(...)` calls, `msg = <string literal / f-string>`, `pass`, and a handful
of progress-bar / thread-pool statements that are matched by their exact (normalised) source
text.  Every dropped statement is listed in the generated `dropped` table, which is itself
compared with the expected list.

Fail closed: a statement kind outside the subset becomes `S.unknown "<source>"`, an expression
kind outside the subset `E.unk "<source>"`, a missing function / another parameter kind
`S.unknown "<reason>"`; the expected trees contain no such node and `Skel.S.known` (a decidable
predicate required by the theorems) is false on them.  Comprehensions, lambdas, dict displays and
f-strings are kept as *opaque but exact* normalised source text (`E.src`), so a change inside them
is still seen.  The extractor itself never raises: an exception while translating a function is
turned into `S.unknown "extractor error: ..."`.
"""
from __future__ import annotations

import ast
import traceback
from pathlib import Path

TARGET = "SamplerSkeleton.lean"

# (Lean name, python function name, class or None)
FUNCTIONS = [
    ("sampleChain", "_sample_chain", None),
    ("sampleChainsSequential", "_sample_chains_sequential", None),
    ("sampleChainsWorker", "_sample_chains_worker", None),
    ("sampleChainsParallel", "_sample_chains_parallel", None),
    ("finalizeAdapters", "_finalize_adapters", None),
    ("collateChainOutputs", "_collate_chain_outputs", None),
    ("updateChainStats", "_update_chain_stats", None),
    ("flushMemmapChainData", "_flush_memmap_chain_data", None),
    ("sampleChains", "sample_chains", "MarkovChainMonteCarloMethod"),
]

# statements dropped when their normalised source (ast.unparse) is exactly one of these
EXACT_IGNORABLE = {
    "_sample_chain": {
        "if monitor_stats is not None:\n"
        "    _update_monitor_stats(monitor_stats, monitor_dict, trans_key, trans_stats)",
    },
    "_sample_chains_worker": {
        "max_threads = common_kwargs.pop('max_threads_per_process', None)",
        "context = threadpool_limits(limits=max_threads) if THREADPOOLCTL_AVAILABLE else nullcontext()",
    },
    "_sample_chains_parallel": {
        "pbars[chain_index].update(sample_index, data_dict)",
    },
    "sample_chains": {
        "if not display_progress:\n"
        "    progress_bar_class = DummyProgressBar\n"
        "    sampling_stage_bar_class = DummyProgressBar\n"
        "elif progress_bar_class is None:\n"
        "    progress_bar_class = SequenceProgressBar\n"
        "    sampling_stage_bar_class = LabelledSequenceProgressBar",
    },
}


def lean_str(s: str) -> str:
    out = []
    for ch in s:
        if ch == "\\":
            out.append("\\\\")
        elif ch == '"':
            out.append('\\"')
        elif ch == "\n":
            out.append("\\n")
        elif ch == "\t":
            out.append("\\t")
        elif ord(ch) < 32 or ord(ch) == 127:
            out.append("\\x%02x" % ord(ch))
        else:
            out.append(ch)  # Lean sources are UTF-8
    return '"' + "".join(out) + '"'


def src_of(node) -> str:
    try:
        return ast.unparse(node)
    except Exception:  # noqa: BLE001
        return f"<{type(node).__name__}>"


# ----------------------------------------------------------------------------------------
# expressions


def dotted(node):
    """`a.b.c` as a string when the expression is a chain of attribute accesses of a name."""
    parts = []
    while isinstance(node, ast.Attribute):
        parts.append(node.attr)
        node = node.value
    if isinstance(node, ast.Name):
        parts.append(node.id)
        return ".".join(reversed(parts))
    return None


CMP = {
    ast.Eq: "==", ast.NotEq: "!=", ast.Lt: "<", ast.LtE: "<=", ast.Gt: ">", ast.GtE: ">=",
    ast.Is: "is", ast.IsNot: "is not", ast.In: "in", ast.NotIn: "not in",
}
BIN = {ast.Add: "+", ast.Sub: "-", ast.Mult: "*", ast.FloorDiv: "//", ast.Mod: "%"}


def elist(items) -> str:
    return "(E.l [" + ", ".join(items) + "])"


def expr(node) -> str:
    if node is None:
        return "E.none"
    d = dotted(node)
    if d is not None:
        return f"(.v {lean_str(d)})"
    if isinstance(node, ast.Constant):
        v = node.value
        if v is None:
            return "E.none"
        if v is True or v is False:
            return f"(.v {lean_str(str(v))})"
        if isinstance(v, int):
            return f"(.n ({v}))" if v < 0 else f"(.n {v})"
        if isinstance(v, str):
            return f"(.s {lean_str(v)})"
        return f"(.unk {lean_str(src_of(node))})"
    if isinstance(node, ast.Attribute):
        return f"(.attr {expr(node.value)} {lean_str(node.attr)})"
    if isinstance(node, ast.Call):
        args = []
        for a in node.args:
            args.append(expr(a))
        for k in node.keywords:
            if k.arg is None:
                args.append(f"(.kwstar {expr(k.value)})")
            else:
                args.append(f"(.kw {lean_str(k.arg)} {expr(k.value)})")
        f = dotted(node.func)
        if f is not None:
            return f"(.call {lean_str(f)} {elist(args)})"
        if isinstance(node.func, ast.Attribute):
            return f"(.meth {expr(node.func.value)} {lean_str(node.func.attr)} {elist(args)})"
        return f"(.unk {lean_str(src_of(node))})"
    if isinstance(node, ast.Subscript):
        if isinstance(node.slice, ast.Slice):
            return f"(.unk {lean_str(src_of(node))})"
        return f"(.sub {expr(node.value)} {expr(node.slice)})"
    if isinstance(node, ast.Compare):
        if len(node.ops) == 1 and type(node.ops[0]) in CMP:
            return f"(.op {lean_str(CMP[type(node.ops[0])])} {elist([expr(node.left), expr(node.comparators[0])])})"
        return f"(.unk {lean_str(src_of(node))})"
    if isinstance(node, ast.BoolOp):
        o = "and" if isinstance(node.op, ast.And) else "or"
        return f"(.op {lean_str(o)} {elist([expr(v) for v in node.values])})"
    if isinstance(node, ast.UnaryOp):
        if isinstance(node.op, ast.Not):
            return f"(.op \"not\" {elist([expr(node.operand)])})"
        if isinstance(node.op, ast.USub) and isinstance(node.operand, ast.Constant) and isinstance(node.operand.value, int) \
                and not isinstance(node.operand.value, bool):
            return f"(.n ({-node.operand.value}))"
        return f"(.unk {lean_str(src_of(node))})"
    if isinstance(node, ast.BinOp):
        if type(node.op) in BIN:
            return f"(.op {lean_str(BIN[type(node.op)])} {elist([expr(node.left), expr(node.right)])})"
        return f"(.unk {lean_str(src_of(node))})"
    if isinstance(node, ast.IfExp):
        return f"(.ite {expr(node.test)} {expr(node.body)} {expr(node.orelse)})"
    if isinstance(node, ast.Tuple):
        return f"(.tup {elist([expr(e) for e in node.elts])})"
    if isinstance(node, ast.List):
        return f"(.lst {elist([expr(e) for e in node.elts])})"
    if isinstance(node, ast.Starred):
        return f"(.star {expr(node.value)})"
    if isinstance(node, (ast.ListComp, ast.GeneratorExp, ast.DictComp, ast.SetComp, ast.Lambda, ast.Dict, ast.JoinedStr)):
        return f"(.src {lean_str(src_of(node))})"
    return f"(.unk {lean_str(src_of(node))})"


# ----------------------------------------------------------------------------------------
# statements


def _ignorable(stmt, fname: str):
    """Reason string when `stmt` is on the allow-list of statements the skeleton drops."""
    if isinstance(stmt, ast.Expr) and isinstance(stmt.value, ast.Constant) and isinstance(stmt.value.value, str):
        return None, True  # docstring / bare string: dropped, not even listed
    if isinstance(stmt, ast.Pass):
        return None, True
    if isinstance(stmt, ast.Expr) and isinstance(stmt.value, ast.Call):
        f = dotted(stmt.value.func)
        if f is not None and f.startswith("logger.") and f.count(".") == 1:
            return "logging", True
    if isinstance(stmt, ast.Assign) and len(stmt.targets) == 1 and isinstance(stmt.targets[0], ast.Name) \
            and stmt.targets[0].id == "msg" and isinstance(stmt.value, (ast.Constant, ast.JoinedStr)):
        return "message text", True
    if src_of(stmt) in EXACT_IGNORABLE.get(fname, ()):
        return "progress display / thread pool", True
    return None, False


class Tr:
    def __init__(self, fname: str):
        self.fname = fname
        self.dropped: list[tuple[str, str, str]] = []

    def block(self, stmts, ind: int) -> str:
        items = []
        for st in stmts:
            reason, drop = _ignorable(st, self.fname)
            if drop:
                if reason is not None:
                    self.dropped.append((self.fname, reason, src_of(st).split("\n")[0][:100]))
                continue
            items.append(self.stmt(st, ind + 2))
        if not items:
            return "(S.b [])"
        pad = " " * (ind + 2)
        return "(S.b [\n" + ",\n".join(pad + it for it in items) + "])"

    def stmt(self, st, ind: int) -> str:
        try:
            return self._stmt(st, ind)
        except Exception as e:  # noqa: BLE001
            return f".unknown {lean_str('extractor error: ' + repr(e)[:120] + ' at ' + src_of(st)[:80])}"

    def _stmt(self, st, ind: int) -> str:
        pad = " " * (ind + 2)
        if isinstance(st, ast.Expr):
            return f".expr {expr(st.value)}"
        if isinstance(st, ast.Assign):
            if len(st.targets) != 1:
                return f".unknown {lean_str(src_of(st))}"
            return f".assign {expr(st.targets[0])} {expr(st.value)}"
        if isinstance(st, ast.AugAssign):
            if type(st.op) not in BIN:
                return f".unknown {lean_str(src_of(st))}"
            return f".aug {expr(st.target)} {lean_str(BIN[type(st.op)])} {expr(st.value)}"
        if isinstance(st, ast.If):
            return (f".ifc {expr(st.test)}\n{pad}{self.block(st.body, ind + 2)}\n{pad}{self.block(st.orelse, ind + 2)}")
        if isinstance(st, ast.For):
            if st.orelse:
                return f".unknown {lean_str(src_of(st))}"
            return f".loop {expr(st.target)} {expr(st.iter)}\n{pad}{self.block(st.body, ind + 2)}"
        if isinstance(st, ast.While):
            if st.orelse:
                return f".unknown {lean_str(src_of(st))}"
            return f".while_ {expr(st.test)}\n{pad}{self.block(st.body, ind + 2)}"
        if isinstance(st, ast.Try):
            hs = []
            for h in st.handlers:
                hs.append(
                    f".handler {expr(h.type)} {lean_str(h.name or '')}\n{pad}    {self.block(h.body, ind + 6)}"
                )
            hblock = "(S.b [])" if not hs else "(S.b [\n" + ",\n".join(pad + "  " + h for h in hs) + "])"
            return (f".try_\n{pad}{self.block(st.body, ind + 2)}\n{pad}{hblock}\n"
                    f"{pad}{self.block(st.orelse, ind + 2)}\n{pad}{self.block(st.finalbody, ind + 2)}")
        if isinstance(st, ast.With):
            items = []
            for it in st.items:
                if it.optional_vars is None:
                    items.append(expr(it.context_expr))
                else:
                    items.append(f"(.as_ {expr(it.context_expr)} {expr(it.optional_vars)})")
            return f".with_ {elist(items)}\n{pad}{self.block(st.body, ind + 2)}"
        if isinstance(st, ast.Return):
            return f".ret {expr(st.value)}"
        if isinstance(st, ast.Raise):
            return f".raise_ {expr(st.exc)} {expr(st.cause)}"
        if isinstance(st, ast.Continue):
            return ".cont"
        if isinstance(st, ast.Break):
            return ".brk"
        return f".unknown {lean_str(src_of(st))}"


def find_function(tree, name, cls):
    body = tree.body
    if cls is not None:
        hits = [n for n in body if isinstance(n, ast.ClassDef) and n.name == cls]
        if len(hits) != 1:
            return None, f"class {cls}: {len(hits)} definitions"
        body = hits[0].body
    hits = [n for n in body if isinstance(n, ast.FunctionDef) and n.name == name]
    if len(hits) != 1:
        return None, f"function {name}: {len(hits)} definitions"
    return hits[0], ""


def signature(fn: ast.FunctionDef) -> str:
    """Parameter list: `.v name`, `.kw name default`, `.s "*"` before keyword-only parameters,
    `.star` / `.kwstar` for `*args` / `**kwargs`."""
    a = fn.args
    items = []
    pos = list(a.posonlyargs) + list(a.args)
    ndef = len(a.defaults)
    for i, p in enumerate(pos):
        j = i - (len(pos) - ndef)
        if j >= 0:
            items.append(f"(.kw {lean_str(p.arg)} {expr(a.defaults[j])})")
        else:
            items.append(f"(.v {lean_str(p.arg)})")
    if a.vararg is not None:
        items.append(f"(.star (.v {lean_str(a.vararg.arg)}))")
    elif a.kwonlyargs:
        items.append('(.s "*")')
    for p, dflt in zip(a.kwonlyargs, a.kw_defaults):
        if dflt is None:
            items.append(f"(.v {lean_str(p.arg)})")
        else:
            items.append(f"(.kw {lean_str(p.arg)} {expr(dflt)})")
    if a.kwarg is not None:
        items.append(f"(.kwstar (.v {lean_str(a.kwarg.arg)}))")
    if fn.decorator_list:
        items.append(f"(.unk {lean_str('decorated: ' + ', '.join(src_of(d) for d in fn.decorator_list))})")
    return elist(items)


HEADER = """/- GENERATED by tools/extractors/sampler_skeleton.py from src/mici/samplers.py of the tree under
   test.  Do not edit.  Control skeleton (statement trees `Skel.S`, expressions `Skel.E`) of the
   chain / stage orchestration; see the extractor's docstring for what is dropped (table `dropped`)
   and how it fails closed (`S.unknown`, `E.unk`). -/
import MiciVerif.Model.SamplerSkeleton
namespace MiciVerif.Generated.SamplerSkeleton
open MiciVerif.Skel

"""


def emit(repo: Path, out: Path) -> None:
    chunks = [HEADER]
    dropped: list[tuple[str, str, str]] = []
    try:
        tree = ast.parse((repo / "src" / "mici" / "samplers.py").read_text())
        err = ""
    except Exception as e:  # noqa: BLE001
        tree, err = None, "cannot parse samplers.py: " + repr(e)[:200]
    for lean_name, py_name, cls in FUNCTIONS:
        body = sig = None
        try:
            if tree is None:
                reason = err
            else:
                fn, reason = find_function(tree, py_name, cls)
                if fn is not None:
                    tr = Tr(py_name)
                    body = tr.block(fn.body, 0)
                    sig = signature(fn)
                    dropped += tr.dropped
        except Exception as e:  # noqa: BLE001
            reason = "extractor error: " + repr(e)[:200] + " " + traceback.format_exc()[-200:]
            body = None
        if body is None:
            body = f"(S.b [.unknown {lean_str(reason)}])"
            sig = f"(E.l [.unk {lean_str(reason)}])"
        where = (cls + "." if cls else "") + py_name
        chunks.append(f"/-- parameters of `{where}` -/\ndef {lean_name}Sig : E :=\n  {sig}\n\n")
        chunks.append(f"/-- body of `{where}` -/\ndef {lean_name} : S :=\n  {body}\n\n")
    rows = ",\n".join(f"  ({lean_str(f)}, {lean_str(r)}, {lean_str(s)})" for f, r, s in dropped)
    chunks.append(
        "/-- statements the extractor dropped: (function, allow-list entry, first line of the source) -/\n"
        "def dropped : List (String × String × String) := [\n" + rows + "]\n\n"
    )
    chunks.append("end MiciVerif.Generated.SamplerSkeleton\n")
    (out / TARGET).write_text("".join(chunks))
