"""Translator plug-in `state_skeleton`: the caching machinery of `src/mici/states.py` as statement trees.

Reads `src/mici/states.py` of the tree under test (pure `ast`, mici is never imported) and writes
`lean/MiciVerif/Generated/StateSkeleton.lean`: for each of

    _cache_key_func, cache_in_state, cache_in_state_with_aux   (the decorators with their nested
        `…_decorator` / `wrapper` functions), and the `ChainState` methods
    __init__, __getattr__, __setattr__, __contains__, copy, __getstate__, __setstate__

a deep-embedded statement tree (`MiciVerif.Skel.S` / `Skel.E` of `Model/SamplerSkeleton.lean`, the
types of builder B5's `sampler_skeleton` plug-in, reused unchanged) plus the parameter list with
defaults, and three tables: the names of all module-level definitions, the members and bases of
`class ChainState` (so that an added `__reduce__`, `__deepcopy__`, `__copy__`, `__delattr__`, a
base class, a second decorator ... is seen), and the dropped statements.  `Props/C09S.lean` /
`Props/C18S.lean` prove `generated = expected` (`Model/StateSkeleton.lean`, annotated with the
definitions of `Model/Cache.lean` each node justifies), re-derive the individual facts from the
generated trees, and prove that the reading `Skel.StateSem` of the generated bodies is the
corresponding operation of `Model/Cache.lean`.

Conventions (trusted; on top of those of `sampler_skeleton.py`, whose helper functions are imported
and whose `expr` / `Tr` are copied here and generalised):

* a nested function definition `@d1 @d2 def f(params): body` is the statement
  `.with_ (E.l [.call "def" (E.l [.s "f", .tup params, .lst [d1, d2]])]) body`
  (so `S.all`, `S.known` and the queries see through it);
* a dict display with string-literal keys `{"k": v, …}` is `.call "{dict}" (E.l [.kw "k" v, …])`
  (`{}` stays `.src "{}"`); a dict / list / set comprehension or generator expression with ONE
  `for` clause is `.call "{dictcomp}" | "[listcomp]" | "{setcomp}" | "(genexp)"` applied to
  `[.kw "key" k, .kw "value" v | .kw "elt" e, .kw "for" target, .kw "in" iter, .kw "if" c …]`;
  anything else of that kind is exact normalised source text (`.src`), as in `sampler_skeleton`;
* a call whose callee is neither a dotted name nor an attribute (`type(self)(…)`) is
  `.meth callee "__call__" args`;
* annotations and docstrings are dropped; `msg = <string / f-string>` is dropped and listed.

Fail closed exactly as `sampler_skeleton`: `S.unknown` / `E.unk` nodes for anything outside the
subset, for a missing / duplicated function, or for an exception inside the extractor; the expected
trees contain no such node and the `…_eq_model` theorems (and `skel_state_understood`) fail.
"""
from __future__ import annotations

import ast
import traceback
from pathlib import Path

from .sampler_skeleton import BIN, CMP, dotted, elist, lean_str, src_of

TARGET = "StateSkeleton.lean"

# (Lean name, python function name, class or None)
FUNCTIONS = [
    ("cacheKeyFunc", "_cache_key_func", None),
    ("cacheInState", "cache_in_state", None),
    ("cacheInStateWithAux", "cache_in_state_with_aux", None),
    ("init", "__init__", "ChainState"),
    ("getattr", "__getattr__", "ChainState"),
    ("setattr", "__setattr__", "ChainState"),
    ("contains", "__contains__", "ChainState"),
    ("copy", "copy", "ChainState"),
    ("getstate", "__getstate__", "ChainState"),
    ("setstate", "__setstate__", "ChainState"),
]


# ----------------------------------------------------------------------------------------
# expressions (copy of sampler_skeleton.expr, generalised: see the conventions above)


def _comp(node, tag: str, head: list[str]) -> str:
    if len(node.generators) != 1 or node.generators[0].is_async:
        return f"(.src {lean_str(src_of(node))})"
    g = node.generators[0]
    items = head + [f"(.kw \"for\" {expr(g.target)})", f"(.kw \"in\" {expr(g.iter)})"]
    items += [f"(.kw \"if\" {expr(c)})" for c in g.ifs]
    return f"(.call {lean_str(tag)} {elist(items)})"


def expr(node) -> str:  # noqa: C901, PLR0911, PLR0912
    if node is None:
        return "E.none"
    d = dotted(node)
    if d is not None:
        return f"(.v {lean_str(d)})"
    if isinstance(node, ast.Constant):
        v = node.value
        if v is None:
            return "E.none"
        if v is True or v is False:
            return f"(.v {lean_str(str(v))})"
        if isinstance(v, int):
            return f"(.n ({v}))" if v < 0 else f"(.n {v})"
        if isinstance(v, str):
            return f"(.s {lean_str(v)})"
        return f"(.unk {lean_str(src_of(node))})"
    if isinstance(node, ast.Attribute):
        return f"(.attr {expr(node.value)} {lean_str(node.attr)})"
    if isinstance(node, ast.Call):
        args = [expr(a) for a in node.args]
        for k in node.keywords:
            if k.arg is None:
                args.append(f"(.kwstar {expr(k.value)})")
            else:
                args.append(f"(.kw {lean_str(k.arg)} {expr(k.value)})")
        f = dotted(node.func)
        if f is not None:
            return f"(.call {lean_str(f)} {elist(args)})"
        if isinstance(node.func, ast.Attribute):
            return f"(.meth {expr(node.func.value)} {lean_str(node.func.attr)} {elist(args)})"
        return f"(.meth {expr(node.func)} \"__call__\" {elist(args)})"
    if isinstance(node, ast.Subscript):
        if isinstance(node.slice, ast.Slice):
            return f"(.unk {lean_str(src_of(node))})"
        return f"(.sub {expr(node.value)} {expr(node.slice)})"
    if isinstance(node, ast.Compare):
        if len(node.ops) == 1 and type(node.ops[0]) in CMP:
            return f"(.op {lean_str(CMP[type(node.ops[0])])} {elist([expr(node.left), expr(node.comparators[0])])})"
        return f"(.unk {lean_str(src_of(node))})"
    if isinstance(node, ast.BoolOp):
        o = "and" if isinstance(node.op, ast.And) else "or"
        return f"(.op {lean_str(o)} {elist([expr(v) for v in node.values])})"
    if isinstance(node, ast.UnaryOp):
        if isinstance(node.op, ast.Not):
            return f"(.op \"not\" {elist([expr(node.operand)])})"
        if isinstance(node.op, ast.USub) and isinstance(node.operand, ast.Constant) and isinstance(node.operand.value, int) \
                and not isinstance(node.operand.value, bool):
            return f"(.n ({-node.operand.value}))"
        return f"(.unk {lean_str(src_of(node))})"
    if isinstance(node, ast.BinOp):
        if type(node.op) in BIN:
            return f"(.op {lean_str(BIN[type(node.op)])} {elist([expr(node.left), expr(node.right)])})"
        return f"(.unk {lean_str(src_of(node))})"
    if isinstance(node, ast.IfExp):
        return f"(.ite {expr(node.test)} {expr(node.body)} {expr(node.orelse)})"
    if isinstance(node, ast.Tuple):
        return f"(.tup {elist([expr(e) for e in node.elts])})"
    if isinstance(node, ast.List):
        return f"(.lst {elist([expr(e) for e in node.elts])})"
    if isinstance(node, ast.Starred):
        return f"(.star {expr(node.value)})"
    if isinstance(node, ast.Dict):
        if node.keys and all(isinstance(k, ast.Constant) and isinstance(k.value, str) for k in node.keys):
            return f"(.call \"{{dict}}\" {elist([f'(.kw {lean_str(k.value)} {expr(v)})' for k, v in zip(node.keys, node.values)])})"
        return f"(.src {lean_str(src_of(node))})"
    if isinstance(node, ast.DictComp):
        return _comp(node, "{dictcomp}", [f"(.kw \"key\" {expr(node.key)})", f"(.kw \"value\" {expr(node.value)})"])
    if isinstance(node, ast.ListComp):
        return _comp(node, "[listcomp]", [f"(.kw \"elt\" {expr(node.elt)})"])
    if isinstance(node, ast.SetComp):
        return _comp(node, "{setcomp}", [f"(.kw \"elt\" {expr(node.elt)})"])
    if isinstance(node, ast.GeneratorExp):
        return _comp(node, "(genexp)", [f"(.kw \"elt\" {expr(node.elt)})"])
    if isinstance(node, (ast.Lambda, ast.JoinedStr)):
        return f"(.src {lean_str(src_of(node))})"
    return f"(.unk {lean_str(src_of(node))})"


# ----------------------------------------------------------------------------------------
# statements (copy of sampler_skeleton.Tr, plus nested function definitions)


def _ignorable(stmt):
    if isinstance(stmt, ast.Expr) and isinstance(stmt.value, ast.Constant) and isinstance(stmt.value.value, str):
        return None, True  # docstring / bare string
    if isinstance(stmt, ast.Pass):
        return None, True
    if isinstance(stmt, ast.Assign) and len(stmt.targets) == 1 and isinstance(stmt.targets[0], ast.Name) \
            and stmt.targets[0].id == "msg" and isinstance(stmt.value, (ast.Constant, ast.JoinedStr)):
        return "message text", True
    return None, False


def params(fn) -> list[str]:
    """Parameter list: `.v name`, `.kw name default`, `.s "*"` before keyword-only parameters,
    `.star` / `.kwstar` for `*args` / `**kwargs` (annotations dropped)."""
    a = fn.args
    items = []
    pos = list(a.posonlyargs) + list(a.args)
    ndef = len(a.defaults)
    for i, p in enumerate(pos):
        j = i - (len(pos) - ndef)
        if j >= 0:
            items.append(f"(.kw {lean_str(p.arg)} {expr(a.defaults[j])})")
        else:
            items.append(f"(.v {lean_str(p.arg)})")
    if a.posonlyargs:
        items.append(f"(.unk {lean_str('positional-only parameters')})")
    if a.vararg is not None:
        items.append(f"(.star (.v {lean_str(a.vararg.arg)}))")
    elif a.kwonlyargs:
        items.append('(.s "*")')
    for p, dflt in zip(a.kwonlyargs, a.kw_defaults):
        if dflt is None:
            items.append(f"(.v {lean_str(p.arg)})")
        else:
            items.append(f"(.kw {lean_str(p.arg)} {expr(dflt)})")
    if a.kwarg is not None:
        items.append(f"(.kwstar (.v {lean_str(a.kwarg.arg)}))")
    return items


class Tr:
    def __init__(self, fname: str):
        self.fname = fname
        self.dropped: list[tuple[str, str, str]] = []

    def block(self, stmts, ind: int) -> str:
        items = []
        for st in stmts:
            reason, drop = _ignorable(st)
            if drop:
                if reason is not None:
                    self.dropped.append((self.fname, reason, src_of(st).split("\n")[0][:100]))
                continue
            items.append(self.stmt(st, ind + 2))
        if not items:
            return "(S.b [])"
        pad = " " * (ind + 2)
        return "(S.b [\n" + ",\n".join(pad + it for it in items) + "])"

    def stmt(self, st, ind: int) -> str:
        try:
            return self._stmt(st, ind)
        except Exception as e:  # noqa: BLE001
            return f".unknown {lean_str('extractor error: ' + repr(e)[:120] + ' at ' + src_of(st)[:80])}"

    def _stmt(self, st, ind: int) -> str:  # noqa: C901, PLR0911, PLR0912
        pad = " " * (ind + 2)
        if isinstance(st, ast.Expr):
            return f".expr {expr(st.value)}"
        if isinstance(st, ast.Assign):
            if len(st.targets) != 1:
                return f".unknown {lean_str(src_of(st))}"
            return f".assign {expr(st.targets[0])} {expr(st.value)}"
        if isinstance(st, ast.AugAssign):
            if type(st.op) not in BIN:
                return f".unknown {lean_str(src_of(st))}"
            return f".aug {expr(st.target)} {lean_str(BIN[type(st.op)])} {expr(st.value)}"
        if isinstance(st, ast.If):
            return f".ifc {expr(st.test)}\n{pad}{self.block(st.body, ind + 2)}\n{pad}{self.block(st.orelse, ind + 2)}"
        if isinstance(st, ast.For):
            if st.orelse:
                return f".unknown {lean_str(src_of(st))}"
            return f".loop {expr(st.target)} {expr(st.iter)}\n{pad}{self.block(st.body, ind + 2)}"
        if isinstance(st, ast.While):
            if st.orelse:
                return f".unknown {lean_str(src_of(st))}"
            return f".while_ {expr(st.test)}\n{pad}{self.block(st.body, ind + 2)}"
        if isinstance(st, ast.Try):
            hs = []
            for h in st.handlers:
                hs.append(f".handler {expr(h.type)} {lean_str(h.name or '')}\n{pad}    {self.block(h.body, ind + 6)}")
            hblock = "(S.b [])" if not hs else "(S.b [\n" + ",\n".join(pad + "  " + h for h in hs) + "])"
            return (f".try_\n{pad}{self.block(st.body, ind + 2)}\n{pad}{hblock}\n"
                    f"{pad}{self.block(st.orelse, ind + 2)}\n{pad}{self.block(st.finalbody, ind + 2)}")
        if isinstance(st, ast.With):
            items = []
            for it in st.items:
                if it.optional_vars is None:
                    items.append(expr(it.context_expr))
                else:
                    items.append(f"(.as_ {expr(it.context_expr)} {expr(it.optional_vars)})")
            return f".with_ {elist(items)}\n{pad}{self.block(st.body, ind + 2)}"
        if isinstance(st, ast.FunctionDef):
            head = elist([f"(.s {lean_str(st.name)})", f"(.tup {elist(params(st))})",
                          f"(.lst {elist([expr(d) for d in st.decorator_list])})"])
            return f".with_ {elist([f'(.call \"def\" {head})'])}\n{pad}{self.block(st.body, ind + 2)}"
        if isinstance(st, ast.Return):
            return f".ret {expr(st.value)}"
        if isinstance(st, ast.Raise):
            return f".raise_ {expr(st.exc)} {expr(st.cause)}"
        if isinstance(st, ast.Continue):
            return ".cont"
        if isinstance(st, ast.Break):
            return ".brk"
        return f".unknown {lean_str(src_of(st))}"


def find_function(tree, name, cls):
    body = tree.body
    if cls is not None:
        hits = [n for n in body if isinstance(n, ast.ClassDef) and n.name == cls]
        if len(hits) != 1:
            return None, f"class {cls}: {len(hits)} definitions"
        body = hits[0].body
    hits = [n for n in body if isinstance(n, (ast.FunctionDef, ast.AsyncFunctionDef)) and n.name == name]
    if len(hits) != 1 or not isinstance(hits[0], ast.FunctionDef):
        return None, f"function {name}: {len(hits)} definitions"
    return hits[0], ""


def member_names(body) -> list[str]:
    """names bound by the statements of a module / class body, in order (docstrings and the
    `if TYPE_CHECKING:` import block are skipped; anything unexpected is listed by its source)"""
    out = []
    for st in body:
        if isinstance(st, ast.Expr) and isinstance(st.value, ast.Constant) and isinstance(st.value.value, str):
            continue
        if isinstance(st, (ast.Import, ast.ImportFrom)):
            continue
        if isinstance(st, ast.If) and src_of(st.test) == "TYPE_CHECKING" and not st.orelse \
                and all(isinstance(s, (ast.Import, ast.ImportFrom)) for s in st.body):
            continue
        if isinstance(st, (ast.FunctionDef, ast.AsyncFunctionDef)):
            deco = "".join("@" + src_of(d) + " " for d in st.decorator_list)
            out.append(deco + "def " + st.name)
        elif isinstance(st, ast.ClassDef):
            out.append("class " + st.name)
        else:
            out.append("stmt " + src_of(st).split("\n")[0][:100])
    return out


HEADER = """/- GENERATED by tools/extractors/state_skeleton.py from src/mici/states.py of the tree under test.
   Do not edit.  Statement trees (`Skel.S`, expressions `Skel.E`) of the memoising decorators and of
   the `ChainState` methods; see the extractor's docstring for the conventions (nested `def`, dict
   displays, comprehensions), for what is dropped (table `dropped`) and how it fails closed
   (`S.unknown`, `E.unk`). -/
import MiciVerif.Model.SamplerSkeleton
namespace MiciVerif.Generated.StateSkeleton
open MiciVerif.Skel

"""


def strlist(xs) -> str:
    return "[" + ", ".join(lean_str(x) for x in xs) + "]"


def emit(repo: Path, out: Path) -> None:
    chunks = [HEADER]
    dropped: list[tuple[str, str, str]] = []
    try:
        tree = ast.parse((repo / "src" / "mici" / "states.py").read_text())
        err = ""
    except Exception as e:  # noqa: BLE001
        tree, err = None, "cannot parse states.py: " + repr(e)[:200]
    for lean_name, py_name, cls in FUNCTIONS:
        body = sig = None
        reason = err
        try:
            if tree is not None:
                fn, reason = find_function(tree, py_name, cls)
                if fn is not None:
                    tr = Tr(py_name)
                    body = tr.block(fn.body, 0)
                    sig = elist(params(fn) + [f"(.unk {lean_str('decorated: ' + src_of(d))})" for d in fn.decorator_list])
                    dropped += tr.dropped
        except Exception as e:  # noqa: BLE001
            reason = "extractor error: " + repr(e)[:200] + " " + traceback.format_exc()[-200:]
            body = None
        if body is None:
            body = f"(S.b [.unknown {lean_str(reason)}])"
            sig = f"(E.l [.unk {lean_str(reason)}])"
        where = (cls + "." if cls else "") + py_name
        chunks.append(f"/-- parameters of `{where}` -/\ndef {lean_name}Sig : E :=\n  {sig}\n\n")
        chunks.append(f"/-- body of `{where}` -/\ndef {lean_name} : S :=\n  {body}\n\n")
    # tables: module members, ChainState members and bases
    try:
        mod_members = member_names(tree.body) if tree is not None else ["<" + err + ">"]
        classes = [n for n in tree.body if isinstance(n, ast.ClassDef) and n.name == "ChainState"] if tree is not None else []
        if len(classes) == 1:
            c = classes[0]
            cls_members = member_names(c.body)
            cls_bases = [src_of(b) for b in c.bases] + [f"{k.arg}={src_of(k.value)}" for k in c.keywords] \
                + ["@" + src_of(d) for d in c.decorator_list]
        else:
            cls_members, cls_bases = [f"<{len(classes)} definitions of ChainState>"], ["<unknown>"]
    except Exception as e:  # noqa: BLE001
        mod_members = cls_members = cls_bases = ["<extractor error: " + repr(e)[:200] + ">"]
    chunks.append("/-- module-level definitions of states.py (imports and the TYPE_CHECKING block skipped) -/\n"
                  f"def moduleMembers : List String :=\n  {strlist(mod_members)}\n\n")
    chunks.append("/-- members of `class ChainState`, in source order -/\n"
                  f"def chainStateMembers : List String :=\n  {strlist(cls_members)}\n\n")
    chunks.append("/-- bases / keywords / decorators of `class ChainState` -/\n"
                  f"def chainStateBases : List String :=\n  {strlist(cls_bases)}\n\n")
    rows = ",\n".join(f"  ({lean_str(f)}, {lean_str(r)}, {lean_str(s)})" for f, r, s in dropped)
    chunks.append(
        "/-- statements the extractor dropped: (function, allow-list entry, first line of the source) -/\n"
        "def dropped : List (String × String × String) := [\n" + rows + "]\n\n"
    )
    chunks.append("end MiciVerif.Generated.StateSkeleton\n")
    (out / TARGET).write_text("".join(chunks))
