#!/usr/bin/env python3
"""Regenerate MANIFEST.json from the harness modules that exist."""
import importlib, json, sys, os
sys.path.insert(0, os.path.join(os.path.dirname(__file__), ".."))
ALL = [f"C{i:02d}" for i in range(1, 21)]
BASE = "cd /repo && /venv/bin/python -m pytest -ra -q -p no:cacheprovider --timeout=900 --continue-on-collection-errors"
NA_REASON = json.load(open(os.path.join(os.path.dirname(__file__), "..", "not_applicable.json"))) if os.path.exists(os.path.join(os.path.dirname(__file__), "..", "not_applicable.json")) else {}
checks, na = [], []
for p in ALL:
    try:
        m = importlib.import_module(f"harness.{p.lower()}")
        assert hasattr(m, "LEVEL_TEXT")
    except Exception as e:
        if os.path.exists(os.path.join(os.path.dirname(__file__), "..", "harness", f"{p.lower()}.py")):
            raise SystemExit(f"harness/{p.lower()}.py exists but does not import cleanly ({type(e).__name__}: {e}); manifest NOT rewritten")
        na.append({"property_id": p, "reason": NA_REASON.get(p, "no check registered yet: model and harness for this property are still being built (see DESIGN.md section 5)")})
        continue
    checks.append({
        "property_id": p,
        "quick_cmd": f"./check {p} --tier quick",
        "thorough_cmd": f"./check {p} --tier thorough",
        "evidence_file": f"evidence/{p}.json",
        "replay_cmd_template": f"./check {p} --replay {{path}}",
        "engine": "lean4-proof+correspondence",
        "level_claimed": {"category": "proof", "text": m.LEVEL_TEXT, "design_ref": f"DESIGN.md section 5, {p}"},
        "level_note": m.LEVEL_NOTE,
        "technique": m.TECHNIQUE,
    })
man = {
    "version": 1,
    "setup_cmd": "./check --setup",
    "hooks": {"guard": "MICI_VERIF", "enable": "none needed: all observation points are reachable through the public API and user callbacks",
              "baseline_off_cmd": BASE, "source_commits": [], "add_only": True},
    "engines": [{"name": "lean4-proof+correspondence", "path": "lean/ + harness/ + check",
                 "serves_properties": [c["property_id"] for c in checks],
                 "kind_free_text": "Lean 4 models and theorems (lake project lean/MiciVerif), AST translator tools/extract.py, Python correspondence harness driving the real mici code and the Lean model through a line protocol"}],
    "checks": checks,
    "not_applicable": na,
    "notes": "fix: commits in /repo and their reverse patches are listed in known_findings.json and reverts/.",
}
json.dump(man, open(os.path.join(os.path.dirname(__file__), "..", "MANIFEST.json"), "w"), indent=1)
print("checks:", [c["property_id"] for c in checks], "n/a:", len(na))
