#!/bin/bash
# Regenerate MANIFEST.json from the COMMITTED harness modules (HEAD), not from the working tree
# (builders may have half-finished edits there).
set -e
cd "$(dirname "$0")/.."
d=$(mktemp -d /tmp/manifest-XXXXXX)
git archive HEAD | tar -x -C "$d"
(cd "$d" && /venv/bin/python tools/gen_manifest.py)
cp "$d/MANIFEST.json" MANIFEST.json
rm -rf "$d"
