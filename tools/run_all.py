#!/usr/bin/env python3
"""Run every registered check (quick by default) with several seeds; print a result table.
usage: tools/run_all.py [--tier quick] [--seeds 0,1,2] [--jobs 4] [C01 C02 ...]"""
import argparse, json, subprocess, sys, time, os
from concurrent.futures import ThreadPoolExecutor
ap = argparse.ArgumentParser()
ap.add_argument("props", nargs="*")
ap.add_argument("--tier", default="quick")
ap.add_argument("--seeds", default="0")
ap.add_argument("--jobs", type=int, default=4)
a = ap.parse_args()
root = os.path.join(os.path.dirname(os.path.abspath(__file__)), "..")
man = json.load(open(os.path.join(root, "MANIFEST.json")))
props = a.props or [c["property_id"] for c in man["checks"]]
def run(job):
    p, seed = job
    t0 = time.time()
    env = dict(os.environ, VERIF_SEED=str(seed), VERIF_EVIDENCE_DIR=f"/tmp/runall-ev/{seed}", VERIF_REPLAY_DIR=f"/tmp/runall-rp/{seed}")
    r = subprocess.run(["./check", p, "--tier", a.tier], cwd=root, env=env, capture_output=True, text=True)
    lines = [l for l in r.stdout.splitlines() if l.startswith(("VIOLATION", "OK", "MACHINERY", "KNOWN"))]
    return p, seed, r.returncode, time.time() - t0, lines
jobs = [(p, int(s)) for s in a.seeds.split(",") for p in props]
bad = 0
with ThreadPoolExecutor(a.jobs) as ex:
    for p, seed, rc, dt, lines in ex.map(run, jobs):
        tag = "ok  " if rc == 0 else "FAIL"
        bad += rc != 0
        print(f"{tag} {p} seed={seed} rc={rc} {dt:6.1f}s  " + " | ".join(l[:110] for l in lines[:3]), flush=True)
sys.exit(1 if bad else 0)
