#!/usr/bin/env python3
"""usage: tools/record_seed.py <seed_out_dir> <seed_id> <eval_result.json>  → seeded/<seed_id>/{patch.diff,demo.py,meta.json}"""
import json, os, shutil, sys
sd, sid, res = sys.argv[1:4]
rerun = sys.argv[4] if len(sys.argv) > 4 else None
note = sys.argv[5] if len(sys.argv) > 5 else None
root = os.path.join(os.path.dirname(os.path.abspath(__file__)), "..")
dst = os.path.join(root, "seeded", sid)
os.makedirs(dst, exist_ok=True)
shutil.copy(os.path.join(sd, "patch.diff"), dst)
shutil.copy(os.path.join(sd, "demo.py"), dst)
meta = json.load(open(os.path.join(sd, "meta.json"))) if os.path.exists(os.path.join(sd, "meta.json")) else {}
r = json.load(open(res))
meta["origin"] = "independent sub-agent given only the property text and a scratch worktree"
meta["confirmed_by_lead"] = {
    "demo_exit_clean_tree": r["demo_clean_exit"], "demo_exit_with_patch": r["demo_patched_exit"],
    "test_suite_with_patch": r["suite"],
    "what_was_run": "tools/eval_seed.sh (private worktree of /repo HEAD: demo.py clean, git apply patch.diff, demo.py, tools/baseline_check.py, ./check <props> with MICI_REPO)",
}
meta["checks"] = [{"check": c["check"], "exit": c["exit"],
                   "caught": c["exit"] == 1,
                   "concrete_replay": c["exit"] == 1 and "no-failing-input-found" not in c["violations"].split(";")[0] ,
                   "first_violation": c["detail"][:300]} for c in r["checks"]]
if rerun:
    r2 = json.load(open(rerun))
    meta["first_evaluation"] = meta.pop("checks")
    meta["checks"] = [{"check": c["check"], "exit": c["exit"], "caught": c["exit"] == 1,
                       "concrete_replay": c["exit"] == 1 and "no-failing-input-found" not in c["violations"].split(";")[0],
                       "first_violation": c["detail"][:300]} for c in r2["checks"]]
    meta["history"] = note
json.dump(meta, open(os.path.join(dst, "meta.json"), "w"), indent=1)
print(sid, [(c["check"], c["caught"], c["concrete_replay"]) for c in meta["checks"]])
