#!/usr/bin/env python3
"""Build sensitivity.md (included into DESIGN.md section 8 by tools/gen_design_tables.py) from
reverts/results.json (written by tools/run_reverts.sh) and seeded/*/meta.json."""
import glob, json, os
root = os.path.join(os.path.dirname(os.path.abspath(__file__)), "..")
out = []
rp = os.path.join(root, "reverts", "results.json")
if os.path.exists(rp):
    res = json.load(open(rp))
    out += ["### Reverse patches of the `fix:` commits (`reverts/*.diff`, run with `tools/try_patch.sh`)", "",
            "| revert | check | exit | concrete replay | first violation |", "|---|---|---|---|---|"]
    for name in sorted(res):
        r = res[name]
        out.append(f"| {name} | {r['check']} | {r['exit']} | {'yes' if r['concrete'] else 'NO'} | {r['first'][:160].replace('|', '/')} |")
    n = len(res); c = sum(1 for r in res.values() if r["exit"] == 1 and r["concrete"])
    out += ["", f"{c} of {n} reverts are flagged with a concrete failing input.", ""]
out += ["### Independently seeded changes (`seeded/<id>/`: patch.diff, demo.py, meta.json)", "",
        "Each was written by a fresh sub-agent that saw only the property text and a scratch worktree; the lead confirmed",
        "(tools/eval_seed.sh) that the demo passes on the clean tree and fails with the patch and that the pinned",
        "test-suite still passes with the patch, then ran the listed checks against the patched tree.", "",
        "| seed | property | needs (abridged) | checks: exit / concrete replay | note |", "|---|---|---|---|---|"]
tot = caught = 0
for d in sorted(glob.glob(os.path.join(root, "seeded", "*"))):
    mp = os.path.join(d, "meta.json")
    if not os.path.exists(mp):
        continue
    m = json.load(open(mp))
    cur = m.get("final_evaluation", {}).get("checks") or m.get("checks", [])
    chk = "; ".join(f"{c['check']}: {c['exit']} / {'yes' if c.get('concrete_replay') else 'no'}" for c in cur)
    own = [c for c in cur if c["check"] == m.get("property")]
    tot += 1
    caught += any(c.get("caught") for c in (own or cur))
    note = (m.get("history") or "")[:200].replace("|", "/").replace("\n", " ")
    needs = str(m.get("needs_to_manifest", ""))[:170].replace("|", "/").replace("\n", " ")
    out.append(f"| {os.path.basename(d)} | {m.get('property')} | {needs} | {chk} | {note} |")
out += ["", f"{caught} of {tot} seeded changes are flagged by the check of their property."]
bm = os.path.join(root, "reverts", "builders_mutations.md")
if os.path.exists(bm):
    out += ["", open(bm).read()]
open(os.path.join(root, "sensitivity.md"), "w").write("\n".join(out) + "\n")
print(f"sensitivity.md: {tot} seeds")
