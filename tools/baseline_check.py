#!/venv/bin/python
"""Run /repo's test-suite (xdist) and check every test of BASELINE.stable_pass still passes.

usage: tools/baseline_check.py [repo_dir]     exit 0 iff no stable test regressed.
"""
import json, subprocess, sys, tempfile, xml.etree.ElementTree as ET, os
repo = sys.argv[1] if len(sys.argv) > 1 else "/repo"
base = json.load(open("/root/.vp/BASELINE.json"))
stable = set(base["stable_pass"])
with tempfile.TemporaryDirectory() as d:
    x = os.path.join(d, "r.xml")
    env = dict(os.environ); env.pop("MICI_VERIF", None)
    env["PYTHONPATH"] = os.path.join(repo, "src")  # test the given tree, not the editable install
    subprocess.run(["/venv/bin/python", "-m", "pytest", "-q", "-p", "no:cacheprovider", "--timeout=900",
                    "--continue-on-collection-errors", "-n", "16", f"--junitxml={x}"],
                   cwd=repo, env=env, stdout=subprocess.DEVNULL, stderr=subprocess.DEVNULL)
    passed, failed = set(), set()
    for tc in ET.parse(x).getroot().iter("testcase"):
        name = f"{tc.get('classname')}::{tc.get('name')}"
        bad = any(c.tag in ("failure", "error") for c in tc)
        skipped = any(c.tag == "skipped" for c in tc)
        if bad: failed.add(name)
        elif not skipped: passed.add(name)
lost = sorted(stable - passed)
print(f"passed={len(passed)} failed={len(failed)} stable={len(stable)} regressed={len(lost)} newly_passing={len(passed - stable)}")
for n in lost[:20]: print("  REGRESSED", n)
sys.exit(1 if lost else 0)
