#!/bin/bash
# usage: tools/eval_seed.sh <seed_dir with patch.diff demo.py> <out_json> Cxx [Cyy ...]
# Confirms a seeded change in a private worktree: demo passes clean / fails patched, test-suite
# passes patched, then runs the given checks against the patched tree.
set -u
sd=$(realpath "$1"); out=$2; shift 2
wt=$(mktemp -d /tmp/wt-seed-XXXXXX)
git -C /repo worktree add -q --detach "$wt" HEAD || exit 3
trap 'git -C /repo worktree remove --force "$wt" >/dev/null 2>&1; rm -rf "$wt"' EXIT
cd "$wt"
PYTHONPATH="$wt/src" timeout 900 /venv/bin/python "$sd/demo.py" >/tmp/eval_seed_clean.$$ 2>&1; clean=$?
git apply "$sd/patch.diff" || { echo "PATCH DOES NOT APPLY"; exit 3; }
PYTHONPATH="$wt/src" timeout 900 /venv/bin/python "$sd/demo.py" >/tmp/eval_seed_patched.$$ 2>&1; patched=$?
suite="skipped"
if [ "${SUITE:-1}" = "1" ]; then suite=$(/verif/tools/baseline_check.py "$wt" | head -1); fi
cd /verif
res=""
for p in "$@"; do
  o=$(MICI_REPO="$wt" VERIF_EVIDENCE_DIR="$wt/.evidence" VERIF_REPLAY_DIR="$wt/.replays" timeout 3000 ./check "$p" --tier "${TIER:-quick}" 2>&1); rc=$?
  v=$(echo "$o" | grep -E "^VIOLATION" | head -3 | tr '\n' ';'); d=$(echo "$o" | grep -A1 -E "^VIOLATION" | grep "^  " | head -2 | tr '\n' ';' | cut -c1-400)
  res="$res{\"check\":\"$p\",\"exit\":$rc,\"violations\":\"$(echo $v | sed 's/"/\\"/g')\",\"detail\":\"$(echo $d | sed 's/\\/\\\\/g; s/"/\\"/g')\"},"
done
echo "{\"seed\":\"$sd\",\"demo_clean_exit\":$clean,\"demo_patched_exit\":$patched,\"suite\":\"$suite\",\"checks\":[${res%,}]}" > "$out"
cat "$out"; rm -f /tmp/eval_seed_clean.$$ /tmp/eval_seed_patched.$$
