"""C17 — adapters compute the estimators they document, for any history.

Model: lean/MiciVerif/Model/Adapters.lean (Welford, Chan / Schubert-Gertz merge, regularisation,
metric, dual averaging, initial step-size search); theorems lean/MiciVerif/Props/C17.lean.

Tie (X): the real adapters are driven on dyadic-rational inputs and compared with the exact
rational model through Driver/C17.lean: Welford states after every update, merged and
regularised variance / covariance and resulting ``system.metric`` for random partitions
(very unequal, empty chains, several chain orders), dual-averaging state after every update
(the model receives ``iter**0.5`` and ``(1/iter)**kappa`` as data, computed here as documented),
initial search against scripted |delta h| profiles incl. integrator errors, NaN and inf.

Direct oracles on the real code (failing-input search): pooled NumPy batch formulas, large
offsets (numerical stability, *testing*), momentum refresh, dict vs list finalize, reducers,
closed form of the dual-averaging error, crossing property of the initial search.
"""
from __future__ import annotations

import copy
import math
import signal
import types
from fractions import Fraction

import numpy as np

from . import common

PROP = "C17"
LEAN_MODULES = ["MiciVerif.Props.C17", "MiciVerif.Props.C17S"]
# Generated/AdaptersSrc.lean: the scalar arithmetic of adapters.py translated to Lean on every run;
# Props/C17S.lean proves generated = model (src_*_eq_model) and transports C17 theorems
GENERATED = ["pysrc"]
LEAN_EXTRA = [
    "MiciVerif.Model.Adapters",
    "MiciVerif.Lemmas.Adapters",
    "MiciVerif.Lemmas.AdaptersSearch",
    "MiciVerif.Proto",
]

LOG2 = math.log(2)


class _Timeout(Exception):
    pass


def _with_timeout(fn, secs=20.0):
    def handler(signum, frame):  # noqa: ARG001
        raise _Timeout

    old = signal.signal(signal.SIGALRM, handler)
    signal.setitimer(signal.ITIMER_REAL, secs)
    try:
        return fn()
    finally:
        signal.setitimer(signal.ITIMER_REAL, 0)
        signal.signal(signal.SIGALRM, old)


# ---------------------------------------------------------------------------------------
# protocol helpers


def mat_str(rows) -> str:
    rows = [list(r) for r in rows]
    if not rows:
        return "[]"
    return "[" + ",".join(common.vstr(r) for r in rows) + "]"


def parse_mat(s: str):
    s = s.strip()
    assert s[0] == "[" and s[-1] == "]", s
    body = s[1:-1].strip()
    if not body:
        return []
    rows = body.split("],[")
    out = []
    for i, r in enumerate(rows):
        if i > 0:
            r = "[" + r
        if i + 1 < len(rows):
            r = r + "]"
        out.append(common.parse_vec(r))
    return out


def kv(line: str) -> dict:
    d = {}
    for tok in line.split(" "):
        if "=" in tok:
            k, v = tok.split("=", 1)
            d[k] = v
        else:
            d[tok] = True
    return d


def vec_close(impl, model, rtol=1e-9, atol=1e-11) -> bool:
    impl = np.asarray(impl, dtype=float).ravel()
    model = np.array([float(x) for x in np.asarray(model, dtype=object).ravel()], dtype=float)
    if impl.shape != model.shape:
        return False
    if not np.all(np.isfinite(impl)):
        return False
    scale = max(1.0, float(np.max(np.abs(model))) if model.size else 1.0)
    return bool(np.all(np.abs(impl - model) <= atol * scale + rtol * np.maximum(np.abs(model), 0)
                       + rtol * 1e-3 * scale))


def max_close(impl, model, rtol) -> bool:
    """Matrix comparison in max-norm relative to the largest model entry."""
    impl = np.asarray(impl, dtype=float)
    model = np.array([[float(x) for x in r] for r in model], dtype=float)
    if impl.shape != model.shape or not np.all(np.isfinite(impl)):
        return False
    return bool(np.max(np.abs(impl - model)) <= rtol * max(1e-300, np.max(np.abs(model))))


# ---------------------------------------------------------------------------------------
# driving the real adapters


def _system():
    import mici

    return mici.systems.EuclideanMetricSystem(
        neg_log_dens=lambda q: 0.5 * float(q @ q), grad_neg_log_dens=lambda q: q
    )


def _state(pos):
    import mici

    pos = np.array(pos, dtype=np.float64)
    return mici.states.ChainState(pos=pos, mom=np.zeros_like(pos), dir=1)


def _adapter(kind, off=5, scale=1e-3):
    import mici

    cls = mici.adapters.OnlineVarianceMetricAdapter if kind == "var" else mici.adapters.OnlineCovarianceMetricAdapter
    return cls(reg_iter_offset=off, reg_scale=scale)


def impl_welford(kind, positions):
    """States of the real adapter after each update: list of (mean, sums) copies."""
    ad = _adapter(kind)
    tr = types.SimpleNamespace(system=_system(), integrator=None)
    cs = _state(positions[0])
    st = ad.initialize(cs, tr)
    key = "sum_diff_sq" if kind == "var" else "sum_diff_outer"
    out = []
    for x in positions:
        cs.pos = np.array(x, dtype=np.float64)
        ad.update(st, cs, {}, tr)
        out.append((int(st["iter"]), st["mean"].copy(), st[key].copy()))
    return out


def impl_finalize(kind, off, scale, chains, dim, as_dict=False, seeds=None, mom_sentinel=7.0):
    """Run initialize/update per chain and finalize on the real adapter.

    Returns dict(error=..) or dict(est=<regularised estimate array (modified in place by the
    adapter)>, metric=<array>, diag=<diagonal or None>, moms=[..], expected_moms=[..], states=..).
    """
    import mici

    ad = _adapter(kind, off, scale)
    system = _system()
    tr = types.SimpleNamespace(system=system, integrator=None)
    key = "sum_diff_sq" if kind == "var" else "sum_diff_outer"
    ad_states, ch_states = [], []
    for c in chains:
        cs = _state(np.zeros(dim))
        st = ad.initialize(cs, tr)
        for x in c:
            cs.pos = np.array(x, dtype=np.float64)
            ad.update(st, cs, {}, tr)
        cs.mom = np.full(dim, mom_sentinel)
        ad_states.append(st)
        ch_states.append(cs)
    seeds = seeds if seeds is not None else list(range(100, 100 + len(chains)))
    rngs = [np.random.default_rng(s) for s in seeds]
    clones = [copy.deepcopy(r) for r in rngs]
    est_ref = ad_states[0][key]
    mean_ref = ad_states[0]["mean"]
    res = {}
    try:
        with np.errstate(all="ignore"):
            if as_dict:
                assert len(chains) == 1
                ad.finalize(ad_states[0], ch_states[0], tr, rngs[0])
            else:
                ad.finalize(ad_states, ch_states, tr, rngs)
    except mici.errors.AdaptationError:
        return {"error": "AdaptationError"}
    res["est"] = np.array(est_ref, dtype=float)
    res["mean"] = np.array(mean_ref, dtype=float)
    m = system.metric
    res["metric_type"] = type(m).__name__
    with np.errstate(all="ignore"):
        res["metric"] = np.array(m.array, dtype=float)
        res["moms"] = [np.array(cs.mom, dtype=float) for cs in ch_states]
        res["expected_moms"] = [
            np.array(system.sample_momentum(cs, cl), dtype=float) for cs, cl in zip(ch_states, clones, strict=True)
        ]
    res["z"] = [np.random.default_rng(s).standard_normal(dim) for s in seeds]
    res["rng_advanced"] = [
        r.bit_generator.state != np.random.default_rng(s).bit_generator.state for r, s in zip(rngs, seeds, strict=True)
    ]
    return res


# ---------------------------------------------------------------------------------------
# generators


def dyadic(rng, shape, mag_bits=3, frac_bits=4):
    lim = 1 << (mag_bits + frac_bits)
    return rng.integers(-lim, lim + 1, size=shape).astype(np.float64) / (1 << frac_bits)


def random_partition(rng, n, allow_empty=True):
    """Split range(n) into consecutive chains; styles incl. very unequal and empty chains."""
    style = int(rng.integers(0, 6))
    if style == 0:
        k = 1
        sizes = [n]
    elif style == 1:  # very unequal: one chain holds almost everything
        k = int(rng.integers(2, 6))
        small = [int(rng.integers(0 if allow_empty else 1, 2)) for _ in range(k - 1)]
        small = [min(s, max(0, n - 1)) for s in small]
        while sum(small) > n:
            small[small.index(max(small))] -= 1
        big = n - sum(small)
        pos = int(rng.integers(0, k))
        sizes = small[:pos] + [big] + small[pos:]
    elif style == 2:  # singletons first then the rest
        k = int(rng.integers(2, 5))
        ones = min(n, k - 1)
        sizes = [1] * ones + [n - ones]
    else:
        k = int(rng.integers(2, 7))
        cuts = sorted(int(x) for x in rng.integers(0, n + 1, size=k - 1))
        sizes = [b - a for a, b in zip([0, *cuts], [*cuts, n], strict=True)]
    if not allow_empty:
        sizes = [s for s in sizes if s > 0] or [n]
    return sizes


def split(data, sizes):
    out, i = [], 0
    for s in sizes:
        out.append([list(map(float, r)) for r in data[i:i + s]])
        i += s
    return out


def nan_expected(chains):
    return len(chains) >= 2 and len(chains[0]) == 0 and len(chains[1]) == 0


# ---------------------------------------------------------------------------------------
# direct oracles (the property statement on the real code); each returns a list of failures


def _reg(est, n, off, scale, kind):
    est = np.array(est, dtype=np.longdouble)
    if kind == "var":
        if off:
            return est * (n / (off + n)) + scale * (off / (off + n))
        return est
    out = est * (n / (off + n))
    out[np.diag_indices_from(out)] += scale * (off / (off + n))
    return out


def _degenerate_estimate(kind, pooled, n, off, scale, dim):
    """True iff the regularised pooled estimate is (numerically) not positive definite."""
    with np.errstate(all="ignore"):
        if kind == "var":
            w = np.asarray(_reg(np.var(pooled.astype(np.longdouble), axis=0, ddof=1), n, off, scale, "var"), dtype=np.float64)
            return bool(np.any(~(w > 1e-300)))
        cov = np.array([[np.var(pooled.astype(np.longdouble)[:, 0], ddof=1)]]) if dim == 1 else np.cov(pooled.T, ddof=1)
        w = np.array(_reg(cov, n, off, scale, "cov"), dtype=np.float64)
        ev = np.linalg.eigvalsh((w + w.T) / 2)
        return bool(ev[0] <= 1e-13 * max(1.0, ev[-1]))


def oracle_batch(case):
    """Adapter metric == inverse of the regularised pooled sample (co)variance (NumPy batch
    formulas with ddof=1), AdaptationError iff fewer than two positions."""
    kind, off, scale, chains, dim = case["kind"], case["off"], case["scale"], case["chains"], case["dim"]
    bad = []
    pooled = np.array([x for c in chains for x in c], dtype=np.float64).reshape(-1, dim)
    n = pooled.shape[0]
    try:
        res = _with_timeout(lambda: impl_finalize(kind, off, scale, chains, dim, as_dict=case.get("as_dict", False)))
    except _Timeout:
        return ["finalize did not return"]
    except Exception as e:  # noqa: BLE001
        # a regularised estimate that is not positive definite (e.g. identical positions and
        # reg_iter_offset = 0: sample variance exactly 0) has no inverse: the library rejects it with the matrix
        # constructors' ValueError / LinAlgError; that is outside "the inverse of the regularised estimate"
        if n >= 2 and _degenerate_estimate(kind, pooled, n, off, scale, dim) and type(e).__name__ in (
                "ValueError", "LinAlgError", "AdaptationError"):
            return []
        return [f"finalize raised {type(e).__name__}: {e}"]
    if n < 2:
        if "error" not in res:
            bad.append(f"{n} position(s) in total but no AdaptationError")
        return bad
    if "error" in res:
        return [f"AdaptationError although {n} >= 2 positions were seen"]
    rtol = case.get("rtol", 1e-8)
    if kind == "var":
        want = _reg(np.var(pooled.astype(np.longdouble), axis=0, ddof=1), n, off, scale, "var")
        want_metric = np.diag(np.array(1.0 / want, dtype=np.float64))
        if res["metric_type"] != "PositiveDiagonalMatrix":
            bad.append(f"metric is a {res['metric_type']}, expected PositiveDiagonalMatrix")
    else:
        if dim == 1:
            cov = np.array([[np.var(pooled.astype(np.longdouble)[:, 0], ddof=1)]])
        else:
            cov = np.cov(pooled.T, ddof=1)
        want = _reg(cov, n, off, scale, "cov")
        want_metric = np.linalg.inv(np.array(want, dtype=np.float64))
        rtol = max(rtol, 1e-13 * np.linalg.cond(np.array(want, dtype=np.float64)))
        if res["metric_type"] != "DensePositiveDefiniteMatrix":
            bad.append(f"metric is a {res['metric_type']}, expected DensePositiveDefiniteMatrix")
    got = res["metric"]
    if got.shape != want_metric.shape or not np.all(np.isfinite(got)):
        bad.append(f"metric not finite / wrong shape: {got.tolist()}")
    else:
        err = float(np.max(np.abs(got - want_metric)) / max(1e-300, np.max(np.abs(want_metric))))
        if err > rtol:
            bad.append(
                f"metric differs from inverse of regularised pooled sample {'variance' if kind == 'var' else 'covariance'}"
                f" (rel. max-norm error {err:.3g} > {rtol:.1g}); got {got.tolist()} want {want_metric.tolist()}"
            )
    return bad


def oracle_offset(case):
    """Numerical stability (testing): positions 1e8 +- 1 vs exact rational arithmetic."""
    kind, chains, dim = case["kind"], case["chains"], case["dim"]
    pooled = [x for c in chains for x in c]
    n = len(pooled)
    try:
        res = _with_timeout(lambda: impl_finalize(kind, 0, 1e-3, chains, dim))
    except Exception as e:  # noqa: BLE001
        return [f"finalize raised {type(e).__name__}: {e}"]
    if "error" in res:
        return ["AdaptationError with >= 2 positions"]
    cols = [[common.frac(x[i]) for x in pooled] for i in range(dim)]
    means = [sum(c) / n for c in cols]

    def cov(a, b):
        return sum((x - means[a]) * (y - means[b]) for x, y in zip(cols[a], cols[b], strict=True)) / (n - 1)

    bad = []
    tol = case.get("tol", 1e-4)
    if kind == "var":
        got = 1.0 / np.diag(res["metric"])
        for i in range(dim):
            w = float(cov(i, i))
            if not (abs(got[i] - w) <= tol * w):
                bad.append(f"variance of component {i} with offset 1e8: got {got[i]!r}, exact {w!r} (tol {tol:g} relative)")
    else:
        got = res["est"]  # regularisation with offset 0 is the identity
        scale_ = max(float(cov(i, i)) for i in range(dim))
        for a in range(dim):
            for b in range(dim):
                w = float(cov(a, b))
                if not (abs(got[a, b] - w) <= tol * scale_):
                    bad.append(f"covariance entry ({a},{b}) with offset 1e8: got {got[a, b]!r}, exact {w!r}")
    return bad[:3]


def oracle_momenta(case):
    """After finalize every chain's momentum is a fresh draw from its own generator under the
    new metric; dict and one-element list give the same metric."""
    kind, off, scale, chains, dim = case["kind"], case["off"], case["scale"], case["chains"], case["dim"]
    try:
        res = _with_timeout(lambda: impl_finalize(kind, off, scale, chains, dim, seeds=case["seeds"],
                                                  as_dict=case.get("as_dict", False)))
    except Exception as e:  # noqa: BLE001
        return [f"finalize raised {type(e).__name__}: {e}"]
    if "error" in res:
        return []
    bad = []
    for i, (m, e, z) in enumerate(zip(res["moms"], res["expected_moms"], res["z"], strict=True)):
        if np.array_equal(m, np.full(dim, 7.0)):
            bad.append(f"momentum of chain {i} not refreshed after the metric changed")
            continue
        if not np.array_equal(m, e):
            bad.append(f"momentum of chain {i} is not sample_momentum(state, rngs[{i}]) under the new metric")
        if kind == "var":
            w = np.sqrt(np.diag(res["metric"])) * z
            if not np.allclose(m, w, rtol=1e-12, atol=0):
                bad.append(f"momentum of chain {i} != sqrt(new metric) * standard normal draw of its generator")
        if not res["rng_advanced"][i]:
            bad.append(f"generator of chain {i} was not used")
    if len(chains) == 1 and not case.get("as_dict", False):
        res2 = impl_finalize(kind, off, scale, chains, dim, seeds=case["seeds"], as_dict=True)
        if "error" in res2 or not np.array_equal(res2["metric"], res["metric"]):
            bad.append("finalize with a dict and with a one-element list give different metrics")
    return bad


def _da_adapter(p, reducer=None):
    import mici

    return mici.adapters.DualAveragingStepSizeAdapter(
        adapt_stat_target=p["target"], log_step_size_reg_target=p["reg_target"],
        log_step_size_reg_coefficient=p["reg_coeff"], iter_decay_coeff=p["kappa"], iter_offset=p["iter_offset"],
        log_step_size_reducer=reducer,
    )


def impl_da(p, alphas, smoothed0=0.0):
    ad = _da_adapter(p)
    integ = types.SimpleNamespace(step_size=None)
    tr = types.SimpleNamespace(integrator=integ, system=None)
    st = {"iter": 0, "smoothed_log_step_size": smoothed0, "adapt_stat_error": 0.0,
          "log_step_size_reg_target": p["reg_target"]}
    out = []
    for a in alphas:
        ad.update(st, None, {"accept_stat": a}, tr)
        out.append((int(st["iter"]), float(st["adapt_stat_error"]), float(st["smoothed_log_step_size"]),
                    float(integ.step_size)))
    return out, st


def oracle_da(case):
    p, alphas = case["params"], case["alphas"]
    bad = []
    try:
        hist, st = impl_da(p, alphas)
        hist2, _ = impl_da(p, alphas, smoothed0=123.0)
    except Exception as e:  # noqa: BLE001
        return [f"update raised {type(e).__name__}: {e}"]
    t0, delta = Fraction(p["iter_offset"]), common.frac(p["target"])
    acc = Fraction(0)
    logs = []
    for m, (it, err, sm, step) in enumerate(hist, 1):
        acc += delta - common.frac(alphas[m - 1])
        want = float(acc / (t0 + m))
        if it != m:
            bad.append(f"iter after {m} updates is {it}")
        if not common.close(err, want, rtol=1e-9, atol=1e-13):
            bad.append(f"adapt_stat_error after {m} updates {err!r} != sum(target - stat)/(iter_offset + m) = {want!r}")
            break
        if not (step > 0 and math.isfinite(step)):
            bad.append(f"step size after {m} updates is {step!r} (not positive finite)")
            break
        want_log = p["reg_target"] - want * math.sqrt(m) / p["reg_coeff"]
        if not common.close(math.log(step), want_log, rtol=1e-9, atol=1e-9):
            bad.append(f"step size after {m} updates {step!r} != exp(reg_target - error*sqrt(m)/coeff) = {math.exp(want_log)!r}")
            break
        logs.append(math.log(step))
        lo, hi = min(logs), max(logs)
        if not (lo - 1e-9 * (1 + abs(lo)) <= sm <= hi + 1e-9 * (1 + abs(hi))):
            bad.append(f"smoothed_log_step_size {sm!r} outside hull [{lo!r},{hi!r}] of the log step sizes tried")
            break
        if not common.close(sm, hist2[m - 1][2], rtol=1e-12, atol=1e-12):
            bad.append(f"smoothed_log_step_size after {m} updates depends on its arbitrary initial value "
                       f"({sm!r} from 0.0, {hist2[m - 1][2]!r} from 123.0)")
            break
    # expected smoothed by the documented recursion with weights m^-kappa
    sm_want = 0.0
    for m, l in enumerate(logs, 1):
        w = m ** (-p["kappa"])
        sm_want = (1 - w) * sm_want + w * l
    if logs and len(logs) == len(hist) and not common.close(hist[-1][2], sm_want, rtol=1e-8, atol=1e-10):
        bad.append(f"smoothed_log_step_size {hist[-1][2]!r} != weighted average with weights m^-kappa {sm_want!r}")
    # finalize on the state produced by the real updates: exp(smoothed iterate), not the last step tried
    if not bad:
        integ = types.SimpleNamespace(step_size=None)
        tr = types.SimpleNamespace(integrator=integ, system=None)
        ad = _da_adapter(p)
        ad.finalize(st, None, tr, None)
        if not common.close(float(integ.step_size), math.exp(sm_want), rtol=1e-8, atol=0):
            bad.append(f"finalize(dict) sets step size {integ.step_size!r}, exp(smoothed iterate) = {math.exp(sm_want)!r}")
        hist3, st3 = impl_da(p, alphas[: max(1, len(alphas) // 2)])
        ad.finalize([st, st3], None, tr, None)
        want = (math.exp(st["smoothed_log_step_size"]) + math.exp(st3["smoothed_log_step_size"])) / 2
        if not common.close(float(integ.step_size), want, rtol=1e-12, atol=0) or not common.close(
            st["smoothed_log_step_size"], sm_want, rtol=1e-8, atol=1e-10
        ):
            bad.append(f"finalize(list of 2) sets step size {integ.step_size!r}, mean of exp(smoothed) = {want!r}")
    return bad[:3]


def oracle_da_finalize(case):
    """finalize: dict -> exp(smoothed); list -> reducer(list of smoothed); the three reducers."""
    import mici

    sm = case["smoothed"]
    bad = []
    reds = {
        "default": (None, sum(math.exp(x) for x in sm) / len(sm)),
        "arith": (mici.adapters.arithmetic_mean_log_step_size_reducer, sum(math.exp(x) for x in sm) / len(sm)),
        "geom": (mici.adapters.geometric_mean_log_step_size_reducer, math.exp(sum(sm) / len(sm))),
        "min": (mici.adapters.min_log_step_size_reducer, min(math.exp(x) for x in sm)),
    }
    p = {"target": 0.8, "reg_target": 0.0, "reg_coeff": 0.05, "kappa": 0.75, "iter_offset": 10}
    for name, (red, want) in reds.items():
        try:
            ad = _da_adapter(p, red)
            integ = types.SimpleNamespace(step_size=None)
            tr = types.SimpleNamespace(integrator=integ, system=None)
            states = [{"iter": 3, "smoothed_log_step_size": x, "adapt_stat_error": 0.1,
                       "log_step_size_reg_target": 0.0} for x in sm]
            ad.finalize(states, [None] * len(sm), tr, [None] * len(sm))
            got = float(integ.step_size)
        except Exception as e:  # noqa: BLE001
            bad.append(f"finalize({name}) raised {type(e).__name__}: {e}")
            continue
        if not common.close(got, want, rtol=1e-12, atol=0):
            bad.append(f"finalize with {name} reducer over {len(sm)} chains gives {got!r}, documented value {want!r}")
    seen = []
    ad = _da_adapter(p, lambda xs: (seen.append(list(xs)), 0.25)[1])
    integ = types.SimpleNamespace(step_size=None)
    tr = types.SimpleNamespace(integrator=integ, system=None)
    ad.finalize(iter([{"smoothed_log_step_size": x, "log_step_size": x + 50.0} for x in sm]), None, tr, None)
    if seen != [list(sm)] or integ.step_size != 0.25:
        bad.append(f"custom reducer received {seen} instead of the per-chain smoothed values {sm}")
    ad = _da_adapter(p)
    ad.finalize({"smoothed_log_step_size": sm[0], "iter": 5, "adapt_stat_error": 0.3}, None, tr, None)
    if not common.close(float(integ.step_size), math.exp(sm[0]), rtol=1e-14, atol=0):
        bad.append(f"finalize with a dict gives {integ.step_size!r}, expected exp(smoothed) = {math.exp(sm[0])!r}")
    return bad[:3]


# ---- initial step-size search ---------------------------------------------------------------


class _StubState:
    def __init__(self, tag=None):
        self.tag = tag

    def copy(self, read_only=False):  # noqa: ARG002
        return _StubState(self.tag)


def exponent_of(step):
    m, ex = math.frexp(float(step))
    if m != 0.5:
        return None
    return ex - 1


def script_at(script, e):
    lo, toks, dflt = script["lo"], script["tokens"], script["default"]
    if e < lo or e >= lo + len(toks):
        return dflt
    return toks[e - lo]


def impl_search(script, max_iters, h_init, via_initialize=False, reg_target=None):
    """Run the real search against a scripted profile. Returns ("ok", exponent, n_steps, extra) or
    ("err", None, n_steps, None)."""
    import mici

    errs = [mici.errors.IntegratorError, mici.errors.ConvergenceError, mici.errors.NonReversibleStepError]
    calls = []

    class Integ:
        step_size = None

        def step(self, state):
            e = exponent_of(self.step_size)
            calls.append(e)
            if e is None:
                raise RuntimeError(f"step size {self.step_size!r} is not a power of two")
            if script_at(script, e) == "E":
                raise errs[len(calls) % 3]("scripted failure")
            return _StubState(tag=e)

    class Sys:
        def h(self, state):
            if state.tag is None:
                return h_init
            t = script_at(script, state.tag)
            if t == "N":
                return float("nan")
            if t == "I":
                return float("inf") if state.tag % 2 == 0 else float("-inf")
            d = float(t)
            return h_init + d if state.tag % 2 == 0 else h_init - d

    integ = Integ()
    # explicit regularisation target (incl. the falsy 0.0 / -0.0): `initialize` must store it unchanged
    # (seed C17-3: `target or default`); None selects the documented default log(10 * init step size)
    ad = mici.adapters.DualAveragingStepSizeAdapter(max_init_step_size_iters=max_iters,
                                                    log_step_size_reg_target=reg_target)
    try:
        if via_initialize:
            tr = types.SimpleNamespace(integrator=integ, system=Sys())
            st = ad.initialize(_StubState(), tr)
            step = integ.step_size
            extra = st
        else:
            step = ad._find_and_set_init_step_size(_StubState(), Sys(), integ)  # noqa: SLF001
            extra = None
    except mici.errors.AdaptationError:
        return ("err", None, len(calls), None)
    e = exponent_of(step)
    if e is None or step != integ.step_size:
        return ("bad", (step, integ.step_size), len(calls), extra)
    return ("ok", e, len(calls), extra)


def too_big(tok, thr=LOG2):
    return tok in ("E", "N", "I") or float(tok) > thr


def spec_search(script, max_iters, h_init_nan):
    """What the theorems say the search must return (independent of the model)."""
    if h_init_nan:
        return ("err", None)
    if max_iters == 0:
        return ("err", None)
    if too_big(script_at(script, 0)):
        for k in range(1, max_iters):
            if not too_big(script_at(script, -k)):
                return ("ok", -k)
        return ("err", None)
    for f in range(1, max_iters + 1):
        t = script_at(script, f)
        if too_big(t):
            if t in ("E", "N"):
                return ("ok", f - 1) if f + 1 < max_iters else ("err", None)
            return ("ok", f) if f < max_iters else ("err", None)
    return ("err", None)


def oracle_search(case):
    script, max_iters = case["script"], case["max_iters"]
    h_init = float("nan") if case["h_init_nan"] else case["h_init"]
    bad = []
    try:
        r = _with_timeout(lambda: impl_search(script, max_iters, h_init, case.get("via_initialize", False),
                                                reg_target=case.get("reg_target")))
    except _Timeout:
        return ["search did not return"]
    except Exception as e:  # noqa: BLE001
        return [f"search raised {type(e).__name__}: {e}"]
    if r[0] == "bad":
        return [f"returned step size {r[1][0]!r} is not a power of two / differs from integrator.step_size {r[1][1]!r}"]
    want = spec_search(script, max_iters, case["h_init_nan"])
    if r[0] == "ok":
        e = r[1]
        here, up, down = (too_big(script_at(script, e + d)) for d in (0, 1, -1))
        crossing = (not here and up) or (here and not down and script_at(script, e) not in ("E", "N"))
        if not crossing:
            bad.append(f"returned step size 2^{e} is not at a crossing of |delta h| = log 2: too_big at "
                       f"{e - 1},{e},{e + 1} = {down},{here},{up}")
        if r[3] is not None:
            rt = r[3].get("log_step_size_reg_target")
            explicit = case.get("reg_target")
            if explicit is not None:
                if not (isinstance(rt, float) and rt == explicit):
                    bad.append(f"log_step_size_reg_target in the adapter state is {rt!r} although "
                               f"log_step_size_reg_target={explicit!r} was given explicitly")
            elif not common.close(rt, math.log(10 * 2.0 ** e), rtol=1e-12, atol=1e-12):
                bad.append(f"log_step_size_reg_target {rt!r} != log(10 * init step size 2^{e})")
            if r[3].get("iter") != 0 or r[3].get("smoothed_log_step_size") != 0.0 or r[3].get("adapt_stat_error") != 0.0:
                bad.append(f"initial adapter state not zeroed: {r[3]}")
    if (r[0], r[1]) != want:
        bad.append(f"search returned {r[0]} {r[1]}, the first crossing reachable in {max_iters} iterations is {want[0]} {want[1]}")
    if r[2] > max_iters:
        bad.append(f"{r[2]} integrator steps taken, max_init_step_size_iters = {max_iters}")
    return bad[:3]


def oracle_sampler(case):
    """End to end: a real HMC sampler with one warm-up stage adapting the metric; the metric set at
    the end is the inverse regularised pooled sample (co)variance of ALL traced warm-up positions."""
    import mici

    kind, dim, n_chain, n_warm, off, scale = (case[k] for k in ("kind", "dim", "n_chain", "n_warm", "off", "scale"))
    system = _system()
    integ = mici.integrators.LeapfrogIntegrator(system, step_size=case["step"])
    sampler = mici.samplers.StaticMetropolisHMC(system, integ, np.random.default_rng(case["seed"]), n_step=2)
    init = np.random.default_rng(case["seed"] + 1).standard_normal((n_chain, dim))
    try:
        out = _with_timeout(lambda: sampler.sample_chains(
            n_warm, 0, list(init), adapters=[_adapter(kind, off, scale)], stager=mici.stagers.WarmUpStager(),
            trace_warm_up=True, display_progress=False, n_process=1), 120)
    except Exception as e:  # noqa: BLE001
        return [f"sample_chains raised {type(e).__name__}: {e}"]
    pooled = np.array(out.traces["pos"], dtype=np.float64).reshape(-1, dim)
    n = pooled.shape[0]
    if kind == "var":
        want = np.diag(np.array(1.0 / _reg(np.var(pooled.astype(np.longdouble), axis=0, ddof=1), n, off, scale, "var"),
                                dtype=np.float64))
    else:
        cov = np.cov(pooled.T, ddof=1) if dim > 1 else np.array([[np.var(pooled[:, 0], ddof=1)]])
        want = np.linalg.inv(np.array(_reg(cov, n, off, scale, "cov"), dtype=np.float64))
    got = np.array(system.metric.array, dtype=float)
    err = float(np.max(np.abs(got - want)) / np.max(np.abs(want))) if got.shape == want.shape else float("inf")
    tol = 1e-7 if kind == "var" else max(1e-7, 1e-12 * np.linalg.cond(want))
    if not err <= tol:
        return [f"after {n_warm} warm-up iterations of {n_chain} chains the metric differs from the inverse regularised "
                f"pooled sample {'variance' if kind == 'var' else 'covariance'} of the {n} traced positions (rel. error {err:.3g})"]
    return []



def oracle_options(case):  # noqa: C901, PLR0912
    """Constructor options (the translated `__init__` methods): the documented defaults, and explicit
    values - in particular falsy ones (0, 0.0) - are stored unchanged and are the values used."""
    import mici

    A = mici.adapters
    bad = []
    kind = case["kind"]
    if kind == "da-defaults":
        ad = A.DualAveragingStepSizeAdapter()
        want = {"adapt_stat_target": 0.8, "log_step_size_reg_target": None, "log_step_size_reg_coefficient": 0.05,
                "iter_decay_coeff": 0.75, "iter_offset": 10, "max_init_step_size_iters": 100}
        for k, w in want.items():
            g = getattr(ad, k, "<missing>")
            if (w is None) != (g is None) or (w is not None and not (isinstance(g, (int, float)) and g == w)):
                bad.append(f"DualAveragingStepSizeAdapter() has {k} = {g!r}, documented default {w!r}")
        sm = case["smoothed"]
        try:
            got = float(ad.log_step_size_reducer(list(sm)))
            want_r = sum(math.exp(x) for x in sm) / len(sm)
            if not common.close(got, want_r, rtol=1e-12, atol=0):
                bad.append(f"default reducer applied to {sm} gives {got!r}, documented default (arithmetic mean of the step sizes) {want_r!r}")
            a = ad.adapt_stat_func({"accept_stat": 0.375, "n_step": 7, "energy_error": 0.9})
            if a != 0.375:
                bad.append(f"default adapt_stat_func returns {a!r} instead of stats['accept_stat']")
        except Exception as e:  # noqa: BLE001
            bad.append(f"default reducer / statistic function raised {type(e).__name__}: {e}")
        # behaviour: one update from a fresh state with the default settings follows the documented constants
        integ = types.SimpleNamespace(step_size=None)
        tr = types.SimpleNamespace(integrator=integ, system=None)
        st = {"iter": 0, "smoothed_log_step_size": 0.0, "adapt_stat_error": 0.0, "log_step_size_reg_target": case["mu"]}
        ad.update(st, None, {"accept_stat": case["accept"]}, tr)
        want_log = case["mu"] - ((0.8 - case["accept"]) / (10 + 1)) * 1.0 / 0.05
        if not common.close(math.log(integ.step_size), want_log, rtol=1e-10, atol=1e-12):
            bad.append(f"first update with default settings sets step size {integ.step_size!r}, documented defaults "
                       f"(target 0.8, offset 10, coefficient 0.05) give {math.exp(want_log)!r}")
    elif kind == "da-explicit":
        v = case["values"]
        red = (lambda xs: 0.5) if case.get("custom_reducer") else None
        fn = (lambda stats: stats["x"]) if case.get("custom_func") else None
        ad = A.DualAveragingStepSizeAdapter(
            adapt_stat_target=v["adapt_stat_target"], adapt_stat_func=fn, log_step_size_reg_target=v["log_step_size_reg_target"],
            log_step_size_reg_coefficient=v["log_step_size_reg_coefficient"], iter_decay_coeff=v["iter_decay_coeff"],
            iter_offset=v["iter_offset"], max_init_step_size_iters=v["max_init_step_size_iters"], log_step_size_reducer=red)
        for k, w in v.items():
            g = getattr(ad, k, "<missing>")
            if (w is None) != (g is None) or (w is not None and not (type(g) is type(w) and g == w and math.copysign(1, g) == math.copysign(1, w))):
                bad.append(f"explicit {k}={w!r} is stored as {g!r}")
        if red is not None and ad.log_step_size_reducer is not red:
            bad.append("explicit log_step_size_reducer is not the one used")
        if fn is not None and ad.adapt_stat_func is not fn:
            bad.append("explicit adapt_stat_func is not the one used")
    elif kind == "metric-defaults":
        for cls in (A.OnlineVarianceMetricAdapter, A.OnlineCovarianceMetricAdapter):
            ad = cls()
            if not (ad.reg_iter_offset == 5 and ad.reg_scale == 1e-3):
                bad.append(f"{cls.__name__}() has reg_iter_offset={ad.reg_iter_offset!r}, reg_scale={ad.reg_scale!r}; documented defaults 5, 0.001")
    elif kind == "metric-explicit":
        for cls in (A.OnlineVarianceMetricAdapter, A.OnlineCovarianceMetricAdapter):
            ad = cls(reg_iter_offset=case["off"], reg_scale=case["scale"])
            if not (type(ad.reg_iter_offset) is int and ad.reg_iter_offset == case["off"] and ad.reg_scale == case["scale"]):
                bad.append(f"{cls.__name__}(reg_iter_offset={case['off']!r}, reg_scale={case['scale']!r}) stores "
                           f"{ad.reg_iter_offset!r}, {ad.reg_scale!r}")
    return bad[:4]


def oracle_cache(case):
    """`finalize` replaces `system.metric`; values cached on the chain states under the previous metric must
    not survive (the fix 5ac82c4: `chain_state.pos = chain_state.pos`).  A constrained system caches the Gram
    matrix `J M^-1 J^T` of the constraint Jacobian on the position: after finalize it must equal a from-scratch
    evaluation, and the redrawn momentum must lie in the co-tangent space under the NEW metric."""
    import mici

    kind, dim, chains = case["kind"], case["dim"], case["chains"]
    A = np.array(case["A"], dtype=np.float64).reshape(1, dim)
    system = mici.systems.DenseConstrainedEuclideanMetricSystem(
        neg_log_dens=lambda q: 0.5 * float(q @ q), grad_neg_log_dens=lambda q: q,
        constr=lambda q: A @ q - 1.0, jacob_constr=lambda q: A, dens_wrt_hausdorff=True)
    ad = _adapter(kind, case["off"], case["scale"])
    tr = types.SimpleNamespace(system=system, integrator=None)
    ad_states, ch_states, before = [], [], []
    for c in chains:
        cs = _state(c[-1] if c else np.zeros(dim))
        st = ad.initialize(cs, tr)
        for x in c:
            ad.update(st, _state(x), {}, tr)
        before.append(np.array(system.gram(cs).array, dtype=float))  # warms the cache under the old metric
        system.h(cs)
        ad_states.append(st)
        ch_states.append(cs)
    rngs = [np.random.default_rng(s) for s in case["seeds"]]
    try:
        if case.get("as_dict"):
            ad.finalize(ad_states[0], ch_states[0], tr, rngs[0])
        else:
            ad.finalize(ad_states, ch_states, tr, rngs)
    except mici.errors.AdaptationError:
        return []
    bad = []
    minv = np.array(system.metric.inv.array, dtype=float)
    for i, cs in enumerate(ch_states):
        fresh = mici.states.ChainState(pos=np.array(cs.pos, dtype=float), mom=np.array(cs.mom, dtype=float), dir=1)
        g_c, g_f = np.array(system.gram(cs).array, dtype=float), np.array(system.gram(fresh).array, dtype=float)
        if not np.allclose(g_c, g_f, rtol=1e-10, atol=0):
            bad.append(f"chain {i}: gram matrix cached under the previous metric is still returned after finalize changed "
                       f"system.metric: cached {g_c.ravel().tolist()} (before finalize {before[i].ravel().tolist()}), "
                       f"from scratch {g_f.ravel().tolist()}")
            continue
        if not common.close(float(system.h(cs)), float(system.h(fresh)), rtol=1e-10, atol=1e-12):
            bad.append(f"chain {i}: Hamiltonian of the refreshed state {float(system.h(cs))!r} != from-scratch value {float(system.h(fresh))!r}")
        r = float(np.max(np.abs(A @ minv @ np.array(cs.mom, dtype=float))))
        if not r <= 1e-9 * max(1.0, float(np.max(np.abs(minv))) * float(np.max(np.abs(cs.mom)))):
            bad.append(f"chain {i}: refreshed momentum is not in the co-tangent space under the new metric (|J M^-1 p| = {r:.3g})")
    return bad[:3]


ORACLES = {
    "sampler": oracle_sampler,
    "batch": oracle_batch,
    "offset": oracle_offset,
    "momenta": oracle_momenta,
    "da": oracle_da,
    "da_finalize": oracle_da_finalize,
    "search": oracle_search,
    "options": oracle_options,
    "cache": oracle_cache,
}


def check(ctx, name, case, sig=None):
    seen = ctx.extra.setdefault("_checked", set())
    h = common.stable_hash([name, case])
    if h in seen:
        return True
    seen.add(h)
    try:
        bad = ORACLES[name](case)
    except Exception as e:  # noqa: BLE001
        bad = [f"oracle {name}: implementation raised {type(e).__name__}: {e}"]
    for b in bad:
        ctx.violation(sig or f"{name}:{case.get('kind', '')}", f"{name}: {b}", {"oracle": name, "case": case})
    return not bad


# ---------------------------------------------------------------------------------------


def run(ctx: common.Ctx):  # noqa: C901, PLR0912, PLR0915
    from .c20 import _n, src_obligation_status

    # a broken src_* obligation (adapters.py no longer translates to the model) escalates every
    # failing-input search below (tripled budgets)
    src_broken = src_obligation_status(ctx, "MiciVerif.Props.C17S")
    rng = common.rng_for(ctx)
    ctx.rule = (
        "Welford: position sequences (dim 1-4, length 1-60/200, dyadic) compared after every update; merge: "
        "partitions into 1-6 chains incl. empty and very unequal chains and shuffled chain orders, non-trivial = >= 2 "
        "chains of different length; dual averaging: random statistic sequences x settings, non-trivial = >= 3 "
        "updates; search: scripted profiles, non-trivial = contains a failure/NaN/inf or needs >= 3 iterations"
    )
    ctx.assumptions += [
        "NumPy applies the scalar recursions component-wise / entry-wise (validated entry by entry)",
        "float results compared with exact rational model at rtol 1e-9 (inputs dyadic, magnitude <= 16)",
        "iter**0.5, (1/iter)**kappa, exp handed to the model as data (computed here as documented)",
        "large-offset (1e8 +- 1) accuracy is tested against exact arithmetic with tolerance 1e-4, not proved",
    ]
    # corpus (minimised past failures) first
    for obj in common_corpus():
        if "oracle" in obj:
            ctx.count("corpus")
            check(ctx, obj["oracle"], obj["case"])
    reqs, metas = [], []

    # ---- Welford states after each update --------------------------------------------
    for _ in range(_n(ctx, 150, 600)):
        kind = "var" if rng.random() < 0.5 else "cov"
        dim = int(rng.integers(1, 5))
        n = int(rng.integers(1, _n(ctx, 60, 200) if kind == "var" else _n(ctx, 25, 80)))
        data = dyadic(rng, (n, dim))
        if rng.random() < 0.15:
            data[:] = data[0]  # constant history
        reqs.append(f"w{kind} {mat_str(data)}")
        metas.append(("welford", kind, data.tolist()))

    # ---- merged / regularised / metric --------------------------------------------------
    merge_cases = []
    for i in range(_n(ctx, 500, 3000)):
        kind = "var" if rng.random() < 0.5 else "cov"
        dim = int(rng.integers(1, 5))
        n = int(rng.choice([0, 1, 2, 3, 5, 8, 13, 30, 60])) if rng.random() < 0.7 else int(rng.integers(2, _n(ctx, 60, 200)))
        off = int(rng.choice([0, 1, 5, 10, 50]))
        if off == 0 and kind == "cov":
            n = max(n, dim + 3)
        scale = float(rng.choice([1e-3, 0.5, 1.0, 2.0 ** -10]))
        data = dyadic(rng, (n, dim))
        sizes = random_partition(rng, n, allow_empty=True)
        chains = split(data, sizes)
        orders = [chains]
        if len(chains) > 1 and i % 3 == 0:
            perm = [int(x) for x in rng.permutation(len(chains))]
            orders.append([chains[j] for j in perm])
            orders.append(chains[::-1])
        for ch in orders:
            case = {"kind": kind, "off": off, "scale": scale, "chains": ch, "dim": dim}
            merge_cases.append(case)
            reqs.append(f"m{kind} {dim} {off} {common.fstr(scale)} " + ";".join(mat_str(c) for c in ch))
            metas.append(("merge", case))

    # ---- dual averaging -------------------------------------------------------------------
    for _ in range(_n(ctx, 250, 1500)):
        p = {
            "target": float(rng.choice([0.8, 0.65, 0.5, 0.9])),
            "reg_target": float(rng.choice([0.0, math.log(10 * 0.25), -3.5, 2.0])),
            "reg_coeff": float(rng.choice([0.05, 0.1, 1.0])),
            "kappa": float(rng.choice([0.75, 0.5, 1.0, 0.6])),
            "iter_offset": int(rng.choice([10, 0, 1, 25])),
        }
        m = int(rng.integers(1, _n(ctx, 40, 150)))
        alphas = (rng.integers(0, 65, size=m) / 64.0).tolist()
        if rng.random() < 0.2:
            alphas = [float(rng.choice([0.0, 1.0]))] * m
        sq = [k ** 0.5 for k in range(1, m + 1)]
        sw = [(1 / k) ** p["kappa"] for k in range(1, m + 1)]
        reqs.append(
            f"da {common.fstr(p['target'])} {common.fstr(p['reg_coeff'])} {p['iter_offset']} {common.fstr(p['reg_target'])} "
            f"{common.vstr(alphas)} {common.vstr(sq)} {common.vstr(sw)}"
        )
        metas.append(("da", {"params": p, "alphas": alphas}))

    # ---- initial search -------------------------------------------------------------------
    def rand_script():
        style = int(rng.integers(0, 6))
        lo = -int(rng.integers(0, 14))
        hi = int(rng.integers(1, 14))
        toks = []
        for e in range(lo, hi + 1):
            if style == 0:  # monotone |dh| growing with the step size, crossing somewhere
                c = int(rng.integers(lo, hi + 1))
                v = 2.0 ** (e - c) * 0.75
                toks.append(repr(float(v)))
            elif style == 1:  # failures above a point
                c = int(rng.integers(lo, hi + 1))
                toks.append("E" if e >= c else repr(0.25))
            elif style == 2:  # NaN / inf above a point, small below
                c = int(rng.integers(lo, hi + 1))
                toks.append(str(rng.choice(["N", "I"])) if e >= c else repr(0.5))
            else:  # arbitrary mixture
                r = rng.random()
                toks.append("E" if r < 0.15 else "N" if r < 0.25 else "I" if r < 0.3
                            else repr(float(rng.integers(0, 9)) / 4.0))
        dflt = str(rng.choice(["E", "N", "I", "0.125", "3.0", "0.5", "1.0"]))
        return {"lo": lo, "tokens": toks, "default": dflt}

    for i in range(_n(ctx, 1500, 10000)):
        sc = rand_script()
        mi = int(rng.choice([0, 1, 2, 3, 5, 8, 12, 20, 40, 100]))
        case = {"script": sc, "max_iters": mi, "h_init": float(rng.integers(-8, 9)) / 2.0,
                "h_init_nan": bool(rng.random() < 0.04), "via_initialize": i % 2 == 0,
                "reg_target": [None, 0.0, -0.0, 1.5, -2.25, None][i % 6] if i % 2 == 0 else None}
        toks = ",".join(t if t in ("E", "N", "I") else common.fstr(float(t)) for t in sc["tokens"])
        d = sc["default"]
        d = d if d in ("E", "N", "I") else common.fstr(float(d))
        reqs.append(f"search {mi} {int(case['h_init_nan'])} {common.fstr(LOG2)} {sc['lo']} {d} {toks}")
        metas.append(("search", case))

    if any("search" in b for b in src_broken):
        # targeted: the tests of the search loop differ from the model's only on the threshold itself
        # or through NaN / failures; put |delta h| exactly on log 2 and one ulp around it (h_init = 0
        # makes h_init + d - h_init exact)
        edge = [repr(LOG2), repr(math.nextafter(LOG2, 0.0)), repr(math.nextafter(LOG2, 4.0))]
        for i in range(600):
            lo, hi = -int(rng.integers(1, 7)), int(rng.integers(1, 7))
            toks = []
            for e in range(lo, hi + 1):
                r = rng.random()
                toks.append(edge[int(rng.integers(3))] if r < 0.45 else "E" if r < 0.55 else "N" if r < 0.62
                            else repr(float(rng.integers(0, 9)) / 4.0))
            sc = {"lo": lo, "tokens": toks, "default": str(rng.choice(["0.125", "3.0", edge[0]]))}
            mi = int(rng.choice([1, 2, 3, 5, 8, 12, 20]))
            case = {"script": sc, "max_iters": mi, "h_init": 0.0, "h_init_nan": False, "via_initialize": i % 2 == 0}
            toks_s = ",".join(t if t in ("E", "N", "I") else common.fstr(float(t)) for t in sc["tokens"])
            reqs.append(f"search {mi} 0 {common.fstr(LOG2)} {sc['lo']} {common.fstr(float(sc['default']))} {toks_s}")
            metas.append(("search", case))
            ctx.count("search:targeted_threshold")

    model = common.run_driver("C17", reqs)

    for req, meta, mline in zip(reqs, metas, model, strict=True):
        if mline == "bad-op":
            raise common.MachineryError(f"driver rejected request {req[:200]}")
        tag = meta[0]
        if tag == "welford":
            _, kind, data = meta
            case = {"kind": kind, "positions": data}
            ctx.case({"welford": kind, "n": len(data), "dim": len(data[0]), "h": common.stable_hash(data)},
                     nontrivial=len(data) >= 3)
            ctx.count(f"welford:{kind}:n<={10 * (1 + len(data) // 10)}")
            try:
                hist = impl_welford(kind, data)
            except Exception as e:  # noqa: BLE001
                ctx.disagreement(f"welford {kind}: implementation raised {type(e).__name__}: {e}", case)
                continue
            steps = mline.split("|")
            if len(steps) != len(hist):
                ctx.disagreement("welford: number of states differs", case)
                continue
            for k, (s, (it, mean, sums)) in enumerate(zip(steps, hist, strict=True), 1):
                mm, ms = s.split(";")
                ok = it == k and vec_close(mean, common.parse_vec(mm))
                if kind == "var":
                    ok = ok and vec_close(sums, common.parse_vec(ms))
                else:
                    ok = ok and vec_close(sums, [x for r in parse_mat(ms) for x in r])
                if not ok:
                    ctx.disagreement(
                        f"welford {kind}: state after update {k} differs: impl iter={it} mean={mean.tolist()} "
                        f"sums={np.asarray(sums).tolist()} model {s[:300]}", case)
                    # failing-input search seeded with the disagreeing input
                    pre = data[:k]
                    check(ctx, "batch", {"kind": kind, "off": 0 if kind == "var" else 1, "scale": 1.0,
                                         "chains": [pre], "dim": len(data[0])})
                    break
        elif tag == "merge":
            case = meta[1]
            kind, chains, dim = case["kind"], case["chains"], case["dim"]
            sizes = [len(c) for c in chains]
            n = sum(sizes)
            ctx.case({"merge": kind, "sizes": sizes, "off": case["off"], "h": common.stable_hash(case)},
                     nontrivial=len({s for s in sizes}) >= 2)
            ctx.count(f"merge:{kind}:chains={len(chains)}")
            if sizes and max(sizes) >= 10 * max(1, min(sizes)) and len(sizes) > 1:
                ctx.count("merge:very_unequal")
            if 0 in sizes:
                ctx.count("merge:has_empty_chain")
            try:
                res = _with_timeout(lambda c=case: impl_finalize(c["kind"], c["off"], c["scale"], c["chains"], c["dim"]))
            except Exception as e:  # noqa: BLE001
                if nan_expected(chains) and "nan=1" in mline and type(e).__name__ in ("ValueError", "LinAlgError"):
                    # NumPy's silent 0/0 (merge_nan_iff): the NaN estimate is rejected by the matrix constructor
                    ctx.count("merge:nan_case_rejected_by_matrix_class")
                    continue
                pooled_ = np.array([x for c in chains for x in c], dtype=np.float64).reshape(-1, dim)
                if n >= 2 and type(e).__name__ in ("ValueError", "LinAlgError") and _degenerate_estimate(
                        kind, pooled_, n, case["off"], case["scale"], dim):
                    # the regularised estimate is not positive definite (no inverse): rejected by the matrix class
                    ctx.count("merge:degenerate_estimate_rejected_by_matrix_class")
                    continue
                ctx.disagreement(f"merge {kind}: implementation raised {type(e).__name__}: {e}", case)
                check(ctx, "batch", case)
                continue
            if mline.startswith("err"):
                ctx.count("merge:error")
                if "error" not in res:
                    ctx.disagreement(f"merge {kind}: model {mline}, implementation returned a metric (n={n})", case)
                    check(ctx, "batch", case)
                continue
            d = kv(mline)
            if "error" in res:
                ctx.disagreement(f"merge {kind}: implementation AdaptationError, model n={d['n']}", case)
                check(ctx, "batch", case)
                continue
            if d["nan"] == "1":
                ctx.count("merge:nan")
                if not np.all(np.isnan(res["est"])):
                    ctx.disagreement(f"merge {kind}: model predicts NaN estimate (two leading empty chains), impl {res['est'].tolist()}", case)
                continue
            if "singular" in d:
                ctx.count("merge:singular_skipped")
                continue
            if kind == "var":
                ok_est = vec_close(res["est"], common.parse_vec(d["var"]))
                mm = common.parse_vec(d["metric"])
                ok_met = vec_close(np.diag(res["metric"]), mm, rtol=1e-8) and res["metric_type"] == "PositiveDiagonalMatrix"
            else:
                if d.get("check") != "1":
                    raise common.MachineryError("driver could not verify cov * X = 1")
                cov = parse_mat(d["cov"])
                ok_est = vec_close(res["est"], [x for r in cov for x in r])
                condn = np.linalg.cond(np.array([[float(x) for x in r] for r in cov]))
                ok_met = max_close(res["metric"], parse_mat(d["metric"]), rtol=max(1e-8, 1e-13 * condn)) \
                    and res["metric_type"] == "DensePositiveDefiniteMatrix"
            ok_mean = len(chains) < 2 or vec_close(res["mean"], common.parse_vec(d["mean"])) if kind == "var" else True
            if not (ok_est and ok_met and ok_mean):
                what = "estimate" if not ok_est else "metric (not the inverse of the estimate)" if not ok_met else "mean"
                ctx.disagreement(
                    f"merge {kind}: {what} differs for chain sizes {sizes}, off={case['off']}: impl est={res['est'].tolist()} "
                    f"metric={res['metric'].tolist()} model {mline[:400]}", case)
                check(ctx, "batch", case)
        elif tag == "da":
            case = meta[1]
            p, alphas = case["params"], case["alphas"]
            ctx.case({"da": p, "m": len(alphas), "h": common.stable_hash(alphas)}, nontrivial=len(alphas) >= 3)
            ctx.count(f"da:offset={p['iter_offset']}:kappa={p['kappa']}")
            try:
                hist, _ = impl_da(p, alphas)
            except Exception as e:  # noqa: BLE001
                ctx.disagreement(f"dual averaging: implementation raised {type(e).__name__}: {e}", case)
                continue
            for k, (s, (it, err, sm, step)) in enumerate(zip(mline.split("|"), hist, strict=True), 1):
                me, ms, ml = (common.parse_frac(x) for x in s.split(";"))
                ok = it == k and common.close(err, me, rtol=1e-9, atol=1e-13) and common.close(sm, ms, rtol=1e-9, atol=1e-11)
                try:
                    want_step = math.exp(float(ml))
                except OverflowError:
                    want_step = float("inf")
                ok = ok and common.close(step, want_step, rtol=1e-9 * max(1.0, abs(float(ml))), atol=0)
                if not ok:
                    ctx.disagreement(
                        f"dual averaging: state after update {k} differs: impl err={err!r} smoothed={sm!r} step={step!r}; "
                        f"model err={float(me)!r} smoothed={float(ms)!r} step={want_step!r}", case)
                    check(ctx, "da", case)
                    break
        elif tag == "search":
            case = meta[1]
            sc = case["script"]
            hard = any(t in ("E", "N", "I") for t in sc["tokens"])
            ctx.case({"search": common.stable_hash(case)}, nontrivial=hard or case["max_iters"] >= 3)
            try:
                h_init = float("nan") if case["h_init_nan"] else case["h_init"]
                r = _with_timeout(lambda c=case, h=h_init: impl_search(c["script"], c["max_iters"], h, c["via_initialize"], reg_target=c.get("reg_target")))
            except Exception as e:  # noqa: BLE001
                ctx.disagreement(f"search: implementation raised {type(e).__name__}: {e}", case)
                check(ctx, "search", case)
                continue
            got = f"ok {r[1]}" if r[0] == "ok" else "err" if r[0] == "err" else f"bad {r[1]}"
            want = mline if mline.startswith("ok") else "err"
            ctx.count("search:" + ("ok" if r[0] == "ok" else "error") + (":hard" if hard else ""))
            if got != want:
                ctx.disagreement(f"search: impl {got}, model {mline} for max_iters={case['max_iters']} script={sc}", case)
            # direct oracle on every search case (cheap)
            check(ctx, "search", case)

    # ---- direct oracles ------------------------------------------------------------------
    for case in merge_cases[:: max(1, len(merge_cases) // _n(ctx, 500, 3000))]:
        if nan_expected(case["chains"]):
            continue
        ctx.count("oracle:batch")
        check(ctx, "batch", case)
    # dict vs list, momenta
    for i in range(_n(ctx, 200, 1500)):
        kind = "var" if i % 2 == 0 else "cov"
        dim = int(rng.integers(1, 5))
        n = int(rng.integers(dim + 3, 40))
        data = dyadic(rng, (n, dim))
        single = i % 4 < 2
        sizes = [n] if single else random_partition(rng, n, allow_empty=False)
        case = {"kind": kind, "off": int(rng.choice([1, 5])), "scale": 1e-3, "chains": split(data, sizes), "dim": dim,
                "seeds": [int(s) for s in rng.integers(0, 2 ** 31, size=len(sizes))], "as_dict": single and i % 8 < 2}
        ctx.case({"momenta": common.stable_hash(case)}, nontrivial=len(sizes) > 1)
        ctx.count("oracle:momenta")
        check(ctx, "momenta", case)
        if single:
            check(ctx, "batch", {**case, "as_dict": True})
    # numerically hard inputs (testing of numerical stability)
    for i in range(_n(ctx, 120, 800)):
        kind = "var" if i % 2 == 0 else "cov"
        dim = int(rng.integers(1, 4))
        n = int(rng.integers(dim + 3, _n(ctx, 120, 200)))
        base = float(rng.choice([1e8, -1e8, 1e8 + 1, 1e8 - 1]))
        data = base + rng.integers(-1024, 1025, size=(n, dim)).astype(np.float64) / 1024.0
        sizes = random_partition(rng, n, allow_empty=False)
        case = {"kind": kind, "chains": split(data, sizes), "dim": dim}
        ctx.case({"offset": common.stable_hash(case)}, nontrivial=True)
        ctx.count("oracle:large_offset")
        check(ctx, "offset", case, sig=f"offset:{kind}")
    # dual averaging closed form etc.
    for i in range(_n(ctx, 200, 1500)):
        p = {
            "target": float(rng.choice([0.8, 0.651, 0.5])), "reg_target": float(rng.normal()),
            "reg_coeff": float(rng.choice([0.05, 0.2])), "kappa": float(rng.choice([0.75, 0.51, 1.0])),
            "iter_offset": int(rng.choice([10, 0, 3])),
        }
        alphas = rng.random(int(rng.integers(1, 80))).tolist()
        ctx.count("oracle:da")
        check(ctx, "da", {"params": p, "alphas": alphas})
        sm = rng.normal(size=int(rng.integers(1, 6))).tolist()
        check(ctx, "da_finalize", {"smoothed": sm})
    # real sampler runs
    for i in range(_n(ctx, 12, 120)):
        case = {"kind": "var" if i % 2 == 0 else "cov", "dim": int(rng.integers(1, 4)), "n_chain": int(rng.integers(1, 5)),
                "n_warm": int(rng.integers(3, 40)), "off": int(rng.choice([0, 5, 10])) if i % 2 == 0 else int(rng.choice([5, 10])),
                "scale": 1e-3, "step": float(rng.choice([0.25, 0.5, 1.0])), "seed": int(rng.integers(0, 2 ** 31))}
        if case["n_warm"] * case["n_chain"] < case["dim"] + 3:
            case["n_warm"] += 6
        ctx.case({"sampler": common.stable_hash(case)}, nontrivial=case["n_chain"] > 1)
        ctx.count("oracle:real_sampler")
        check(ctx, "sampler", case)

    # ---- whole methods (translated by pysrc: __init__, initialize, whole finalize, whole search) ----------------
    # which groups of the new src_* obligations are broken (escalates the matching targeted searches)
    esc_init = any("init" in b for b in src_broken)
    esc_fin = any(k in b for b in src_broken for k in ("finalize", "momenta", "metric_is_inverse", "varianceAdapter",
                                                       "covarianceEntry", "merge"))
    esc_search = any(k in b for b in src_broken for k in ("search", "find_init"))
    esc_red = any(k in b for b in src_broken for k in ("reducer", "da_finalize", "da_init"))
    for name, flag in (("init", esc_init), ("finalize", esc_fin), ("search", esc_search), ("reducers", esc_red)):
        if flag:
            ctx.count(f"escalated:{name}")
    # constructor options: documented defaults, explicit values incl. falsy ones
    for i in range(8 if esc_init or esc_red else 2):
        case = {"kind": "da-defaults", "smoothed": [float(x) for x in rng.integers(-24, 9, size=int(rng.integers(2, 6))) / 8.0],
                "mu": float(rng.integers(-16, 17)) / 8.0, "accept": float(rng.integers(0, 65)) / 64.0}
        if len(set(case["smoothed"])) < 2:
            case["smoothed"][0] -= 1.0
        ctx.case({"options": common.stable_hash(case)}, nontrivial=True)
        ctx.count("oracle:options:defaults")
        check(ctx, "options", case)
    check(ctx, "options", {"kind": "metric-defaults"})
    for i in range(120 if esc_init else 30):
        falsy = i % 3 == 0
        v = {"adapt_stat_target": 0.0 if falsy and i % 2 else float(rng.choice([0.8, 0.65, 0.5])),
             "log_step_size_reg_target": [0.0, -0.0, None, 1.5, -2.25, 0.0][i % 6],
             "log_step_size_reg_coefficient": float(rng.choice([0.05, 0.5, 1.0])),
             "iter_decay_coeff": float(rng.choice([0.75, 1.0, 0.51])),
             "iter_offset": 0 if falsy else int(rng.choice([10, 1, 25])),
             "max_init_step_size_iters": 0 if falsy and i % 2 == 0 else int(rng.choice([100, 1, 7]))}
        case = {"kind": "da-explicit", "values": v, "custom_reducer": bool(i % 2), "custom_func": bool(i % 4 < 2)}
        ctx.case({"options": common.stable_hash(case)}, nontrivial=falsy)
        ctx.count("oracle:options:explicit" + (":falsy" if falsy else ""))
        check(ctx, "options", case)
        check(ctx, "options", {"kind": "metric-explicit", "off": 0 if falsy else int(rng.integers(1, 60)),
                               "scale": 0.0 if falsy and i % 2 else float(rng.choice([1e-3, 0.25, 2.0]))})
    # explicit falsy regularisation targets through the real `initialize` (seed C17-3) when initialize is suspect
    if esc_init:
        for i in range(300):
            sc = rand_script()
            case = {"script": sc, "max_iters": int(rng.choice([3, 5, 8, 12, 20, 40])), "h_init": float(rng.integers(-8, 9)) / 2.0,
                    "h_init_nan": False, "via_initialize": True, "reg_target": [0.0, -0.0, 0.0, None][i % 4]}
            ctx.count("search:targeted_falsy_reg_target")
            check(ctx, "search", case)
    # cached values after the metric changed (constrained system, Gram matrix) + single chain / zero-sample chains
    for i in range(_n(ctx, 40, 300) * (4 if esc_fin else 1)):
        kind = "var" if i % 2 == 0 else "cov"
        dim = int(rng.integers(2, 5))
        n = int(rng.integers(dim + 3, 30))
        data = dyadic(rng, (n, dim))
        style = i % 4
        if style == 0:
            sizes = [n]
        elif style == 1:  # zero-sample chains around the data
            sizes = [n, 0] if i % 8 < 4 else [n - 2, 0, 2]
        else:
            sizes = random_partition(rng, n, allow_empty=True)
            if nan_expected(split(data, sizes)):
                sizes = [n]
        Arow = [1.0] + [float(x) for x in rng.integers(-4, 5, size=dim - 1) / 4.0]
        case = {"kind": kind, "dim": dim, "chains": split(data, sizes), "A": Arow, "off": int(rng.choice([1, 5])), "scale": 1e-3,
                "seeds": [int(s) for s in rng.integers(0, 2 ** 31, size=len(sizes))], "as_dict": style == 0 and i % 8 == 0}
        ctx.case({"cache": common.stable_hash(case)}, nontrivial=len(sizes) > 1)
        ctx.count("oracle:cache" + (":single" if len(sizes) == 1 else ":zero_sample_chain" if 0 in sizes else ""))
        check(ctx, "cache", case)
    if esc_fin:
        # boundary of the sample-count test, single chains as dict and as list, zero-sample chains
        for i in range(400):
            kind = "var" if i % 2 == 0 else "cov"
            dim = int(rng.integers(1, 4))
            n = [2, 2, 3, 1, 2, dim + 3][i % 6]
            off = int(rng.choice([1, 5, 10]))
            data = dyadic(rng, (n, dim))
            sizes = [[n], [n, 0], [1, n - 1] if n >= 2 else [n], [n - 1, 0, 1] if n >= 2 else [0, n]][i % 4]
            ch = split(data, sizes)
            if nan_expected(ch):
                continue
            case = {"kind": kind, "off": off, "scale": float(rng.choice([1e-3, 0.5])), "chains": ch, "dim": dim,
                    "as_dict": len(sizes) == 1 and i % 8 < 4}
            ctx.count("batch:targeted_boundary")
            check(ctx, "batch", case)
            check(ctx, "momenta", {**case, "seeds": [int(s) for s in rng.integers(0, 2 ** 31, size=len(sizes))]})
    if esc_search:
        # the loop bound / the initial step size: crossings exactly at the limit of what max_iters passes reach
        for i in range(400):
            k = int(rng.integers(1, 9))
            up = i % 2 == 0
            lo = -12
            toks = []
            for e in range(lo, 13):
                if up:
                    toks.append(repr(0.25) if e < k else str(rng.choice(["3.0", "E", "N", "I", "0.75", "1.0"])))
                else:
                    toks.append(repr(0.25) if e <= -k else str(rng.choice(["3.0", "E", "N", "I", "0.75", "1.0"])))
            sc = {"lo": lo, "tokens": toks, "default": "0.25" if not up else "3.0"}
            for mi in (k - 1, k, k + 1, k + 2):
                if mi < 0:
                    continue
                case = {"script": sc, "max_iters": mi, "h_init": 0.0, "h_init_nan": bool(i % 50 == 7), "via_initialize": i % 4 == 1,
                        "reg_target": None}
                ctx.count("search:targeted_loop_bound")
                check(ctx, "search", case)
    if esc_red:
        for i in range(200):
            check(ctx, "da_finalize", {"smoothed": rng.normal(size=int(rng.integers(1, 7))).tolist()})
    ctx.extra.pop("_checked", None)


def common_corpus():
    import json

    d = common.VERIF / "corpus" / PROP
    out = []
    if d.exists():
        for f in sorted(d.glob("*.json")):
            out.append(json.loads(f.read_text()))
    return out


def replay(ctx, obj):  # noqa: ARG001
    if "oracle" in obj and obj["oracle"] in ORACLES:
        try:
            return bool(ORACLES[obj["oracle"]](obj["case"]))
        except Exception:  # noqa: BLE001
            return True
    sub = common.Ctx(ctx.prop, ctx.tier, ctx.seed)
    run(sub)
    return bool(sub.violations or sub.disagreements)


LEVEL_TEXT = (
    "Lean 4 proofs, for every field of characteristic 0 (so for the reals) and every history: the Welford recursion of "
    "both metric adapters equals the batch count/mean/centred sums after any list of positions (welford_eq_batch, "
    "welfordCov_eq_batch, welfordCov_symm); the Chan / Schubert-Gertz loop of finalize over ANY list of chains equals "
    "the statistics of the concatenation (merge_eq_concat, merge_eq_concat_var), hence independent of partition and "
    "order of chains and positions (partition_independent, order_independent, chain_order_independent); NumPy's silent "
    "0/0 happens exactly when the first two chains are both empty (merge_nan_iff); AdaptationError iff < 2 positions "
    "(finalize_error_iff, varianceAdapter_error); end-to-end: metric entry = 1/regularised pooled variance, covariance "
    "entries with the scale term on the diagonal only (varianceAdapter_eq, covarianceEntry_eq, regularizeVar_formula, "
    "regularizeCov_formula, metric_is_inverse, regularized_var_pos, momenta_refreshed). Dual averaging: error recursion "
    "and closed form (da_error_recursion, da_error_closed_form, da_error_from_init), smoothed iterate is an affine "
    "combination with explicit coefficients summing to 1 whose initial-value coefficient vanishes after the first update "
    "and lies in the hull of the log step sizes (da_smoothed_combination, da_smoothed_in_hull), step sizes exp(.) > 0 "
    "(da_step_sizes_pos), finalize/reducers (da_finalize, da_reducers); the real exp and (1/iter)^kappa satisfy the "
    "hypotheses (real_functions_ok, da_real). Initial search as a state machine over exponents "
    "of 2: a returned step size is the first crossing of |delta h| = log 2 in the direction fixed by the first step, "
    "failures/NaN count as too big, AdaptationError only if no crossing is reachable, and success if one is "
    "(search_crossing, search_first_crossing, search_error, search_succeeds). All theorems are full (no _partial)."
)
LEVEL_NOTE = (
    "Trusted: Lean kernel, axioms within {propext, Classical.choice, Quot.sound}; the correspondence harness. The theorems "
    "are about exact field arithmetic: floating-point rounding is outside them (real adapters are compared with the exact "
    "rational model at rtol 1e-9 on dyadic inputs; accuracy for offsets 1e8 +- 1 is tested against exact arithmetic with "
    "tolerance 1e-4 and is testing, not proof). iter**0.5, (1/iter)**kappa and exp are abstract functions in the model "
    "(hypotheses: 0 <= weight <= 1, first weight 1, exp > 0). NumPy vector/matrix operations are modelled per component / "
    "per entry. The dense metric inverse is checked data (cov * X = 1 decided over Q in the driver). Integrator and "
    "Hamiltonian in the initial search are an abstract oracle exponent -> {error, NaN, inf, value}."
)
TECHNIQUE = (
    "Lean 4 theorems over arbitrary fields (induction over histories and chain lists, state-machine induction for the "
    "search) + exact-rational model/implementation correspondence + direct NumPy/Fraction oracles on the real adapters"
)

# --- source translator tie (tools/extractors/pysrc.py, Props/C17S.lean) ---
LEVEL_TEXT += (
    ' SOURCE TIE (Props/C17S.lean): on every run tools/extractors/pysrc.py translates the scalar arithmetic of adapters.py (dual-averaging update and finalize, Welford update of both metric adapters, first-chain / merge-step branches of both finalize loops, n_iter < 2 error, division by n_iter - 1, both _regularize methods, and the try block / except handler of the initial step-size search as Boolean functions) into Lean; src_*_eq_model prove generated = model (src_search_eq_model: the loop rebuilt from the generated body is searchLoop, by induction); src_welford_eq_batch, src_welfordCov_eq_batch, src_merge_eq_concat, src_finalize_error_iff, src_regularize_formula, src_da_error_recursion, src_search_crossing restate C17 theorems for the generated definitions.'
)
LEVEL_NOTE += (
    ' Translator conventions (trusted, validated entry by entry by the correspondence): NumPy arrays are one component / one ordered pair of components, v[None,:] * w[:,None] and np.outer are the (a,b) entry, x**2 = x*x, in-place updates are required where the caller relies on them, reg_iter_offset is an integer (None outside the model), the statements around the translated arithmetic (loop headers, metric assignment, momentum refresh) are checked syntactically and fail closed.'
)
TECHNIQUE += ' + source-to-Lean translation of the adapter arithmetic with generated = model equalities re-proved on every run'

# --- whole-method translation (round 3) ---
LEVEL_TEXT += (
    ' WHOLE METHODS (same translator, same module): DualAveragingStepSizeAdapter.__init__ (stored attributes, exact defaults, default = arithmetic-mean reducer: src_da_init_eq_model, src_da_init_default_reducer), initialize (state dictionary, `is None` selection of the regularisation target, arguments of the search call: src_da_initialize_eq_model; src_initialize_reg_target: an explicit target - any value, in particular 0 - is stored unchanged, None gives log(10 * init step size)), the complete _find_and_set_init_step_size (NaN guard, initial step size 1, threshold log 2, loop bound, exhausted-loop error around the generated loop body = findInitStepSize: src_find_init_step_size_eq_model, with src_search_error, src_search_succeeds, src_search_first_crossing transported), the three reducers (src_reducers_eq_model, src_min_reducer_eq_model incl. its specification, src_da_finalize, src_da_reducers), __init__/initialize of both metric adapters (src_metric_init_eq_model) and their complete finalize - single state or loop over the chains in order, AdaptationError for < 2 samples, normalisation, regularisation, matrix class and .inv of the new metric, and per chain in order: position re-assigned (cached values cleared) then momentum redrawn with that chain\'s generator under the NEW metric (src_var_merge_eq_model, src_var_finalize_whole_eq_model, src_cov_finalize_whole_eq_model); end to end for the generated code: src_varianceAdapter_eq, src_covarianceEntry_eq, src_metric_is_inverse, src_momenta_refreshed.'
)
LEVEL_NOTE += (
    ' Whole-method conventions (trusted, see the extractor docstring): loops are fixed combinators (Lemmas/PySrcAdaptersBase.lean) applied to the generated bodies; the step size of the search is its exponent of 2; optional settings are Option values that may only be consumed under `is None`; `Cls(est).inv` is a record (class, inverse, entry) handed to an abstract matrix constructor; `chain_state.pos = chain_state.pos` is an abstract cache-clearing action and sample_momentum an abstract function of (metric in force, state, generator) - that re-assigning the position really clears the cached values is C09/C18 and is exercised here by the constrained-system Gram-matrix oracle; chain_states / rngs are one list of pairs (equal lengths).'
)
