"""Model-vs-implementation correspondence for the integrator / flow properties C02, C06, C07.

The Lean model (lean/MiciVerif/Model/Integrators.lean, executed over exact rationals by
lean/Driver/C02.lean) and the real mici classes are run on the same inputs:

* polynomial targets  U(q) = q.Aq/2 + sum(b3 q^4)/4 + sum(b2 q^3)/3 + d.q  with dyadic coefficients,
* metrics: implicit identity, diagonal, dense SPD (dyadic) -- the model receives N = M^-1 as exact
  rationals (computed by exact Gauss-Jordan and checked M N = 1 here),
* Gaussian-split systems: the model receives the implementation's own eigenvectors, frequencies and
  cos/sin values (as exact rationals of the floats); this module checks the defining equations
  Q^T Q = 1, omega^2 lambda = 1, c^2 + s^2 = 1 to 1e-12 before using them,
* dyadic states / step sizes / free coefficients so that many results are bit-exact.

Every float crosses the protocol as its exact rational.
"""
from __future__ import annotations

import sys
from fractions import Fraction

import numpy as np

from . import common

F = Fraction
sys.set_int_max_str_digits(0)  # exact model outputs can have 1e5 digits
RTOL = 1e-9
MKINDS = ["none", "diag", "dense", "scaled"]
ATOL = 1e-11


# --------------------------------------------------------------------------------------
# generators


def dy(rng, lo, hi, den=8):
    """Random dyadic rational k/den in [lo, hi]."""
    return float(rng.integers(int(lo * den), int(hi * den) + 1)) / den


def dyvec(rng, n, lo, hi, den=8):
    return np.array([dy(rng, lo, hi, den) for _ in range(n)])


def rand_spd(rng, n, den=8):
    """Dyadic SPD matrix: diagonally dominant."""
    B = np.array([[dy(rng, -0.5, 0.5, den) for _ in range(n)] for _ in range(n)])
    S = (B + B.T) / 2
    S = np.round(S * den) / den
    np.fill_diagonal(S, 0.0)
    d = np.abs(S).sum(axis=1) + np.array([dy(rng, 0.5, 2.0, den) for _ in range(n)])
    return S + np.diag(d)


def rand_target(rng, n, kind):
    A = rand_spd(rng, n)
    z = np.zeros(n)
    b3 = dyvec(rng, n, 0.125, 1.0) if kind == "quartic" else z
    b2 = dyvec(rng, n, -0.5, 0.5) if kind == "cubic" else z
    d = dyvec(rng, n, -0.5, 0.5) if rng.random() < 0.5 else z
    return {"A": A, "b3": b3, "b2": b2, "d": d, "kind": kind}


def target_funcs(t):
    A, b3, b2, d = t["A"], t["b3"], t["b2"], t["d"]

    def nld(q):
        return 0.5 * q @ A @ q + (b3 * q**4).sum() / 4 + (b2 * q**3).sum() / 3 + d @ q

    def grad(q):
        return A @ q + b3 * q**3 + b2 * q**2 + d

    return nld, grad


def rand_metric(rng, n, kind):
    if kind == "none":
        return None
    if kind == "scaled":  # implicitly sized positive scaled identity
        return {"scaled": 2.0 ** int(rng.integers(-2, 3)) if rng.random() < 0.5 else dy(rng, 0.25, 3.0, 4)}
    if kind == "diag":
        return np.array([2.0 ** int(rng.integers(-2, 3)) for _ in range(n)]) if rng.random() < 0.5 else dyvec(rng, n, 0.25, 3.0, 4)
    return rand_spd(rng, n, 4)


def metric_array(m, n):
    if m is None:
        return np.eye(n)
    if isinstance(m, dict):
        return m["scaled"] * np.eye(n)
    return np.diag(m) if m.ndim == 1 else m


def exact_inverse(M):
    """Exact inverse of a float matrix over the rationals (Gauss-Jordan)."""
    n = len(M)
    a = [[common.frac(M[i][j]) for j in range(n)] + [F(int(i == j)) for j in range(n)] for i in range(n)]
    for c in range(n):
        piv = next(r for r in range(c, n) if a[r][c] != 0)
        a[c], a[piv] = a[piv], a[c]
        pv = a[c][c]
        a[c] = [x / pv for x in a[c]]
        for r in range(n):
            if r != c and a[r][c] != 0:
                f = a[r][c]
                a[r] = [x - f * y for x, y in zip(a[r], a[c], strict=True)]
    inv = [row[n:] for row in a]
    # decide M * inv = 1 exactly
    for i in range(n):
        for j in range(n):
            s = sum(common.frac(M[i][k]) * inv[k][j] for k in range(n))
            assert s == (1 if i == j else 0)
    return inv


def mstr(M):
    return "[" + ",".join(common.vstr(r) for r in M) + "]"


def tstr(t):
    return f"{mstr(t['A'])} {common.vstr(t['b3'])} {common.vstr(t['b2'])} {common.vstr(t['d'])}"


def parse_state(s):
    a, b = s.strip().split(" ")
    return common.parse_vec(a), common.parse_vec(b)


def parse_fwdback(line):
    f, _, b = line.partition(" | ")
    return parse_state(f), parse_state(b)


def vec_close(impl, model, scale=1.0):
    return all(
        abs(float(a) - float(b)) <= ATOL + RTOL * max(abs(float(a)), abs(float(b)), scale)
        for a, b in zip(impl, model, strict=True)
    )


def vec_exact(impl, model):
    return all(common.frac(a) == b for a, b in zip(impl, model, strict=True))


# --------------------------------------------------------------------------------------
# implementation side


def make_system(mici, kind, target, metric):
    nld, grad = target_funcs(target)
    cls = mici.systems.EuclideanMetricSystem if kind == "euc" else mici.systems.GaussianEuclideanMetricSystem
    return cls(nld, grad_neg_log_dens=grad, metric=mici_metric(mici, metric))


def mici_metric(mici, metric):
    if isinstance(metric, dict):
        return mici.matrices.PositiveScaledIdentityMatrix(metric["scaled"])
    return metric


def make_integrator(mici, system, spec, eps):
    k = spec["kind"]
    I = mici.integrators
    if k == "leapfrog":
        return I.LeapfrogIntegrator(system, eps)
    if k == "symcomp":
        return I.SymmetricCompositionIntegrator(
            system, tuple(spec["free"]), step_size=eps, initial_h1_flow_step=spec["init"]
        )
    cls = {"bcss2": I.BCSSTwoStageIntegrator, "bcss3": I.BCSSThreeStageIntegrator, "bcss4": I.BCSSFourStageIntegrator}[k]
    return cls(system, eps)


BCSS_FREE = {
    "bcss2": [(3 - 3**0.5) / 6],
    "bcss3": [0.11888010966548, 0.29619504261126],
    "bcss4": [0.071353913450279725904, 0.191667800000000000000, 0.268548791161230105820],
}


def model_free(spec):
    """(free coefficients, initial_h1) the model is given for an integrator spec."""
    if spec["kind"] == "symcomp":
        return list(spec["free"]), spec["init"]
    if spec["kind"] in BCSS_FREE:
        return BCSS_FREE[spec["kind"]], True
    return [], True


def n_kicks(spec):
    free, init = model_free(spec)
    n = len(free)
    return n + 2 if init else n + 1


def rand_free(rng, n):
    """Dyadic free coefficients, moderately sized."""
    return [dy(rng, -0.25, 0.5, 16) for _ in range(n)]


def rand_integrator(rng, allow_bcss=True):
    r = rng.random()
    if r < 0.2:
        return {"kind": "leapfrog"}
    if allow_bcss and r < 0.35:
        return {"kind": ["bcss2", "bcss3", "bcss4"][int(rng.integers(3))]}
    n = int(rng.integers(0, 7))
    return {"kind": "symcomp", "free": rand_free(rng, n), "init": bool(rng.integers(2))}


def run_impl(mici, integ, q, p, d, k):
    from mici.states import ChainState

    s = ChainState(pos=np.array(q, dtype=float), mom=np.array(p, dtype=float), dir=d)
    for _ in range(k):
        s = integ.step(s)
    fwd = (s.pos.copy(), s.mom.copy())
    s = s.copy()
    s.dir *= -1
    for _ in range(k):
        s = integ.step(s)
    return fwd, (s.pos.copy(), s.mom.copy())


def gauss_data(system, n):
    """Eigen-data exactly as `GaussianEuclideanMetricSystem.h2_flow` uses them (+ defining equations)."""
    M = system.metric
    eigval = np.broadcast_to(np.asarray(M.eigval, dtype=float), (n,)).copy()
    omega = 1.0 / eigval**0.5
    Q = np.eye(n) if M.eigvec.shape[0] is None else np.asarray(M.eigvec.array, dtype=float)
    ok = (
        np.abs(Q.T @ Q - np.eye(n)).max() < 1e-12
        and np.abs(omega**2 * eigval - 1).max() < 1e-12
        and np.abs(Q @ np.diag(eigval) @ Q.T - metric_array_of(M, n)).max() < 1e-11
    )
    return Q, omega, ok


def metric_array_of(M, n):
    if M.shape[0] is None:
        return np.asarray(M @ np.eye(n), dtype=float)
    return np.asarray(M.array, dtype=float)


def trig_table(omega, times):
    rows = []
    ok = True
    for t in sorted(set(times)):
        c, s = np.cos(omega * t), np.sin(omega * t)
        ok = ok and np.abs(c * c + s * s - 1).max() < 1e-14
        rows.append(f"{common.fstr(t)};{common.vstr(c)};{common.vstr(s)}")
    return "|".join(rows) if rows else "-", ok


def h2_times(integ, spec, eps, d):
    """Float times passed to h2_flow by the real `_step` for direction d (and -d)."""
    out = []
    for dd in (d, -d):
        ts = dd * eps
        if spec["kind"] == "leapfrog":
            out.append(ts)
        else:
            h2 = integ.system.h2_flow
            for c, f in zip(integ.coefficients, integ.flows, strict=True):
                if getattr(f, "__func__", f) is getattr(h2, "__func__", h2):
                    out.append(c * ts)
    return out


# --------------------------------------------------------------------------------------
# C02 / C06: integrator steps and coefficients


def coefficient_cases(ctx, rng, count):
    """`integrator.coefficients` of live objects vs `deriveCoeffs` (exact for dyadic free lists)."""
    import mici

    system = make_system(mici, "euc", rand_target(rng, 1, "quad"), None)
    specs = [{"kind": "symcomp", "free": [], "init": True}, {"kind": "bcss2"}, {"kind": "bcss3"}, {"kind": "bcss4"}, {"kind": "leapfrog"}]
    for n in range(0, 7):
        for init in (True, False):
            specs.append({"kind": "symcomp", "free": rand_free(rng, n), "init": init})
    for _ in range(count):
        n = int(rng.integers(0, 7))
        free = rand_free(rng, n) if rng.random() < 0.7 else [float(x) for x in rng.uniform(-0.3, 0.6, n)]
        specs.append({"kind": "symcomp", "free": free, "init": bool(rng.integers(2))})
    reqs = [f"coeffs {common.vstr(model_free(s)[0])}" for s in specs]
    res = common.run_driver("C02", reqs, timeout=900)
    for spec, line in zip(specs, res, strict=True):
        case = {"coefficients": spec}
        model = common.parse_vec(line)
        if spec["kind"] == "leapfrog":
            impl = [0.5, 1.0, 0.5]  # LeapfrogIntegrator._step literals
        else:
            try:
                integ = make_integrator(mici, system, spec, 0.5)
                impl = [float(c) for c in integ.coefficients]
                nflows = len(integ.flows)
            except Exception as e:  # noqa: BLE001
                ctx.disagreement(f"constructing integrator raised {type(e).__name__}: {e}", case)
                continue
            if nflows != len(impl):
                ctx.disagreement(f"len(flows)={nflows} != len(coefficients)={len(impl)}", case)
        free = model_free(spec)[0]
        dyadic = all(common.frac(x).denominator <= 64 for x in free)
        ctx.case(case, nontrivial=len(free) >= 1)
        ctx.count(f"coeffs:n_free={len(free)}")
        if len(impl) != len(model):
            ctx.disagreement(f"coefficient list lengths differ: impl {len(impl)} model {len(model)}", case)
        elif dyadic:
            ctx.count("coeffs:exact_compare")
            if not vec_exact(impl, model):
                ctx.disagreement(f"coefficients differ (exact): impl {impl} model {[str(x) for x in model]}", case)
        elif not all(abs(a - float(b)) <= 1e-15 for a, b in zip(impl, model, strict=True)):
            ctx.disagreement(f"coefficients differ: impl {impl} model {[float(x) for x in model]}", case)


def step_cases(ctx, rng, count, eps_list=None, tag="steps"):
    """k steps / k steps-flip-k steps of real integrators vs the model."""
    import mici

    cases = []
    for i in range(count):
        n = int(rng.integers(1, 5))
        syskind = "euc" if rng.random() < 0.6 else "gauss"
        spec = rand_integrator(rng)
        k = int(rng.integers(1, 4))
        eps = (eps_list[i % len(eps_list)] if eps_list else [0.5, 0.25, 0.125, 0.0625, 0.3][int(rng.integers(5))])
        if i % 2 == 1:
            # every other case is kept small enough for a non-linear (cubic / quartic) target
            nfree = int(rng.integers(0, 3))
            spec = {"kind": "leapfrog"} if (nfree == 0 and rng.random() < 0.5) else {
                "kind": "symcomp", "free": rand_free(rng, nfree), "init": bool(rng.integers(2))}
            k = int(rng.integers(1, 3))
            if common.frac(eps).denominator > 64:
                eps = 0.25
        kicks = n_kicks(spec)
        # exact rationals grow like b0 * deg^(number of kicks): keep the estimate below 4e4 bits (actual sizes are several times the estimate).  The
        # Gaussian-split model works with 53-bit cos/sin data and its backward leg does not cancel.
        coarse = syskind == "gauss" or spec["kind"].startswith("bcss") or common.frac(eps).denominator > 64
        b0 = 64 if coarse else 12
        total = kicks * k * (2 if syskind == "gauss" else 1)
        tk = ["quad"]
        if b0 * 3**total <= 4e4:
            tk.append("quartic")
        if b0 * 2**total <= 4e4:
            tk.append("cubic")
        tkind = tk[int(rng.integers(len(tk)))] if rng.random() < 0.85 else "quad"
        if tkind == "quad" and rng.random() < 0.5:
            k = int(rng.integers(1, 9))
        target = rand_target(rng, n, tkind)
        mkind = MKINDS[int(rng.integers(len(MKINDS)))]
        metric = rand_metric(rng, n, mkind)
        d = int(rng.choice([1, -1]))
        q = dyvec(rng, n, -1.0, 1.0, 16)
        p = dyvec(rng, n, -1.0, 1.0, 16)
        cases.append({"sys": syskind, "integrator": spec, "k": k, "target": target, "metric_kind": mkind,
                      "metric": metric, "eps": eps, "dir": d, "q": q, "p": p})
    reqs, live = [], []
    for c in cases:
        n = len(c["q"])
        try:
            system = make_system(mici, c["sys"], c["target"], c["metric"])
            integ = make_integrator(mici, system, c["integrator"], c["eps"])
        except Exception as e:  # noqa: BLE001
            ctx.disagreement(f"constructing system/integrator raised {type(e).__name__}: {e}", _jsonable(c))
            continue
        free, init = model_free(c["integrator"])
        tail = f"{common.fstr(c['eps'])} {c['dir']}/1 {c['k']} {common.vstr(c['q'])} {common.vstr(c['p'])}"
        if c["sys"] == "euc":
            N = exact_inverse(metric_array(c["metric"], n))
            if c["integrator"]["kind"] == "leapfrog":
                req = f"leap {tstr(c['target'])} {mstr(N)} {tail}"
            else:
                req = f"euc {tstr(c['target'])} {mstr(N)} {common.vstr(free)} {int(init)} {tail}"
        else:
            try:
                Q, omega, ok = gauss_data(system, n)
                table, ok2 = trig_table(omega, h2_times(integ, c["integrator"], c["eps"], c["dir"]))
            except Exception as e:  # noqa: BLE001
                ctx.disagreement(f"metric eigen-data raised {type(e).__name__}: {e}", _jsonable(c))
                continue
            if not (ok and ok2):
                ctx.disagreement("implementation's eigen/trig data violate their defining equations", _jsonable(c))
                continue
            head = f"{tstr(c['target'])} {mstr(Q)} {common.vstr(omega)} {table}"
            if c["integrator"]["kind"] == "leapfrog":
                req = f"gleap {head} {tail}"
            else:
                req = f"gauss {head} {common.vstr(free)} {int(init)} {tail}"
        reqs.append(req)
        live.append((c, integ))
    res = common.run_driver("C02", reqs, timeout=900)
    for (c, integ), line in zip(live, res, strict=True):
        case = _jsonable(c)
        if line == "bad-op":
            raise common.MachineryError(f"driver rejected request for {case}")
        (mq, mp), (bq, bp) = parse_fwdback(line)
        try:
            (iq, ip), (rq, rp) = run_impl(mici, integ, c["q"], c["p"], c["dir"], c["k"])
        except Exception as e:  # noqa: BLE001
            ctx.disagreement(f"integrator.step raised {type(e).__name__}: {e}", case)
            continue
        nontrivial = c["target"]["kind"] != "quad" or c["integrator"]["kind"] != "leapfrog"
        ctx.case(case, nontrivial=nontrivial)
        ctx.count(f"{tag}:{c['sys']}:{c['integrator']['kind']}")
        ctx.count(f"{tag}:target={c['target']['kind']}:metric={c['metric_kind']}")
        scale = max(1.0, float(np.abs(iq).max()), float(np.abs(ip).max()))
        if not np.all(np.isfinite(iq)) or scale > 1e6:
            ctx.count(f"{tag}:skipped_unstable")
            continue
        if vec_exact(iq, mq) and vec_exact(ip, mp):
            ctx.count(f"{tag}:bit_exact")
        if not (vec_close(iq, mq, scale) and vec_close(ip, mp, scale)):
            ctx.disagreement(
                f"state after {c['k']} step(s) differs: impl pos {iq.tolist()} mom {ip.tolist()} "
                f"model pos {[float(x) for x in mq]} mom {[float(x) for x in mp]}", case)
            continue
        if not (vec_close(rq, bq, scale) and vec_close(rp, bp, scale)):
            ctx.disagreement(
                f"state after {c['k']} forward, flip, {c['k']} back differs: impl pos {rq.tolist()} mom {rp.tolist()} "
                f"model pos {[float(x) for x in bq]} mom {[float(x) for x in bp]}", case)


def _jsonable(c):
    out = {}
    for k, v in c.items():
        if isinstance(v, np.ndarray):
            out[k] = v.tolist()
        elif isinstance(v, dict):
            out[k] = _jsonable(v)
        else:
            out[k] = v
    return out


# --------------------------------------------------------------------------------------
# C07: component flows


def flow_cases(ctx, rng, count):
    import mici
    from mici.states import ChainState

    reqs, checks = [], []
    times = [0.125, -0.125, 0.5, -0.75, 1.0, 3.0, -7.5, 20.0, -33.25, 0.0]
    for i in range(count):
        n = int(rng.integers(1, 6))
        tkind = ["quad", "cubic", "quartic"][int(rng.integers(3))]
        target = rand_target(rng, n, tkind)
        mkind = MKINDS[i % len(MKINDS)]
        metric = rand_metric(rng, n, mkind)
        t = times[int(rng.integers(len(times)))] if rng.random() < 0.8 else dy(rng, -40, 40, 16)
        q = dyvec(rng, n, -2.0, 2.0, 16)
        p = dyvec(rng, n, -2.0, 2.0, 16)
        base = {"target": _jsonable(target), "metric_kind": mkind,
                "metric": metric.tolist() if isinstance(metric, np.ndarray) else metric, "t": t, "q": q.tolist(), "p": p.tolist()}
        Marr = metric_array(metric, n)
        N = exact_inverse(Marr)
        nld, grad = target_funcs(target)
        # --- h1_flow on both system classes
        for kind in ("euc", "gauss"):
            reqs.append(f"h1 {tstr(target)} {common.fstr(t)} {common.vstr(q)} {common.vstr(p)}")
            checks.append(("h1", kind, dict(base, flow="h1_flow", sys=kind), target, metric, t, q, p, None))
        # --- Euclidean h2_flow
        reqs.append(f"drift {mstr(N)} {common.fstr(t)} {common.vstr(q)} {common.vstr(p)}")
        checks.append(("h2", "euc", dict(base, flow="h2_flow", sys="euc"), target, metric, t, q, p, None))
        # --- Gaussian h2_flow: needs the implementation's eigen-data
        try:
            gsys = make_system(mici, "gauss", target, metric)
            Q, omega, ok = gauss_data(gsys, n)
            c, s = np.cos(omega * t), np.sin(omega * t)
            ok = ok and np.abs(c * c + s * s - 1).max() < 1e-14
        except Exception as e:  # noqa: BLE001
            ctx.disagreement(f"Gaussian system eigen-data raised {type(e).__name__}: {e}", dict(base, sys="gauss"))
            continue
        if not ok:
            ctx.disagreement("implementation's eigen/trig data violate their defining equations", dict(base, sys="gauss"))
            continue
        reqs.append(f"harm {mstr(Q)} {common.vstr(omega)} {common.vstr(c)} {common.vstr(s)} {common.vstr(q)} {common.vstr(p)}")
        checks.append(("h2", "gauss", dict(base, flow="h2_flow", sys="gauss"), target, metric, t, q, p, None))
        # --- dh2_flow_dmom of the constrained variants (any constraint: the blocks do not depend on it)
        delta = dyvec(rng, n, -1.0, 1.0, 16)
        if t == 0.0:
            # dt * metric.inv is not defined for dt = 0 (zero scalar multiples of matrices are rejected);
            # only reachable with step_size = 0
            ctx.count("flow:dmom_t0_skipped")
            continue
        reqs.append(f"driftdmom {mstr(N)} {common.fstr(t)} {common.vstr(delta)}")
        checks.append(("dmom", "ceuc", dict(base, flow="dh2_flow_dmom", sys="ceuc", delta=delta.tolist()), target, metric, t, q, p, delta))
        reqs.append(f"harmdmom {mstr(Q)} {common.vstr(omega)} {common.vstr(c)} {common.vstr(s)} {common.vstr(delta)}")
        checks.append(("dmom", "cgauss", dict(base, flow="dh2_flow_dmom", sys="cgauss", delta=delta.tolist()), target, metric, t, q, p, delta))
    res = common.run_driver("C02", reqs, timeout=900)
    for (what, kind, case, target, metric, t, q, p, delta), line in zip(checks, res, strict=True):
        if line == "bad-op":
            raise common.MachineryError(f"driver rejected request for {case}")
        ma, mb = parse_state(line)
        n = len(q)
        nld, grad = target_funcs(target)
        try:
            if what == "dmom":
                constr = lambda x: np.array([x @ x - 1.0])  # noqa: E731
                jac = lambda x: 2 * x[None, :]  # noqa: E731
                if kind == "ceuc":
                    sysc = mici.systems.DenseConstrainedEuclideanMetricSystem(
                        nld, constr, metric=mici_metric(mici, metric), grad_neg_log_dens=grad, jacob_constr=jac)
                else:
                    sysc = mici.systems.GaussianDenseConstrainedEuclideanMetricSystem(
                        nld, constr, metric=mici_metric(mici, metric), grad_neg_log_dens=grad, jacob_constr=jac,
                        mhp_constr=lambda x: (lambda m: np.zeros_like(x)))
                st = ChainState(pos=q.copy(), mom=p.copy(), dir=1)
                dq, dp = sysc.dh2_flow_dmom(st, t)
                ia, ib = np.asarray(dq @ delta, dtype=float), np.asarray(dp @ delta, dtype=float)
                ia, ib = np.broadcast_to(ia, (n,)), np.broadcast_to(ib, (n,))
            else:
                system = make_system(mici, kind, target, metric)
                st = ChainState(pos=q.copy(), mom=p.copy(), dir=1)
                (system.h1_flow if what == "h1" else system.h2_flow)(st, t)
                ia, ib = st.pos, st.mom
        except Exception as e:  # noqa: BLE001
            ctx.disagreement(f"{case['flow']} raised {type(e).__name__}: {e}", case)
            continue
        ctx.case(case, nontrivial=(t != 0.0))
        ctx.count(f"flow:{case['flow']}:{kind}:metric={case['metric_kind']}")
        if abs(t) > 6.3:
            ctx.count("flow:time_longer_than_2pi")
        scale = max(1.0, float(np.abs(ia).max()), float(np.abs(ib).max()))
        if vec_exact(ia, ma) and vec_exact(ib, mb):
            ctx.count("flow:bit_exact")
        if not (vec_close(ia, ma, scale) and vec_close(ib, mb, scale)):
            ctx.disagreement(
                f"{case['flow']} ({kind}) differs: impl {ia.tolist()} {ib.tolist()} "
                f"model {[float(x) for x in ma]} {[float(x) for x in mb]}", case)


# --------------------------------------------------------------------------------------
# C02 / C06: implicit integrators (solver = solve_fixed_point_direct with default tolerances)


def make_quad_system(mici, target, Sqq, Sqp, Spp):
    """A user-defined `System` with the non-separable quadratic h2 = q.Sqq q/2 + q.Sqp p + p.Spp p/2."""
    nld, grad = target_funcs(target)

    class QuadH2System(mici.systems.System):
        def h2(self, state):
            q, p = state.pos, state.mom
            return 0.5 * q @ Sqq @ q + q @ Sqp @ p + 0.5 * p @ Spp @ p

        def dh2_dpos(self, state):
            return Sqq @ state.pos + Sqp @ state.mom

        def dh2_dmom(self, state):
            return Sqp.T @ state.pos + Spp @ state.mom

        def sample_momentum(self, state, rng):
            return rng.standard_normal(state.pos.shape)

    return QuadH2System(nld, grad_neg_log_dens=grad)


def implicit_cases(ctx, rng, count, tag="implicit"):
    import mici
    from mici.errors import ConvergenceError, NonReversibleStepError

    cases = []
    for i in range(count):
        n = int(rng.integers(1, 4))
        which = ["gl", "im"][i % 2]
        mode = "euclid" if (which == "gl" and rng.random() < 0.3) else "coupled"
        regime = "divergent" if rng.random() < 0.12 else "contractive"
        k = int(rng.integers(1, 3))
        if which == "gl":
            kicks = 2 * k
            tk = ["quad"] + (["quartic"] if 64 * 3**kicks <= 3e5 else []) + (["cubic"] if 64 * 2**kicks <= 3e5 else [])
            tkind = tk[int(rng.integers(len(tk)))]
        else:
            tkind = "quad"  # the implicit-Euler iteration involves dh1: keep it affine
        target = rand_target(rng, n, tkind)
        z = np.zeros((n, n))
        if mode == "euclid":
            metric = rand_metric(rng, n, MKINDS[int(rng.integers(len(MKINDS)))])
            N = np.array([[float(x) for x in r] for r in exact_inverse(metric_array(metric, n))])
            Sqq, Sqp, Spp = z, z, None
        else:
            metric = None
            Sqq = rand_spd(rng, n, 8) / 2
            Sqp = np.array([[dy(rng, -0.25, 0.25, 16) for _ in range(n)] for _ in range(n)])
            Spp = rand_spd(rng, n, 8)
        eps = [0.125, 0.0625, 0.25][int(rng.integers(3))] if regime == "contractive" else [16.0, 32.0][int(rng.integers(2))]
        cases.append({"integrator": which, "mode": mode, "regime": regime, "k": k, "target": target,
                      "metric": metric, "Sqq": Sqq, "Sqp": Sqp, "Spp": Spp, "eps": eps,
                      "dir": int(rng.choice([1, -1])), "q": dyvec(rng, n, -1.0, 1.0, 16), "p": dyvec(rng, n, -1.0, 1.0, 16)})
    reqs, live = [], []
    for c in cases:
        n = len(c["q"])
        try:
            if c["mode"] == "euclid":
                system = make_system(mici, "euc", c["target"], c["metric"])
                Nex = exact_inverse(metric_array(c["metric"], n))
                mats = f"{mstr(np.zeros((n, n)))} {mstr(np.zeros((n, n)))} {mstr(Nex)}"
            else:
                system = make_quad_system(mici, c["target"], c["Sqq"], c["Sqp"], c["Spp"])
                mats = f"{mstr(c['Sqq'])} {mstr(c['Sqp'])} {mstr(c['Spp'])}"
            cls = mici.integrators.ImplicitLeapfrogIntegrator if c["integrator"] == "gl" else mici.integrators.ImplicitMidpointIntegrator
            integ = cls(system, c["eps"])
        except Exception as e:  # noqa: BLE001
            ctx.disagreement(f"constructing system/integrator raised {type(e).__name__}: {e}", _jsonable(c))
            continue
        reqs.append(f"{c['integrator']} {mats} {tstr(c['target'])} {common.fstr(c['eps'])} {c['dir']}/1 {c['k']} "
                    f"{common.vstr(c['q'])} {common.vstr(c['p'])}")
        live.append((c, integ))
    res = common.run_driver("C02", reqs, timeout=900)

    def impl_leg(integ, q, p, d, k):
        from mici.states import ChainState

        s = ChainState(pos=np.array(q, dtype=float), mom=np.array(p, dtype=float), dir=d)
        try:
            with np.errstate(all="ignore"):
                for _ in range(k):
                    s = integ.step(s)
        except ConvergenceError:
            return "err convergence", None
        except NonReversibleStepError:
            return "err nonReversible", None
        return "ok", (s.pos.copy(), s.mom.copy())

    for (c, integ), line in zip(live, res, strict=True):
        case = _jsonable(c)
        if line == "bad-op":
            raise common.MachineryError(f"driver rejected request for {case}")
        mf, _, mb = line.partition(" | ")
        try:
            f_status, f_state = impl_leg(integ, c["q"], c["p"], c["dir"], c["k"])
            b_status, b_state = ("-", None) if f_state is None else impl_leg(integ, f_state[0], f_state[1], -c["dir"], c["k"])
        except Exception as e:  # noqa: BLE001
            ctx.disagreement(f"integrator.step raised {type(e).__name__}: {e}", case)
            continue
        ctx.case(case, nontrivial=c["mode"] == "coupled")
        ctx.count(f"{tag}:{c['integrator']}:{c['mode']}:{c['regime']}")
        for leg, status, state, m in (("forward", f_status, f_state, mf), ("backward", b_status, b_state, mb)):
            m_status = "ok" if m.startswith("ok ") else m.strip()
            ctx.count(f"{tag}:{leg}:{m_status.replace(' ', '_')}")
            if status != m_status:
                if c["regime"] == "divergent":
                    # huge step sizes: magnitudes of 1e3..1e10 make the 2e-8 reverse check and the 1e10
                    # divergence threshold rounding-dependent; only "fails loudly on both sides" is compared
                    ctx.count(f"{tag}:near_tie" if "ok" in (status, m_status) else f"{tag}:both_raise_different_class")
                else:
                    ctx.disagreement(f"{leg} leg outcome differs: impl '{status}' model '{m_status}'", case)
                break
            if state is None:
                break
            mq, mp = parse_state(m[3:])
            # scale = largest magnitude along the whole trajectory (the backward leg inherits the
            # rounding errors of a possibly huge forward state)
            scale = max(1.0, float(np.abs(state[0]).max()), float(np.abs(state[1]).max()),
                        float(np.abs(f_state[0]).max()), float(np.abs(f_state[1]).max()))
            if not np.isfinite(scale) or scale > 1e6:
                ctx.count(f"{tag}:skipped_unstable")  # astronomically large states: rounding dominates
                break
            # both sides stop their fixed-point iterations at 1e-9: allow a few multiples of that
            ok = all(abs(float(a) - float(b)) <= 2e-8 * scale for a, b in zip(list(state[0]) + list(state[1]), mq + mp, strict=True))
            if not ok:
                ctx.disagreement(
                    f"{leg} state after {c['k']} step(s) differs: impl pos {state[0].tolist()} mom {state[1].tolist()} "
                    f"model pos {[float(x) for x in mq]} mom {[float(x) for x in mp]}", case)
                break


# --------------------------------------------------------------------------------------
# C03: propagated Jacobian of the model vs finite-difference Jacobian of the real step


def parse_mat(s):
    s = s.strip()
    assert s.startswith("[[") and s.endswith("]]"), s[:40]
    return [common.parse_vec("[" + r + "]") for r in s[2:-2].split("],[")]


def jacobian_cases(ctx, rng, count):
    import mici
    from mici.states import ChainState

    cases = []
    for _ in range(count):
        n = int(rng.integers(1, 4))
        syskind = "euc" if rng.random() < 0.6 else "gauss"
        spec = rand_integrator(rng)
        kicks = n_kicks(spec)
        k = int(rng.integers(1, 3))
        eps = [0.5, 0.25, 0.125, 0.3][int(rng.integers(4))]
        coarse = syskind == "gauss" or spec["kind"].startswith("bcss") or common.frac(eps).denominator > 64
        b0 = 64 if coarse else 12
        total = kicks * k
        tk = ["quad"] + (["quartic"] if b0 * 3**total <= 1.5e4 else []) + (["cubic"] if b0 * 2**total <= 1.5e4 else [])
        tkind = tk[int(rng.integers(len(tk)))] if len(tk) == 1 or rng.random() < 0.9 else "quad"
        if len(tk) > 1 and tkind == "quad":
            tkind = tk[1]
        target = rand_target(rng, n, tkind)
        mkind = MKINDS[int(rng.integers(len(MKINDS)))]
        cases.append({"sys": syskind, "integrator": spec, "k": k, "target": target, "metric_kind": mkind,
                      "metric": rand_metric(rng, n, mkind), "eps": eps, "dir": int(rng.choice([1, -1])),
                      "q": dyvec(rng, n, -1.0, 1.0, 16), "p": dyvec(rng, n, -1.0, 1.0, 16)})
    reqs, live = [], []
    for c in cases:
        n = len(c["q"])
        try:
            system = make_system(mici, c["sys"], c["target"], c["metric"])
            integ = make_integrator(mici, system, c["integrator"], c["eps"])
            free, init = model_free(c["integrator"])
            tail = f"{common.fstr(c['eps'])} {c['dir']}/1 {c['k']} {common.vstr(c['q'])} {common.vstr(c['p'])}"
            leap = c["integrator"]["kind"] == "leapfrog"
            if c["sys"] == "euc":
                N = exact_inverse(metric_array(c["metric"], n))
                req = (f"jleap {tstr(c['target'])} {mstr(N)} {tail}" if leap
                       else f"jeuc {tstr(c['target'])} {mstr(N)} {common.vstr(free)} {int(init)} {tail}")
            else:
                Q, omega, ok = gauss_data(system, n)
                times = [t for t in h2_times(integ, c["integrator"], c["eps"], c["dir"])]
                table, ok2 = trig_table(omega, times)
                if not (ok and ok2):
                    ctx.disagreement("implementation's eigen/trig data violate their defining equations", _jsonable(c))
                    continue
                head = f"{tstr(c['target'])} {mstr(Q)} {common.vstr(omega)} {table}"
                req = f"jgleap {head} {tail}" if leap else f"jgauss {head} {common.vstr(free)} {int(init)} {tail}"
        except Exception as e:  # noqa: BLE001
            ctx.disagreement(f"constructing system/integrator raised {type(e).__name__}: {e}", _jsonable(c))
            continue
        reqs.append(req)
        live.append((c, integ))
    res = common.run_driver("C03", reqs, timeout=900)

    def step_map(integ, z, d, k):
        n = len(z) // 2
        s = ChainState(pos=z[:n].copy(), mom=z[n:].copy(), dir=d)
        for _ in range(k):
            s = integ.step(s)
        return np.concatenate([s.pos, s.mom])

    for (c, integ), line in zip(live, res, strict=True):
        case = _jsonable(c)
        if line == "bad-op":
            raise common.MachineryError(f"driver rejected request for {case}")
        toks = line.split(" ")
        mD = np.array([[float(x) for x in row] for row in parse_mat(toks[2])])
        sp = toks[3]
        n = len(c["q"])
        z0 = np.concatenate([c["q"], c["p"]])
        try:
            h = 2.0**-14
            cols = []
            for j in range(2 * n):
                e = np.zeros(2 * n)
                e[j] = h
                # five-point stencil
                cols.append((-step_map(integ, z0 + 2 * e, c["dir"], c["k"]) + 8 * step_map(integ, z0 + e, c["dir"], c["k"])
                             - 8 * step_map(integ, z0 - e, c["dir"], c["k"]) + step_map(integ, z0 - 2 * e, c["dir"], c["k"])) / (12 * h))
            J = np.array(cols).T
        except Exception as e:  # noqa: BLE001
            ctx.disagreement(f"integrator.step raised {type(e).__name__}: {e}", case)
            continue
        ctx.case(case, nontrivial=c["target"]["kind"] != "quad")
        ctx.count(f"jac:{c['sys']}:{c['integrator']['kind']}:target={c['target']['kind']}")
        if c["sys"] == "euc":
            # exact data: the model's Jacobian must be EXACTLY symplectic over the rationals
            ctx.count(f"jac:model_exactly_symplectic={sp}")
            if sp != "sp=1":
                ctx.disagreement("model Jacobian of a Euclidean composition step is not exactly symplectic", case)
        scale = max(1.0, float(np.abs(mD).max()))
        err = float(np.abs(J - mD).max())
        if not np.isfinite(err) or err > 1e-6 * scale:
            ctx.disagreement(f"finite-difference Jacobian of the real step differs from the model's propagated Jacobian by {err:.2e} (scale {scale:.2e})", case)


# --------------------------------------------------------------------------------------
# corpus: recorded failing inputs of past defects / mutations, replayed first on every run


def replay_corpus(ctx, mod):
    """Re-execute every corpus/<PROP>/*.json through the module's own `replay`; an entry that fails
    again is reported as a violation with the recorded input."""
    import json

    d = common.VERIF / "corpus" / mod.PROP
    if not d.is_dir():
        return
    for f in sorted(d.glob("*.json")):
        obj = json.loads(f.read_text())
        ctx.count("corpus_replayed")
        try:
            still = bool(mod.replay(ctx, obj))
        except common.MachineryError:
            raise
        except Exception as e:  # noqa: BLE001
            still = True
            obj = {**obj, "replay_exception": f"{type(e).__name__}: {e}"}
        if still:
            keep = {k: v for k, v in obj.items() if k not in ("property", "kind", "signature", "what", "how_to_run")}
            ctx.violation(obj.get("signature", f"corpus {f.name}"), f"corpus entry {f.name} fails again: {obj.get('what', '')}", keep)


# --------------------------------------------------------------------------------------
# C02 / C06: constrained leapfrog on linear constraints (all three projection solvers)


def constrained_cases(ctx, rng, count, tag="constrained"):
    import mici
    from mici import solvers
    from mici.errors import ConvergenceError, NonReversibleStepError
    from mici.states import ChainState

    proj_solvers = {
        "newton": solvers.solve_projection_onto_manifold_newton,
        "quasi_newton": solvers.solve_projection_onto_manifold_quasi_newton,
        "newton_line_search": solvers.solve_projection_onto_manifold_newton_with_line_search,
    }
    cases = []
    for i in range(count):
        n = int(rng.integers(2, 5))
        m = int(rng.integers(1, min(n, 3)))
        # rows with a leading identity block so that a dyadic point on the manifold is explicit
        R = np.array([[dy(rng, -1.0, 1.0, 4) for _ in range(n - m)] for _ in range(m)])
        C = np.hstack([np.eye(m), R])
        free = dyvec(rng, n - m, -1.0, 1.0, 8)
        dvec = dyvec(rng, m, -1.0, 1.0, 8)
        q = np.concatenate([dvec - R @ free, free])  # C q = d exactly (dyadic arithmetic)
        mkind = ["none", "diag", "dense"][int(rng.integers(3))]
        metric = rand_metric(rng, n, mkind)
        k = int(rng.integers(1, 3))
        tkind = ["quad", "cubic", "quartic"][int(rng.integers(3))] if k == 1 else ["quad", "cubic"][int(rng.integers(2))]
        cases.append({"C": C, "d": dvec, "metric_kind": mkind, "metric": metric, "target": rand_target(rng, n, tkind),
                      "solver": list(proj_solvers)[i % 3], "n_inner": int(rng.integers(1, 4)), "k": k,
                      "eps": [0.125, 0.25, 0.0625][int(rng.integers(3))], "dir": int(rng.choice([1, -1])),
                      "q": q, "p_raw": dyvec(rng, n, -1.0, 1.0, 16)})
    reqs, live = [], []
    for c in cases:
        n = len(c["q"])
        try:
            Marr = metric_array(c["metric"], n)
            N = exact_inverse(Marr)
            Nf = np.array([[float(x) for x in r] for r in N])
            Cq = [[common.frac(x) for x in r] for r in c["C"]]
            G = [[sum(Cq[i][a] * N[a][b] * Cq[j][b] for a in range(n) for b in range(n)) for j in range(len(Cq))] for i in range(len(Cq))]
            Ginv = exact_inverse([[g for g in r] for r in G])
            nld, grad = target_funcs(c["target"])
            Cm, dv = c["C"], c["d"]
            system = mici.systems.DenseConstrainedEuclideanMetricSystem(
                nld, lambda x, Cm=Cm, dv=dv: Cm @ x - dv, metric=c["metric"], grad_neg_log_dens=grad,
                jacob_constr=lambda x, Cm=Cm: Cm, dens_wrt_hausdorff=True)
            integ = mici.integrators.ConstrainedLeapfrogIntegrator(
                system, c["eps"], n_inner_step=c["n_inner"], projection_solver=proj_solvers[c["solver"]])
            st = ChainState(pos=c["q"].copy(), mom=c["p_raw"].copy(), dir=c["dir"])
            c["p"] = np.array(system.project_onto_cotangent_space(st.mom.copy(), st))
            _ = Nf
        except Exception as e:  # noqa: BLE001
            ctx.disagreement(f"constructing constrained system/integrator raised {type(e).__name__}: {e}", _jsonable(c))
            continue
        reqs.append(f"con {mstr(c['C'])} {common.vstr(c['d'])} {mstr(N)} {mstr(Ginv)} {tstr(c['target'])} {c['n_inner']} "
                    f"{common.fstr(c['eps'])} {c['dir']}/1 {c['k']} {common.vstr(c['q'])} {common.vstr(c['p'])}")
        live.append((c, integ))
    res = common.run_driver("C02", reqs, timeout=900)

    def impl_leg(integ, q, p, d, k):
        s = ChainState(pos=np.array(q, dtype=float), mom=np.array(p, dtype=float), dir=d)
        try:
            for _ in range(k):
                s = integ.step(s)
        except ConvergenceError:
            return "err convergence", None
        except NonReversibleStepError:
            return "err nonReversible", None
        return "ok", (s.pos.copy(), s.mom.copy())

    for (c, integ), line in zip(live, res, strict=True):
        case = _jsonable(c)
        if line == "bad-op":
            raise common.MachineryError(f"driver rejected request for {case}")
        mf, _, mb = line.partition(" | ")
        try:
            f_status, f_state = impl_leg(integ, c["q"], c["p"], c["dir"], c["k"])
            b_status, b_state = ("-", None) if f_state is None else impl_leg(integ, f_state[0], f_state[1], -c["dir"], c["k"])
        except Exception as e:  # noqa: BLE001
            ctx.disagreement(f"ConstrainedLeapfrogIntegrator.step raised {type(e).__name__}: {e}", case)
            continue
        ctx.case(case, nontrivial=True)
        ctx.count(f"{tag}:{c['solver']}:n_inner={c['n_inner']}:target={c['target']['kind']}")
        for leg, status, state, mm in (("forward", f_status, f_state, mf), ("backward", b_status, b_state, mb)):
            m_status = "ok" if mm.startswith("ok ") else mm.strip()
            if status != m_status:
                ctx.disagreement(f"{leg} leg outcome differs: impl '{status}' model '{m_status}'", case)
                break
            if state is None:
                break
            mq, mp = parse_state(mm[3:])
            scale = max(1.0, float(np.abs(state[0]).max()), float(np.abs(state[1]).max()),
                        float(np.abs(f_state[0]).max()), float(np.abs(f_state[1]).max()))
            if not all(abs(float(a) - float(b)) <= 1e-8 * scale for a, b in zip(list(state[0]) + list(state[1]), mq + mp, strict=True)):
                ctx.disagreement(
                    f"{leg} state after {c['k']} constrained step(s) differs: impl pos {state[0].tolist()} mom {state[1].tolist()} "
                    f"model pos {[float(x) for x in mq]} mom {[float(x) for x in mp]}", case)
                break
