"""C01 — integration transitions leave exp(-H) exactly invariant (orbit level).

Model + theorems: lean/MiciVerif/Model/Transitions.lean, lean/MiciVerif/Props/C01.lean.

Tie (X): the REAL transition classes of `mici.transitions` are driven on an orbit (mock
integrator/system whose states are orbit indices; second layer: real systems + leapfrog) with
a *scripted generator*: `rng.uniform()` returns an object whose `__lt__(p)` records `p` and
takes the branch the script dictates, `.log()` supplies the slice level, `rng.integers` is
enumerated.  Depth-first search over scripts enumerates EVERY rng-dependent path of the real
code with its exact probability; the resulting outcome distribution (next state, direction)
is compared with the Lean model's exact rational distribution, per start state.

Direct oracle (search): balance residual `Σ_i w_i K(i→j) − w_j` of the enumerated real
kernel for every interior end state j; reported `n_step` vs integrator steps actually taken;
`accept_stat` vs the mean Metropolis acceptance probability over the states visited.
"""
from __future__ import annotations

import math
from fractions import Fraction

import numpy as np

from . import common

PROP = "C01"
# >>> builder B8: source-skeleton tie (tools/extractors/transition_skeleton.py -> Generated/TransitionSkeleton.lean,
# theorems in Props/C01S.lean: generated tree = expected tree, named projections, reading of _sample_n_step)
GENERATED = ["transition_skeleton"]
LEAN_MODULES = ["MiciVerif.Props.C01", "MiciVerif.Props.C01Stats", "MiciVerif.Props.C01S"]
# <<< builder B8
# >>> builder B12: statistics of the dynamic transitions read from the generated bodies (Props/C01T.lean)
LEAN_MODULES = LEAN_MODULES + ["MiciVerif.Props.C01T"]
# <<< builder B12
LEAN_EXTRA = ["MiciVerif.Model.Transitions", "MiciVerif.Proto"]

R_DELTA = 5  # max_delta_h = log(5); weight ratios are never within 6% of 5 (see gen_weights)
WEIGHT_NUMS = [1, 2, 3, 4, 6, 8, 12, 16]


# ---------------------------------------------------------------------------------------
# scripted generator + exhaustive path enumeration


class _U:
    def __init__(self, rng):
        self.rng = rng

    def __lt__(self, p):
        return self.rng.decide(p)

    def log(self):
        return self.rng.slice_log()


def _to_float(p):
    from mici.utils import LogRepFloat

    if isinstance(p, LogRepFloat):
        return float(p.val)
    return float(p)


class ScriptRng:
    def __init__(self, script, slice_levels=None):
        self.script = list(script)
        self.trace = []  # (options probabilities, chosen index, kind)
        self.slice_levels = slice_levels
        self.forced = 0

    def _choose(self, probs, kind):
        pos = len(self.trace)
        ch = self.script[pos] if pos < len(self.script) else next(i for i, q in enumerate(probs) if q > 0)
        self.trace.append((tuple(probs), ch, kind))
        return ch

    def uniform(self, *a, **k):
        return _U(self)

    def decide(self, p):
        pv = _to_float(p)
        if pv != pv or pv <= 0.0:
            self.forced += 1
            return False
        if pv >= 1.0:
            self.forced += 1
            return True
        return self._choose((pv, 1.0 - pv), "bern") == 0

    def integers(self, lo, hi=None):
        if hi is None:
            lo, hi = 0, lo
        n = hi - lo
        return lo + self._choose(tuple([1.0 / n] * n), "int")

    def slice_log(self):
        probs = [float(p) for _, p in self.slice_levels]
        ch = self._choose(tuple(probs), "slice")
        return self.slice_levels[ch][0]


def enumerate_paths(run, slice_levels=None, limit=200000):
    """Yield (result, probability, trace) for every rng path of `run(rng)`."""
    stack = [[]]
    n = 0
    while stack:
        script = stack.pop()
        rng = ScriptRng(script, slice_levels)
        result = run(rng)
        prob = 1.0
        for probs, ch, _ in rng.trace:
            prob *= probs[ch]
        yield result, prob, rng.trace
        n += 1
        if n > limit:
            raise common.MachineryError("path enumeration limit exceeded")
        for pos in range(len(script), len(rng.trace)):
            probs, ch, _ = rng.trace[pos]
            for alt in range(len(probs)):
                if alt != ch and probs[alt] > 0:
                    stack.append([t[1] for t in rng.trace[:pos]] + [alt])


# ---------------------------------------------------------------------------------------
# mock orbit


class Orbit:
    """Orbit window [lo, lo+L): exact weights (Fraction), energies, bad edges, momenta."""

    def __init__(self, lo, w, bad, mom, nan_nodes=()):
        self.lo, self.w, self.bad, self.mom = lo, list(w), dict(bad), list(mom)
        self.L = len(w)
        self.h = []
        for k, x in enumerate(self.w):
            if k in nan_nodes:
                self.h.append(float("nan"))
            elif x == 0:
                self.h.append(float("inf"))
            else:
                self.h.append(-math.log(float(x)))

    def inside(self, i):
        return self.lo <= i < self.lo + self.L

    def weight(self, i):
        return self.w[i - self.lo] if self.inside(i) else Fraction(0)

    def edge_ok(self, e):
        return self.inside(e) and self.inside(e + 1) and e not in self.bad


def make_env(orb):
    from mici.errors import ConvergenceError, NonReversibleStepError
    from mici.states import ChainState

    calls = []

    class System:
        def h(self, state):
            return orb.h[int(state.pos[0]) - orb.lo]

    class Integrator:
        step_size = 0.25

        def step(self, state):
            i, d = int(state.pos[0]), int(state.dir)
            e = min(i, i + d)
            if not orb.edge_ok(e):
                calls.append((i, i + d, False))
                kind = orb.bad.get(e, "conv")
                raise (NonReversibleStepError if kind == "nonrev" else ConvergenceError)("mock")
            calls.append((i, i + d, True))
            return ChainState(pos=np.array([float(i + d)]), mom=np.array([float(orb.mom[i + d - orb.lo])]), dir=d)

    def state_at(i, d):
        return ChainState(pos=np.array([float(i)]), mom=np.array([float(orb.mom[i - orb.lo])]), dir=d)

    return System(), Integrator(), state_at, calls


def crit_hash(i1, i2, s, salt):
    """Deterministic pseudo-random termination criterion on (idx1, idx2, sum of momenta)."""
    x = (i1 * 73856093) ^ (i2 * 19349663) ^ (int(round(s)) * 83492791) ^ (salt * 2654435761)
    x &= 0xFFFFFFFF
    x = (x * 2246822519 + 374761393) & 0xFFFFFFFF
    return (x >> 13) % 100 < 18


def term_flag(orb, a, m, salt, extra):
    """Specification of `_termination_criterion` for the block [a, a+2^m), m >= 1."""
    n = 2 ** m
    moms = [orb.mom[i - orb.lo] for i in range(a, a + n)]
    if crit_hash(a, a + n - 1, sum(moms), salt):
        return True
    if m > 1 and extra:
        half = n // 2
        s_neg, s_pos = sum(moms[:half]), sum(moms[half:])
        return crit_hash(a, a + half, s_neg + moms[half], salt) or crit_hash(
            a + half - 1, a + n - 1, s_pos + moms[half - 1], salt
        )
    return False


# ---------------------------------------------------------------------------------------
# generators


def escalated(ctx) -> bool:
    """A proof obligation of this check is broken (a theorem of Props/C01, C01Stats or of the source-skeleton tie
    Props/C01S no longer compiles against the tables regenerated from the tree under test): the failing-input
    search is widened (more orbits, more failing steps inside the trajectories, deeper trees)."""
    return (not ctx.build_ok) or any(not o["ok"] for o in ctx.obligations)


def gen_orbit(rng, D, lo=-16, L=33, n_bad=None):
    w = []
    mild = rng.random() < 0.5  # mild: all weight ratios <= 4 < R_DELTA, so no start-dependent divergence
    for _ in range(L):
        r = rng.random()
        if r < (0.03 if mild else 0.06):
            w.append(Fraction(0))
        elif mild:
            w.append(Fraction(int(rng.choice([4, 6, 8, 12, 16])), 16))
        else:
            w.append(Fraction(int(rng.choice(WEIGHT_NUMS)), 16) * Fraction(2) ** int(rng.integers(-1, 2)))
    nan_nodes = {k for k in range(L) if w[k] == 0 and rng.random() < 0.5}
    bad = {}
    for _ in range(int(rng.integers(0, 3)) if n_bad is None else n_bad):
        bad[int(rng.integers(lo, lo + L - 1))] = "nonrev" if rng.random() < 0.5 else "conv"
    mom = [int(x) for x in rng.integers(-3, 4, L)]
    return Orbit(lo, w, bad, mom, nan_nodes)


# weights: k/16 * 2^{-1,0,1}: ratios are (k1/k2)*2^t; 5*k2 = k1*2^t has no solution in the set
def fr(x: Fraction) -> str:
    return f"{x.numerator}/{x.denominator}"


def bits(v):
    return "[" + ",".join("1" if b else "0" for b in v) + "]"


# ---------------------------------------------------------------------------------------
# Metropolis


def run_metropolis(ctx, orb, n_or_range, i, fwd, random_len):
    import mici

    system, integ, state_at, calls = make_env(orb)
    if random_len:
        trans = mici.transitions.MetropolisRandomIntegrationTransition(system, integ, n_or_range)
    else:
        trans = mici.transitions.MetropolisStaticIntegrationTransition(system, integ, n_or_range)
    dist = {}
    bad_stats = []
    seen_stats = set()

    def run(rng):
        del calls[:]
        st, stats = trans.sample(state_at(i, 1 if fwd else -1), rng)
        return int(st.pos[0]), int(st.dir), dict(stats), list(calls)

    for (j, d, stats, cl), p, trace in enumerate_paths(run):
        dist[(j, d)] = dist.get((j, d), 0.0) + p
        taken = sum(1 for c in cl if c[2])
        if stats["n_step"] != taken:
            bad_stats.append(f"n_step={stats['n_step']} but {taken} integrator steps succeeded")
        err = any(not c[2] for c in cl)
        if err:
            want = 0.0
        else:
            jj = cl[-1][1]
            wi, wj = float(orb.weight(i)), float(orb.weight(jj))
            want = min(1.0, wj / wi) if wi > 0 else None
        if want is not None and not common.close(stats["accept_stat"], want, 1e-9, 1e-12):
            bad_stats.append(f"accept_stat={stats['accept_stat']} expected {want}")
        if err and not (stats["convergence_error"] or stats["non_reversible_step"]):
            bad_stats.append("integrator error not recorded in statistics")
        seen_stats.add((int(stats["n_step"]), float(stats["accept_stat"]),
                        bool(stats["convergence_error"] or stats["non_reversible_step"])))
    run_metropolis.last_stats = seen_stats
    return dist, bad_stats


def metropolis_section(ctx, rng):
    esc = escalated(ctx)
    n_orbits = max(ctx.n(30, 300), 150) if esc else ctx.n(30, 300)
    reqs, metas = [], []
    for _ in range(n_orbits):
        # escalated: 2-4 failing steps per window, so that many trajectories fail after >= 1 successful step
        orb = gen_orbit(rng, 0, lo=-8, L=17, n_bad=int(rng.integers(2, 5)) if esc else None)
        wv = "[" + ",".join(fr(x) for x in orb.w) + "]"
        bv = "[" + ",".join(str(e) for e in sorted(orb.bad)) + "]"
        random_len = rng.random() < 0.4
        n = int(rng.integers(2, 4)) if esc else int(rng.integers(1, 4))
        rng_range = (n, n + int(rng.integers(1, 3)))
        for i in range(-3, 4):
            if orb.weight(i) == 0:
                continue
            for fwd in (True, False):
                if random_len:
                    reqs.append(f"metror {rng_range[0]} {rng_range[1]} {i} {int(fwd)} {orb.lo} {wv} {bv}")
                    metas.append((orb, rng_range, i, fwd, True))
                else:
                    reqs.append(f"metro {n} {i} {int(fwd)} {orb.lo} {wv} {bv}")
                    metas.append((orb, n, i, fwd, False))
    # statistics of the static variant: `metropolisStats` of the model for the same requests
    stat_reqs = [r.replace("metro ", "metrostat ", 1) for r in reqs if r.startswith("metro ")]
    model_all = common.run_driver("C01", reqs + stat_reqs)
    model, model_stats = model_all[: len(reqs)], dict(zip(stat_reqs, model_all[len(reqs):], strict=True))
    kernels = {}
    for req, (orb, n, i, fwd, rl), mline in zip(reqs, metas, model, strict=True):
        mdist = {}
        for item in filter(None, mline.split(",")):
            j, d, p = item.split(":")
            mdist[(int(j), 1 if d == "1" else -1)] = common.parse_frac(p)
        try:
            idist, bad_stats = run_metropolis(ctx, orb, n, i, fwd, rl)
        except Exception as e:  # noqa: BLE001
            ctx.disagreement(f"metropolis impl raised {type(e).__name__}: {e}", {"request": req})
            continue
        ctx.case({"metropolis": req}, nontrivial=len(idist) >= 2)
        ctx.count("metropolis_random" if rl else "metropolis_static")
        keys = set(mdist) | set(idist)
        for k in keys:
            if not common.close(idist.get(k, 0.0), float(mdist.get(k, 0)), 1e-9, 1e-12):
                ctx.disagreement(
                    f"metropolis kernel differs at {k}: impl {idist.get(k, 0.0)} model {mdist.get(k, 0)}",
                    {"request": req},
                )
                break
        for b in bad_stats[:1]:
            ctx.violation("metropolis statistics", f"{req}: {b}", {"request": req, "kind": "metro-stats"})
        if not rl:
            # the statistics do not depend on the random draws: every rng path reports the same
            # triple, which must be the model's `metropolisStats`
            ms = model_stats[req.replace("metro ", "metrostat ", 1)].split(" | ")
            want = (int(ms[0]), float(common.parse_frac(ms[1])), ms[2] == "1")
            got = getattr(run_metropolis, "last_stats", set())
            ctx.count("metropolis_stats_compared")
            if len(got) != 1 or not all(
                g[0] == want[0] and common.close(g[1], want[1], 1e-9, 1e-12) and g[2] == want[2] for g in got
            ):
                ctx.disagreement(
                    f"metropolis statistics (n_step, accept_stat, error) impl {sorted(got)} model {want}",
                    {"request": req},
                )
        kernels.setdefault((id(orb), str(n), rl), (orb, n, rl, {}))[3][(i, 1 if fwd else -1)] = idist
    # direct oracle: balance of the real kernel
    for orb, n, rl, rows in kernels.values():
        nmax = n[1] - 1 if rl else n
        for j in range(-3 + nmax, 4 - nmax):
            for e in (1, -1):
                if orb.weight(j) == 0:
                    continue
                tot = 0.0
                ok = True
                for (i, d), dist in rows.items():
                    tot += float(orb.weight(i)) * dist.get((j, e), 0.0)
                # all sources inside the enumerated start window?
                srcs = [(j - e * k, e) for k in (range(n[0], n[1]) if rl else [n])] + [(j, -e)]
                for s in srcs:
                    if orb.weight(s[0]) != 0 and s not in rows:
                        ok = False
                if not ok:
                    continue
                ctx.count("metropolis_balance_checks")
                if not common.close(tot, float(orb.weight(j)), 1e-9, 1e-12):
                    ctx.violation(
                        "metropolis balance",
                        f"Σ_i w_i K(i→({j},{e})) = {tot} != w_j = {float(orb.weight(j))} (n={n}, random={rl})",
                        {"kind": "metro-balance", "orbit": orbit_json(orb), "n": n, "random": rl, "j": j, "e": e},
                    )


def orbit_json(orb):
    return {"lo": orb.lo, "w": [fr(x) for x in orb.w], "bad": {str(k): v for k, v in orb.bad.items()},
            "mom": orb.mom, "nan": [k for k in range(orb.L) if orb.h[k] != orb.h[k]]}


def orbit_from_json(o):
    return Orbit(o["lo"], [common.parse_frac(x) for x in o["w"]], {int(k): v for k, v in o["bad"].items()},
                 o["mom"], set(o["nan"]))


# ---------------------------------------------------------------------------------------
# dynamic transitions


def tree_request(orb, D, a, k, wfun, okfun, salt, extra):
    n = 2 ** D
    w = [wfun(c) for c in range(a, a + n)]
    ok = [okfun(c) for c in range(a, a + n)]
    edge = [orb.edge_ok(c) for c in range(a, a + n - 1)]
    term = []
    for m in range(1, D + 1):
        for b in range(n // 2 ** m):
            term.append(term_flag(orb, a + b * 2 ** m, m, salt, extra))
    return f"tree {D} {k} [{','.join(fr(x) for x in w)}] {bits(ok)} {bits(edge)} {bits(term)}"


def slice_levels_for(orb, i, D):
    """Intervals of the absolute slice height u in (0, w_i] on which the transition is constant."""
    wi = orb.weight(i)
    th = {wi}
    for c in range(i - 2 ** D, i + 2 ** D + 1):
        x = orb.weight(c)
        for t in (x, R_DELTA * x):
            if 0 < t < wi:
                th.add(t)
    th = sorted(th)
    levels, lo = [], Fraction(0)
    for hi in th:
        mid = (lo + hi) / 2
        levels.append((mid, (hi - lo) / wi))
        lo = hi
    return levels


def run_dynamic(orb, D, i, kind, salt, extra):
    """Enumerate the real transition from orbit point i. Returns (dist over outcomes, stat problems)."""
    import mici

    system, integ, state_at, calls = make_env(orb)

    def crit(system_, s1, s2, sum_mom):
        return crit_hash(int(s1.pos[0]), int(s2.pos[0]), float(np.sum(sum_mom)), salt)

    cls = (mici.transitions.MultinomialDynamicIntegrationTransition if kind == "multinomial"
           else mici.transitions.SliceDynamicIntegrationTransition)
    trans = cls(system, integ, max_tree_depth=D, max_delta_h=math.log(R_DELTA),
                termination_criterion=crit, do_extra_subtree_checks=extra)
    levels = None
    slice_levels = None
    if kind == "slice":
        levels = slice_levels_for(orb, i, D)
        wi = orb.weight(i)
        slice_levels = [(math.log(float(mid / wi)), float(p)) for mid, p in levels]
    out = {}
    problems = []

    def run(rng):
        del calls[:]
        st, stats = trans.sample(state_at(i, 1), rng)
        return int(st.pos[0]), dict(stats), list(calls)

    hi = orb.h[i - orb.lo]
    for (j, stats, cl), p, trace in enumerate_paths(run, slice_levels):
        level = next((t[1] for t in trace if t[2] == "slice"), None)
        dirs = tuple(t[1] for t in trace if t[2] == "bern" and t[0] == (0.5, 0.5))
        key = (j, stats["n_step"], stats["tree_depth"], bool(stats["diverging"] or stats["convergence_error"] or stats["non_reversible_step"]), level)
        out[key] = out.get(key, 0.0) + p
        taken = [c for c in cl if c[2]]
        if stats["n_step"] != len(taken):
            problems.append(f"n_step={stats['n_step']} but {len(taken)} integrator steps succeeded (start {i})")
        flagged = stats["diverging"] or stats["convergence_error"] or stats["non_reversible_step"]
        if any(not c[2] for c in cl) and not (stats["convergence_error"] or stats["non_reversible_step"]):
            problems.append("integrator error not recorded in statistics")
        if flagged:
            want = 0.0
        elif taken:
            acc = []
            for c in taken:
                hc = orb.h[c[1] - orb.lo]
                dh = hi - hc
                acc.append(0.0 if dh != dh else math.exp(min(0.0, dh)))
            want = sum(acc) / len(acc)
        else:
            want = 0.0
        if not common.close(stats["accept_stat"], want, 1e-9, 1e-12):
            problems.append(f"accept_stat={stats['accept_stat']} expected mean acceptance {want} (start {i})")
        wj = orb.weight(j)
        if wj == 0 and j != i:
            problems.append(f"returned state {j} has zero weight (energy {orb.h[j - orb.lo]})")
        # >>> builder B12: tree_depth is the index of the last doubling started (C01T.sem_dynamic_stats_is_visited:
        # tree_depth + 1 = number of passes). Doubling p attempts between 1 and 2^p integrator steps and only the last
        # one started may be cut short, so with c attempted steps in total (failing one included) the number of
        # doublings started is c.bit_length().
        if cl and stats["tree_depth"] != len(cl).bit_length() - 1:
            problems.append(f"tree_depth={stats['tree_depth']} but {len(cl)} integrator steps were attempted, i.e. "
                            f"{len(cl).bit_length()} doublings were started (start {i})")
        # <<< builder B12
    return out, levels, problems


def model_dynamic(orb, D, i, kind, salt, extra, levels):
    """Requests for the Lean model: one per (direction sequence k, slice level)."""
    reqs, meta = [], []
    wi = orb.weight(i)
    lev = levels if kind == "slice" else [(None, Fraction(1))]
    for li, (mid, pl) in enumerate(lev):
        for k in range(2 ** D):
            a = i - k
            if kind == "slice":
                wfun = lambda c, mid=mid: Fraction(1) if orb.weight(c) >= mid else Fraction(0)  # noqa: E731
                okfun = lambda c, mid=mid: not (mid > R_DELTA * orb.weight(c))  # noqa: E731
            else:
                wfun = orb.weight
                okfun = lambda c: orb.weight(c) * R_DELTA >= wi and orb.weight(c) > 0  # noqa: E731
            reqs.append(tree_request(orb, D, a, k, wfun, okfun, salt, extra))
            meta.append((li if kind == "slice" else None, pl, k, a))
    return reqs, meta


def dynamic_section(ctx, rng):
    cases = []
    esc = escalated(ctx)
    for _ in range(max(ctx.n(40, 400), 120) if esc else ctx.n(40, 400)):
        D = int(rng.choice([2, 3, 3] if esc and ctx.quick else [1, 2, 2, 3, 3] if ctx.quick else [1, 2, 3, 3, 4]))
        half = max(16, 2 ** (D + 1) + 2)
        orb = gen_orbit(rng, D, lo=-half, L=2 * half + 1)
        kind = "multinomial" if rng.random() < 0.5 else "slice"
        extra = bool(rng.random() < 0.6)
        salt = int(rng.integers(0, 1 << 30))
        starts = range(-2 ** D + 1, 2 ** D) if D <= 3 else range(-3, 4)
        cases.append((orb, D, kind, extra, salt, [i for i in starts if orb.weight(i) > 0]))
    all_reqs, index = [], []
    real = {}
    for ci, (orb, D, kind, extra, salt, starts) in enumerate(cases):
        for i in starts:
            try:
                out, levels, problems = run_dynamic(orb, D, i, kind, salt, extra)
            except Exception as e:  # noqa: BLE001
                ctx.disagreement(
                    f"dynamic impl raised {type(e).__name__}: {e}",
                    {"orbit": orbit_json(orb), "D": D, "kind": kind, "extra": extra, "salt": salt, "start": i},
                )
                continue
            real[(ci, i)] = (out, problems)
            reqs, meta = model_dynamic(orb, D, i, kind, salt, extra, levels)
            for r, m in zip(reqs, meta, strict=True):
                index.append((ci, i, m))
                all_reqs.append(r)
    model_lines = common.run_driver("C01", all_reqs)
    model = {}
    for (ci, i, (li, pl, k, a)), line in zip(index, model_lines, strict=True):
        D = cases[ci][1]
        dist_s, nstep, _acc, iters, err = [x.strip() for x in line.split("|")]
        for item in filter(None, dist_s.split(",")):
            c, p = item.split(":")
            key = (a + int(c), int(nstep), int(iters) - 1, err == "1", li)
            d = model.setdefault((ci, i), {})
            d[key] = d.get(key, Fraction(0)) + pl * common.parse_frac(p) / 2 ** D
    for (ci, i), (out, problems) in real.items():
        orb, D, kind, extra, salt, _ = cases[ci]
        desc = {"orbit": orbit_json(orb), "D": D, "kind": kind, "extra": extra, "salt": salt, "start": i}
        m = model.get((ci, i), {})
        ctx.case({"dynamic": [kind, D, extra, i], "paths": len(out)}, nontrivial=len(out) >= 3)
        ctx.count(f"{kind}:D={D}")
        ctx.count("dynamic_outcome_classes", len(out))
        for k in set(out) | set(m):
            if not common.close(out.get(k, 0.0), float(m.get(k, 0)), 1e-9, 1e-12):
                ctx.disagreement(
                    f"{kind} D={D} start {i}: outcome {k} impl prob {out.get(k, 0.0)} model {float(m.get(k, 0))}", desc)
                break
        for pr in problems[:1]:
            ctx.violation(f"{kind} statistics/containment", f"{pr}", {**desc, "replay_kind": "dyn-stats"})
    # direct oracle: balance of the real kernel for every fully covered end state
    for ci, (orb, D, kind, extra, salt, starts) in enumerate(cases):
        if D > 3:
            continue
        if kind == "multinomial":
            # start-dependent divergence: the property (and the theorem) exclude orbits on which a
            # positive-weight node is flagged divergent for some start; count and skip those
            ws = [orb.weight(c) for c in range(-2 ** (D + 1), 2 ** (D + 1) + 1) if orb.weight(c) > 0]
            if max(ws) / min(ws) > R_DELTA:
                ctx.count("balance_skipped_start_dependent_divergence")
                continue
        row = {}
        for i in starts:
            if (ci, i) not in real:
                break
            for (j, *_), p in real[(ci, i)][0].items():
                row[(i, j)] = row.get((i, j), 0.0) + p
        else:
            j = 0
            if orb.weight(j) == 0:
                continue
            tot = sum(float(orb.weight(i)) * row.get((i, j), 0.0) for i in starts)
            ctx.count("dynamic_balance_checks")
            if not common.close(tot, float(orb.weight(j)), 1e-9, 1e-12):
                ctx.violation(
                    f"{kind} balance",
                    f"Σ_i w_i K(i→{j}) = {tot} != w_j = {float(orb.weight(j))} ({kind}, D={D}, extra={extra})",
                    {"orbit": orbit_json(orb), "D": D, "kind": kind, "extra": extra, "salt": salt, "replay_kind": "dyn-balance"},
                )


def run(ctx: common.Ctx):
    rng = common.rng_for(ctx)
    ctx.rule = (
        "random orbits (dyadic weights incl. zero/NaN energies, failing edges, integer momenta, hashed termination "
        "criterion on (idx1, idx2, Σ mom)); every rng path of the real transition enumerated exhaustively per start; "
        "non-trivial = start whose outcome distribution has >= 3 outcome classes (>= 2 for Metropolis)"
    )
    ctx.assumptions += [
        "orbit abstraction: an integrator step i→i+1 succeeds iff the step i+1→i does and returns to i (C02)",
        "float weights exp(-h) vs exact dyadic weights: probabilities compared with rtol 1e-9",
        "slice variant: one representative slice level per interval between thresholds; Fubini over u (proved as a finite mixture: slice_mixture_invariant)",
    ]
    if escalated(ctx):
        ctx.count("search_escalated")
    metropolis_section(ctx, rng)
    dynamic_section(ctx, rng)
    real_system_section(ctx, rng)


# ---------------------------------------------------------------------------------------
# second layer: real system + real leapfrog integrator (covers the glue: built-in criteria,
# LogRepFloat arithmetic, state.dir handling)


def real_system_section(ctx, rng):
    import mici

    for _ in range(ctx.n(12, 100)):
        D = int(rng.choice([1, 2, 3]))
        dim = int(rng.integers(1, 3))
        kind = "multinomial" if rng.random() < 0.5 else "slice"
        crit_name = "riemannian" if rng.random() < 0.5 else "euclidean"
        extra = bool(rng.random() < 0.5)
        eps = float(rng.choice([0.125, 0.25, 0.3125]))
        q0 = 0.7 * rng.standard_normal(dim)
        p0 = rng.standard_normal(dim)
        system = mici.systems.EuclideanMetricSystem(
            neg_log_dens=lambda q: 0.5 * float(q @ q) + 0.25 * float(np.sum(q ** 4)),
            grad_neg_log_dens=lambda q: q + q ** 3,
        )
        integ = mici.integrators.LeapfrogIntegrator(system, step_size=eps)
        crit = (mici.transitions.riemannian_no_u_turn_criterion if crit_name == "riemannian"
                else mici.transitions.euclidean_no_u_turn_criterion)
        cls = (mici.transitions.MultinomialDynamicIntegrationTransition if kind == "multinomial"
               else mici.transitions.SliceDynamicIntegrationTransition)
        trans = cls(system, integ, max_tree_depth=D, termination_criterion=crit, do_extra_subtree_checks=extra)
        n = 2 ** D
        # orbit by stepping both ways
        states = {0: mici.states.ChainState(pos=q0.copy(), mom=p0.copy(), dir=1)}
        for d in (1, -1):
            s = states[0].copy()
            s.dir = d
            for t in range(1, 2 * n + 1):
                s = integ.step(s)
                states[d * t] = s
        hs = {i: float(system.h(s)) for i, s in states.items()}
        desc = {"real_system": True, "D": D, "dim": dim, "kind": kind, "crit": crit_name, "extra": extra,
                "eps": eps, "q0": [float(x) for x in q0], "p0": [float(x) for x in p0]}
        # enumerate the real kernel from every start in the window, identifying states by position
        def locate(st):
            for i, s in states.items():
                if np.allclose(s.pos, st.pos, rtol=1e-7, atol=1e-7) and np.allclose(s.mom, st.mom, rtol=1e-7, atol=1e-7):
                    return i
            return None

        rows = {}
        try:
            for i in range(-n + 1, n):
                levels = None
                if kind == "slice":
                    th = sorted({hs[c] for c in range(i - n, i + n + 1) if hs[c] > hs[i]})
                    # levels in log u relative to exp(-h_i): (-(h_c - h_i)) thresholds
                    edges = [0.0] + [-(t - hs[i]) for t in th]  # log-u thresholds descending
                    levels = []
                    for a_, b_ in zip(edges, edges[1:] + [None]):
                        hi_u = math.exp(a_)
                        lo_u = math.exp(b_) if b_ is not None else 0.0
                        mid = 0.5 * (hi_u + lo_u)
                        if hi_u - lo_u > 0 and mid > 0:
                            levels.append((math.log(mid), hi_u - lo_u))
                out = {}

                def run(rng_, i=i):
                    s = states[i].copy()
                    s.dir = 1
                    st, stats = trans.sample(s, rng_)
                    return locate(st), stats["n_step"]

                for (j, _ns), p, _tr in enumerate_paths(run, levels):
                    out[j] = out.get(j, 0.0) + p
                rows[i] = out
        except Exception as e:  # noqa: BLE001
            ctx.disagreement(f"real-system dynamic transition raised {type(e).__name__}: {e}", desc)
            continue
        ctx.case(desc, nontrivial=any(len(o) >= 3 for o in rows.values()))
        ctx.count(f"real_system:{kind}:{crit_name}")
        if any(None in o for o in rows.values()):
            ctx.violation("real-system: returned state not on orbit", "transition returned a state that is not an orbit point", desc)
            continue
        tot = sum(math.exp(-hs[i]) * rows[i].get(0, 0.0) for i in rows)
        if not common.close(tot, math.exp(-hs[0]), 1e-7, 1e-10):
            ctx.violation(
                f"real-system {kind} balance",
                f"Σ_i w_i K(i→0) = {tot} != w_0 = {math.exp(-hs[0])} ({desc})", {**desc, "replay_kind": "real-balance"})


def replay(ctx, obj):
    sub = common.Ctx(ctx.prop, ctx.tier, ctx.seed)
    if obj.get("replay_kind") in ("dyn-balance", "dyn-stats") or obj.get("kind") == "metro-balance":
        orb = orbit_from_json(obj["orbit"])
        if obj.get("kind") == "metro-balance":
            n = tuple(obj["n"]) if obj["random"] else obj["n"]
            j, e = obj["j"], obj["e"]
            tot = 0.0
            for i in range(-8, 9):
                if not orb.inside(i) or orb.weight(i) == 0:
                    continue
                for fwd in (True, False):
                    try:
                        dist, _ = run_metropolis(sub, orb, n, i, fwd, obj["random"])
                    except Exception:  # noqa: BLE001
                        return True
                    tot += float(orb.weight(i)) * dist.get((j, e), 0.0)
            return not common.close(tot, float(orb.weight(j)), 1e-9, 1e-12)
        D, kind, extra, salt = obj["D"], obj["kind"], obj["extra"], obj["salt"]
        starts = [obj["start"]] if "start" in obj else [i for i in range(-2 ** D + 1, 2 ** D) if orb.weight(i) > 0]
        tot = 0.0
        for i in starts:
            try:
                out, _lv, problems = run_dynamic(orb, D, i, kind, salt, extra)
            except Exception:  # noqa: BLE001
                return True
            if obj["replay_kind"] == "dyn-stats" and problems:
                return True
            for (j, *_), p in out.items():
                if j == 0:
                    tot += float(orb.weight(i)) * p
        if obj["replay_kind"] == "dyn-balance":
            return not common.close(tot, float(orb.weight(0)), 1e-9, 1e-12)
        return False
    run(sub)
    return any(v["signature"] == obj.get("signature") for v in sub.violations)


LEVEL_TEXT = (
    "Lean 4 theorems, for every linearly ordered field, every orbit, every step count / depth limit / termination "
    "criterion (extra sub-tree checks are part of the term flags) / pattern of failing steps and divergent points, and "
    "ALL outcomes of the random draws with exact probabilities: metropolis_invariant, metropolisRandom_invariant "
    "(static / random-length Metropolis), final_invariant (dynamic transition on any trajectory tree: Σ_i w_i·E[g(next) | "
    "start i] = Σ_c w_c g(c)), dynamic_invariant (+ dynamic_unreachable) on a ℤ-indexed orbit as the uniform mixture "
    "over the 2^D direction sequences, slice_mixture_invariant (slice variant as a finite mixture over slice levels, "
    "divergence threshold a function of (point, level) only). The multinomial variant's start-dependent divergence "
    "test is covered only under PosOk (positive-weight points not flagged); a decide'd counterexample shows the "
    "hypothesis is necessary. The model is tied to transitions.py by exhaustive enumeration of every rng path of the "
    "real classes (scripted generator) on random orbits, compared per start with the model's exact distribution "
    "jointly with n_step, tree_depth and error flags; second layer with real system + leapfrog + built-in criteria. "
    "Statistics clause (Props/C01Stats.lean): final_in_visited, visited_distinct, nStep_le, nStep_full, "
    "nStep_treeOf_full, build_ok_iff_valid, acceptStat_unit/_error/_mean (dynamic), stepsTaken_le/_eq_iff, "
    "metropolisStats_spec, metropolis_accept_is_move_prob (Metropolis: reported accept_stat = probability that the "
    "proposal is returned): the reported n_step counts each successful integrator step exactly once and accept_stat "
    "is the mean acceptance probability over exactly the states visited."
)
LEVEL_NOTE = (
    "Trusted: Lean kernel, axioms {propext, Classical.choice, Quot.sound}; the orbit abstraction (a step i→i+1 "
    "succeeds iff i+1→i does: C02; volume preservation: C03); float exp/log vs exact weights (rtol 1e-9); harness. "
    "Statistics (n_step, accept_stat) are checked on the real code against the integrator calls actually made "
    "(direct oracle) and against the model's visited-leaf / steps-taken computation (correspondence); the theorems of "
    "Props/C01Stats.lean relate that computation to the transition kernel. Continuous-state measure theory is not formalised."
)
TECHNIQUE = "Lean 4 proof (structural induction on trajectory trees, finite-sum re-indexing) + exhaustive rng-path enumeration of the real transitions vs the model"

# >>> builder B8: source-skeleton tie
LEVEL_TEXT += (
    " Source tie (Props/C01S.lean, re-checked against Generated/TransitionSkeleton.lean, which is regenerated from "
    "transitions.py of the tree under test on every run): skel_*_eq_model — the statement trees of _sample_n_step, both "
    "Metropolis sample methods and constructors, DynamicIntegrationTransition.sample/_build_tree/_new_leave/"
    "_merge_subtrees/_termination_criterion/_init_aux_vars, both subclasses' _weight_function/_weight_ratio/"
    "_check_divergence, both no-U-turn criteria and the momentum transitions equal the annotated trees the model was "
    "written against; 19 named projections computed from the generated trees only (accept test guarded by `not "
    "integration_error` with the guard first, direction reversed on the proposal and after the test, NaN gives acceptance "
    "0, n_step = loop index after an error, accept_stat 0 after an error, fair direction draw, break after a terminating "
    "merge, biased-progressive ratio new/old, uniform-progressive ratio inside _build_tree, slice divergence on the slice "
    "variable / multinomial on h_init, termination criterion called with (tree, negative half, positive half) at both "
    "sites, extra sub-tree checks only when enabled, weight functions, class overrides, statistics, momentum formula); "
    "sem_sample_n_step_is_metropolis — the reading Skel.TSem of the generated body of _sample_n_step on an arbitrary "
    "integrator orbit (steps one by one, aliasing of state_p, short-circuit of the accept test) IS Transitions.metropolis "
    "paired with Transitions.metropolisStats, for every orbit, n >= 1, start and direction; "
    "sem_sample_is_metropolis_and_metropolisRandom — the two sample methods are metropolis o n and "
    "bind (uniformRange lo hi) (metropolis o .); sem_dynamic_pass_is_stepUp / sem_dynamic_loop_is_final — the reading "
    "Skel.DSem of the generated loop body of DynamicIntegrationTransition.sample on a trajectory tree is "
    "Transitions.stepUp per pass and Transitions.final for the whole loop, for every tree, flags, weights and start, the "
    "_build_tree calls being read by Skel.BSem from the generated body of _build_tree: sem_build_tree_is_propose — that "
    "body (leaf block with its try/handler, recursive part) hands back nothing iff not(entryOk and valid), else weight W "
    "and a proposal distributed as TTree.propose. Outside the theorems: the criterion functions (a flag of the block; "
    "projections only), the leaf-level conventions (weights, which statements raise), the statistics of the dynamic "
    "transitions (projections + correspondence). A broken obligation widens the search (5x orbits with 2-4 failing "
    "steps each, 3x trees, depth >= 2)."
)
LEVEL_NOTE += (
    " Trusted in the source tie: the AST translator tools/extractors/transition_skeleton.py (fail-closed unknown nodes, "
    "committed expected output) and the reading conventions of Skel.TSem (exp(min(0, dh)) with NaN -> 0 is ratio of "
    "weights; integrator.step returns a new object and raises exactly on a failing orbit step), validated by the "
    "correspondence runs."
)
# <<< builder B8

# >>> builder B12: statistics reading of the dynamic transitions
LEVEL_TEXT += (
    " Statistics of the dynamic transitions read from the source (Props/C01T.lean, re-checked against the regenerated "
    "Generated/TransitionSkeleton.lean): sem_stats_plans / sem_stats_loop_plan - the generated bodies of "
    "DynamicIntegrationTransition.sample, _build_tree and _process_integrator_error have exactly the expected statement "
    "plans; the reading Skel.SSem executes them in source order on the shared stats dictionary (n_step += 1, "
    "sum_metrop_accept_prob += metrop_accept_prob, flags set by _process_integrator_error in the except IntegratorError "
    "handler with the class of what was raised, stats.pop / division by n_step guarded by n_step > 0, accept_stat = 0 if "
    "any flag, tree_depth = depth); sem_build_tree_stats_is_buildVisit - a _build_tree call, from any dictionary state, "
    "counts exactly the leaves of buildVisit in order, adds their acceptance probabilities, terminates iff buildVisit "
    "does not end ok, touches the flags iff it ends err; sem_dynamic_stats_any_error_class / sem_dynamic_stats_is_visited "
    "- the whole sample reports visited t start (counted leaves, n_step = nStep, tree_depth + 1 = number of passes, any "
    "flag = error flag, accept_stat = acceptStat) for every tree, start and failure pattern; sem_final_in_visited, "
    "sem_nstep_counts_each_step_once, sem_accept_stat_is_mean_over_visited, sem_nstep_full - the C01Stats theorems "
    "transported to what the generated code reports; skel_check_divergence_raises_divergence. A decided example shows "
    "the hypothesis 'a failing step raises a flagged class' is necessary: after a plain IntegratorError no flag is set "
    "and accept_stat is the mean over the leaves counted so far, not 0."
)
LEVEL_NOTE += (
    " Trusted in the statistics reading (Model/TransitionStatsSem.lean): min(1, exp(h_init - h_k)) (0 for NaN) of the "
    "leaf at offset k is read as ratio (w k) (w start); integrator.step raises iff the entering step fails, "
    "_check_divergence raises HamiltonianDivergenceError iff the leaf is flagged divergent, nothing else in the try body "
    "raises; isinstance on the three unrelated error classes; the exact text of the stats dictionary display and of the "
    "any(...) generator; the termination criterion as a flag of the block; reject_prob is not modelled."
)
# <<< builder B12
