"""C13 — sampler outputs record exactly the post-iteration chain states.

Model: lean/MiciVerif/Model/Sampler.lean (+ SamplerCount.lean: the executable "counting" kernel),
theorems lean/MiciVerif/Props/C13.lean, generated table lean/MiciVerif/Generated/StatTypes.lean.

Tie (X): the real `MarkovChainMonteCarloMethod.sample_chains` is run with counting transitions /
adapters / trace functions (`CountA`, `CountB`, `FastA`, `SlowA`, `trace0`, `trace1`) whose every
output value is a function of (chain id, number of completed transitions, generator position,
adapted parameter), and compared cell by cell with the Lean model instantiated with the same
kernel, for all combinations of chain counts, warm-up/main counts (incl. 0), trace_warm_up,
adapters/stagers, in-memory vs memmap (temporary / user directory, .npy re-opened), n_process in
{1,2,3,None}, initial states as dicts / ChainState objects.
Direct oracle: an independent Python re-computation of every expected row (`spec_run`), plus real
HMC runs (arrays as initial states) whose statistics/trace rows are compared with a step-by-step
re-execution of the transitions.

This module also hosts the machinery shared with harness/c14.py and harness/c15.py.
"""
from __future__ import annotations

import os
import signal
import tempfile
import time
from fractions import Fraction
from pathlib import Path

import numpy as np

from . import common

PROP = "C13"
# Props/C13S.lean: the control skeleton of samplers.py regenerated on every run
# (Generated/SamplerSkeleton.lean, plug-in sampler_skeleton) equals the skeleton Model/Sampler.lean was
# written against (Model/SamplerSkeleton.lean); named projections + semantic reading of the loop bodies
LEAN_MODULES = ["MiciVerif.Props.C13", "MiciVerif.Props.C13S"]
LEAN_EXTRA = [
    "MiciVerif.Model.Stagers", "MiciVerif.Model.Sampler", "MiciVerif.Model.SamplerCount",
    "MiciVerif.Model.SamplerDriver", "MiciVerif.Proto",
]
GENERATED = ["stat_types", "sampler_skeleton"]
SKELETON_MODULES = (".C13S.", ".C14S.", ".C15S.", ".C16K.")
# --- B16: output-storage helpers of samplers.py (_init_traces, _init_stats, memmap helpers, path conversions,
# _get_per_chain_rngs, _check_and_process_init_state, HMC wrapper) regenerated on every run as statement trees
# (plug-in sampler_storage_skeleton -> Generated/SamplerStorageSkeleton.lean) and proved equal to the trees the
# model's initSys / nTraceIter were written against (Props/C13K.lean; fill-value facts in Props/C15K.lean)
LEAN_MODULES += ["MiciVerif.Props.C13K"]
GENERATED += ["sampler_storage_skeleton"]
STORAGE_MODULES = (".C13K.", ".C15K.")
# --- end B16


def skeleton_escalation(ctx) -> int:
    """Factor by which the failing-input search is enlarged: > 1 when an obligation about the generated
    control skeleton of samplers.py (Props/C13S, C14S, C15S, C16K) no longer checks, i.e. the orchestration
    code is not the code the model was written against."""
    broken = [o["theorem"] for o in ctx.obligations if not o["ok"] and any(m in o["theorem"] for m in SKELETON_MODULES)]
    if not broken:
        return 1
    ctx.extra["skeleton_obligations_broken"] = broken
    ctx.count("escalated_search(skeleton obligation broken)")
    return 3


class _Timeout(Exception):
    pass


def with_timeout(fn, secs=60.0):
    def handler(signum, frame):  # noqa: ARG001
        raise _Timeout

    old = signal.signal(signal.SIGALRM, handler)
    signal.setitimer(signal.ITIMER_REAL, secs)
    try:
        return fn()
    finally:
        signal.setitimer(signal.ITIMER_REAL, 0)
        signal.signal(signal.SIGALRM, old)


# ---------------------------------------------------------------------------------------
# hooks: "user functions" called by the counting kernel (interrupt / delay / call log)


class _Hook:
    def __init__(self):
        self.reset()

    def reset(self):
        self.spec = None  # None | ("count", k) | ("struct", cid, x, opname, callno)
        self.count = 0
        self.log = None  # list collecting (cid, x, opname, callno) when not None
        self.delays = None  # {cid: seconds} slept in trace0 / CountB
        self.fired = False


HOOK = _Hook()


def hook(state, opname, callno=0):
    h = HOOK
    cid, x = int(state.cid), int(state.x)
    if h.log is not None:
        h.log.append((cid, x, opname, callno))
    if h.delays is not None and opname in ("b", "t0") and callno == 0:
        d = h.delays.get(cid, 0.0)
        if d:
            time.sleep(d)
    if h.spec is not None:
        if h.spec[0] == "count":
            if h.count == h.spec[1]:
                h.count += 1
                h.fired = True
                raise KeyboardInterrupt
            h.count += 1
        elif h.spec[0] == "any":
            # every chain is interrupted when it reaches (x, opname, callno): all workers stop
            if h.spec[1:] == (x, opname, callno):
                h.fired = True
                raise KeyboardInterrupt
        elif h.spec[1:] == (cid, x, opname, callno):
            h.fired = True
            raise KeyboardInterrupt


# ---------------------------------------------------------------------------------------
# counting kernel (mirrors lean/MiciVerif/Model/SamplerCount.lean)


def _mk_classes():
    from mici.adapters import Adapter
    from mici.transitions import Transition

    class CountA(Transition):
        """In-place 'momentum-like' transition: consumes `da` draws, counts itself."""

        state_variables = {"cid", "x", "na", "nf", "u0", "ud"}

        def __init__(self, da, with_stats):
            self.da = da
            self.with_stats = with_stats

        @property
        def statistic_types(self):
            if not self.with_stats:
                return None
            return {"na": (np.int64, -1), "u0": (np.float64, np.nan)}

        def sample(self, state, rng):
            hook(state, "a", 0)
            u = rng.random(self.da)
            state.na = state.na + 1
            if self.da > 0:
                state.u0 = float(u[0])
                state.ud = self.da
            if not self.with_stats:
                return state, None
            return state, {"na": state.na, "u0": float(u[0]) if self.da > 0 else np.nan}

    class CountB(Transition):
        """Copying 'integration-like' transition with adaptable parameters par/met."""

        state_variables = {"cid", "x", "na", "nf", "u0", "ud"}

        def __init__(self, db, par_draws, par, met, ncalls=1):
            self.db = db
            self.par_draws = par_draws
            self.par = par
            self.met = met
            self.ncalls = ncalls

        @property
        def statistic_types(self):
            return {
                "x": (np.int64, -1),
                "u0": (np.float64, np.nan),
                "d": (np.int64, -1),
                "par": (np.int64, -1),
                "met": (np.int64, -1),
                "odd": (bool, False),
                "pid": (np.int64, -1),
            }

        def sample(self, state, rng):
            for j in range(self.ncalls):
                hook(state, "b", j)
            d = self.db + (self.par % 3 if self.par_draws else 0)
            u = rng.random(d)
            new = state.copy()
            new.x = state.x + 1
            if d > 0:
                new.u0 = float(u[0])
                new.ud = d
            stats = {
                "x": new.x, "u0": float(u[0]) if d > 0 else np.nan, "d": d,
                "par": self.par, "met": self.met, "odd": new.x % 2 == 1, "pid": os.getpid(),
            }
            return new, stats

    class FastA(Adapter):
        is_fast = True

        def initialize(self, chain_state, transition):
            transition.par = 7 + int(chain_state.cid) + 10 * int(chain_state.x)
            return {"n": 0, "acc": 0}

        def update(self, adapt_state, chain_state, trans_stats, transition):
            adapt_state["n"] += 1
            adapt_state["acc"] += int(trans_stats["x"])
            transition.par = 3 * adapt_state["acc"] + adapt_state["n"]

        def finalize(self, adapt_states, chain_states, transition, rngs):
            transition.par = sum(a["acc"] for a in adapt_states) + 2 * sum(a["n"] for a in adapt_states)

    class SlowA(Adapter):
        is_fast = False

        def __init__(self, e):
            self.e = e

        def initialize(self, chain_state, transition):
            return {"m": 0, "sum": 0}

        def update(self, adapt_state, chain_state, trans_stats, transition):
            adapt_state["m"] += 1
            adapt_state["sum"] += int(chain_state.x) + int(chain_state.cid)

        def finalize(self, adapt_states, chain_states, transition, rngs):
            transition.met = sum(a["sum"] for a in adapt_states) + sum(a["m"] for a in adapt_states)
            # like the built-in metric adapters: resample a state component from each chain's generator
            for chain_state, rng in zip(chain_states, rngs, strict=True):
                u = rng.random(self.e)
                chain_state.nf = chain_state.nf + 1
                if self.e > 0:
                    chain_state.u0 = float(u[0])
                    chain_state.ud = self.e

    return CountA, CountB, FastA, SlowA


_CLASSES = None


def classes():
    """Classes are created lazily (mici must be imported from MICI_REPO first) and registered as
    module attributes so that they pickle by reference for worker processes."""
    global _CLASSES  # noqa: PLW0603
    if _CLASSES is None:
        _CLASSES = _mk_classes()
        for c in _CLASSES:
            c.__module__ = __name__
            c.__qualname__ = c.__name__
            globals()[c.__name__] = c
    return _CLASSES


def trace0(state):
    hook(state, "t0", 0)
    return {"x": state.x, "cid": state.cid, "u0": state.u0}


def trace1(state):
    hook(state, "t1", 0)
    # shifted by one so that a written row can never look like the integer fill value 0
    return {"na_nf": np.array([state.na + 1, state.nf + 1])}


TRACES = [trace0, trace1]

# ---------------------------------------------------------------------------------------
# configurations

DEFAULT = {
    "hasA": True, "da": 1, "aStats": True, "db": 2, "pd": False, "e": 1, "hf": True, "hs": True,
    "nf": 2, "par0": 5, "met0": 9, "inits": [[0, 0]], "nw": 3, "nm": 2, "tw": True,
    "stager": "warm", "n_process": 1, "memmap": "mem", "init_kind": "dict", "seed": 1, "ncalls": 1,
    "bitgen": "PCG64",
}


def base_rng(cfg):
    return np.random.Generator(getattr(np.random, cfg.get("bitgen", "PCG64"))(cfg["seed"]))


def stager_token(cfg):
    s = cfg["stager"]
    if s == "warm" or s is None:
        return "warm"
    a, b, c, m = s[1:]
    m = Fraction(m)
    return f"win:{a}:{b}:{c}:{m.numerator}/{m.denominator}"


def make_stager(cfg):
    import mici

    s = cfg["stager"]
    if s is None:
        return None
    if s == "warm":
        return mici.stagers.WarmUpStager()
    a, b, c, m = s[1:]
    return mici.stagers.WindowedWarmUpStager(a, b, c, float(Fraction(m)))


def uses_windowed(cfg):
    s = cfg["stager"]
    if s is None:
        return cfg["hs"]  # default stager choice of sample_chains: windowed iff a slow adapter is present
    return s != "warm"


def stage_table(cfg):
    """[(n, kind)] computed with the *real* stager (kind: fast/slow/main)."""
    classes()
    import mici

    stager = make_stager(cfg)
    if stager is None:
        stager = mici.stagers.WindowedWarmUpStager() if cfg["hs"] else mici.stagers.WarmUpStager()

    class _F:
        is_fast = True

    class _S:
        is_fast = False

    f, s = _F(), _S()
    st = stager.stages(cfg["nw"], cfg["nm"], {"b": [f, s]}, [trace0], trace_warm_up=cfg["tw"])
    out = []
    for v in st.values():
        kind = "main" if v.adapters is None else ("slow" if s in v.adapters["b"] else "fast")
        out.append((int(v.n_iter), kind, v.trace_funcs is not None, bool(v.record_stats)))
    return out


def n_ops(cfg):
    return (1 if cfg["hasA"] else 0) + 1 + cfg["nf"]


def op_index(cfg, opname):
    nt = (1 if cfg["hasA"] else 0) + 1
    return {"a": 0, "b": nt - 1, "t0": nt, "t1": nt + 1}[opname]


def model_stager_token(cfg):
    if cfg["stager"] is None:
        return "win:25:75:50:2/1" if cfg["hs"] else "warm"
    return stager_token(cfg)


def model_request(cfg, modes="seq", intr=None):
    inits = "[" + ",".join(f"{c}:{x}" for c, x in cfg["inits"]) + "]"
    it = "-" if intr is None else ".".join(str(v) for v in intr)
    return (
        f"run {int(cfg['hasA'])} {cfg['da']} {cfg['db']} {int(cfg['pd'])} {cfg['e']} {int(cfg['hf'])} "
        f"{int(cfg['hs'])} {cfg['nf']} {cfg['par0']} {cfg['met0']} {inits} {cfg['nw']} {cfg['nm']} "
        f"{int(cfg['tw'])} {model_stager_token(cfg)} {modes} {it}"
    )


def sched_token(sched):
    return "/".join(".".join(str(c) for c in w) for w in sched)


def default_modes(cfg, intr=None, restore=True):
    """Mode token for the model matching cfg['n_process'] (any valid schedule: the result is
    schedule independent by theorem C14.schedule_independent)."""
    if cfg["n_process"] == 1:
        return "seq"
    n = len(cfg["inits"])
    sched = [[c] for c in range(n)]
    return f"par:{int(restore)}:{sched_token(sched)}"


def parse_cell(tok):
    return None if tok == "_" else [int(v) for v in tok.split(":")]


def parse_model(line):
    if line == "bad-op":
        raise common.MachineryError("model driver answered bad-op")
    head, finals, chains = line.split(" | ")
    stopped, offset, par, met = head.split()
    fs = [tuple(int(v) for v in t.split(":")) for t in finals.split(",") if t]
    chs = []
    for ch in chains.split(" # "):
        parts = ch.split(" ; ")
        pos = int(parts[0])
        log = [tuple(int(v) for v in t.split("+")) for t in parts[1].strip().split(",") if t.strip()]
        arrs = [[parse_cell(t) for t in a.strip().split(",") if t] for a in parts[2:]]
        chs.append({"pos": pos, "log": log, "arrays": arrs})
    return {
        "stopped": stopped == "1", "offset": int(offset), "par": int(par), "met": int(met),
        "finals": fs, "chains": chs,
    }


# ---------------------------------------------------------------------------------------
# running the real sampler


class Ref:
    """Reference draws of each chain's stream: value -> position."""

    def __init__(self, cfg, n_chain, m=4000):
        base = base_rng(cfg)
        if hasattr(base.bit_generator, "jumped"):
            gens = [np.random.default_rng(base.bit_generator.jumped(c)) for c in range(n_chain + 2)]
        else:  # spawned children of the seed sequence (the run under test spawns exactly n_chain)
            gens = [np.random.default_rng(sq) for sq in base.bit_generator._seed_seq.spawn(n_chain)]  # noqa: SLF001
        self.seqs = [g.random(m) for g in gens]
        self.index = [{float(v): i for i, v in enumerate(s)} for s in self.seqs]

    def code(self, stream, u):
        """position+1 of draw `u` in stream `stream`; 0 for 'no draw' (nan); negative: found in
        another stream (-(1000000*(s+1)+pos+1)); -1 not found at all."""
        if u is None or (isinstance(u, float) and u != u):
            return 0
        u = float(u)
        if stream < len(self.index) and u in self.index[stream]:
            return self.index[stream][u] + 1
        for s, ix in enumerate(self.index):
            if u in ix:
                return -(1000000 * (s + 1) + ix[u] + 1)
        return -1


def build(cfg):
    import mici

    CountA, CountB, FastA, SlowA = classes()
    transitions = {}
    if cfg["hasA"]:
        transitions["a"] = CountA(cfg["da"], cfg["aStats"])
    transitions["b"] = CountB(cfg["db"], cfg["pd"], cfg["par0"], cfg["met0"], cfg.get("ncalls", 1))
    ads = ([FastA()] if cfg["hf"] else []) + ([SlowA(cfg["e"])] if cfg["hs"] else [])
    adapters = {"b": ads} if (ads or uses_windowed(cfg)) else None
    sampler = mici.samplers.MarkovChainMonteCarloMethod(base_rng(cfg), transitions)
    inits = []
    for cid, x in cfg["inits"]:
        d = {"cid": cid, "x": x, "na": 0, "nf": 0, "u0": float("nan"), "ud": 0}
        inits.append(mici.states.ChainState(**d) if cfg["init_kind"] == "state" else d)
    return sampler, inits, adapters, transitions


def canon_state(ref, stream, s):
    return (int(s.cid), int(s.x), int(s.na), int(s.nf), ref.code(stream, float(s.u0)), int(s.ud))


def canon_arrays(cfg, ref, out, n_chain):
    """Per chain: list of arrays (op order) of cells (None = fill, list = written, 'partial' = mixed)."""
    res = []
    for c in range(n_chain):
        arrs = []
        if cfg["hasA"]:
            if cfg["aStats"]:
                na = out.statistics["a"]["na"][c]
                u0 = out.statistics["a"]["u0"][c]
                cells = []
                for r in range(len(na)):
                    if int(na[r]) == -1 and u0[r] != u0[r]:
                        cells.append(None)
                    elif int(na[r]) == -1:
                        cells.append("partial")
                    else:
                        cells.append([int(na[r]), ref.code(c, float(u0[r]))])
                arrs.append(cells)
            else:
                arrs.append("absent")
        st = out.statistics["b"]
        cells = []
        for r in range(len(st["x"][c])):
            vals = (int(st["x"][c][r]), float(st["u0"][c][r]), int(st["d"][c][r]), int(st["par"][c][r]), int(st["met"][c][r]))
            fills = [vals[0] == -1, vals[1] != vals[1], vals[2] == -1, vals[3] == -1, vals[4] == -1,
                     int(st["pid"][c][r]) == -1]
            if all(fills) and not bool(st["odd"][c][r]):
                cells.append(None)
            elif fills[0] or fills[2] or fills[3] or fills[4] or fills[5] or (fills[1] and vals[2] != 0) or (
                bool(st["odd"][c][r]) != (vals[0] % 2 == 1)
            ):
                cells.append("partial")
            else:
                cells.append([vals[0], ref.code(c, vals[1]), vals[2], vals[3], vals[4]])
        arrs.append(cells)
        if cfg["nf"] >= 1:
            tr = out.traces
            cells = []
            for r in range(len(tr["x"][c])):
                x, cid, u0 = int(tr["x"][c][r]), int(tr["cid"][c][r]), float(tr["u0"][c][r])
                # integer traces are initialised with 0, float traces with nan: a written row has x >= 1
                if x == 0 and cid == 0 and u0 != u0:
                    cells.append(None)
                elif x == 0:
                    cells.append("partial")
                else:
                    cells.append([x, cid, ref.code(c, u0)])
            arrs.append(cells)
        if cfg["nf"] >= 2:
            v = out.traces["na_nf"][c]
            cells = []
            for r in range(len(v)):
                a, f = int(v[r][0]), int(v[r][1])
                if a == 0 and f == 0:
                    cells.append(None)
                elif a == 0 or f == 0:
                    cells.append("partial")
                else:
                    cells.append([a - 1, f - 1])
            arrs.append(cells)
        res.append(arrs)
    return res


def real_run(cfg, intr_spec=None, delays=None, log_calls=False, timeout=120.0):
    """Run the real sampler. Returns dict(finals, arrays, lengths, files, error, fired, calls)."""
    import logging

    logging.getLogger("mici").setLevel(logging.CRITICAL + 1)  # interrupts are logged with tracebacks
    sampler, inits, adapters, _ = build(cfg)
    n_chain = len(inits)
    ref = Ref(cfg, n_chain)
    HOOK.reset()
    HOOK.spec = intr_spec
    HOOK.delays = delays
    HOOK.log = [] if log_calls else None
    kwargs = {
        "trace_funcs": TRACES[: cfg["nf"]] if cfg["nf"] > 0 else None,
        "adapters": adapters,
        "stager": make_stager(cfg),
        "n_process": cfg["n_process"],
        "trace_warm_up": cfg["tw"],
        "display_progress": bool(cfg.get("progress", False)),
    }
    if cfg.get("progress", False):
        kwargs["monitor_stats"] = {"b": ["x", "d"]}
    tmpdir = None
    if cfg["memmap"] == "tmp":
        kwargs["force_memmap"] = True
    elif cfg["memmap"] == "dir":
        tmpdir = tempfile.TemporaryDirectory(prefix="c13-")
        kwargs["force_memmap"] = True
        kwargs["memmap_path"] = tmpdir.name
    res = {"error": None, "fired": False, "calls": None}
    # observe memmap flushes (public NumPy API; sequential runs only: workers flush in their own process)
    flushed = []
    orig_flush = np.memmap.flush
    if cfg["memmap"] != "mem" and cfg["n_process"] == 1:
        def _flush(self):
            flushed.append((Path(str(self.filename)).name if self.filename is not None else None, HOOK.fired))
            return orig_flush(self)

        np.memmap.flush = _flush
    import contextlib
    import io

    try:
        with contextlib.redirect_stdout(io.StringIO()) if cfg.get("progress", False) else contextlib.nullcontext():
            out = with_timeout(lambda: sampler.sample_chains(cfg["nw"], cfg["nm"], inits, **kwargs), timeout)
    except _Timeout:
        res["error"] = "timeout"
        out = None
    except BaseException as e:  # noqa: BLE001  (KeyboardInterrupt escaping is a finding, not a crash)
        res["error"] = f"{type(e).__name__}: {e}"
        out = None
    finally:
        np.memmap.flush = orig_flush
    res["fired"] = HOOK.fired
    res["calls"] = HOOK.log
    res["flushed"] = flushed
    HOOK.reset()
    try:
        if out is not None:
            res["n_final"] = len(out.final_states)
            res["finals"] = [canon_state(ref, i, s) for i, s in enumerate(out.final_states)]
            # the stream of final state i is chain i only if no chain is missing (sequential
            # interrupts return a prefix of the chains, so positions still agree)
            res["arrays"] = canon_arrays(cfg, ref, out, n_chain)
            res["pids"] = [[int(v) for v in out.statistics["b"]["pid"][c]] for c in range(n_chain)]
            lens = set()
            for d in (out.traces or {}).values():
                lens |= {len(a) for a in d}
            for t in out.statistics.values():
                for d in t.values():
                    lens |= {len(a) for a in d}
            res["lengths"] = sorted(lens)
            res["types"] = {
                "memmap": all(isinstance(a, np.memmap) for t in out.statistics.values() for d in t.values() for a in d),
                "dtypes": sorted({f"{k}:{d[0].dtype}" for t in out.statistics.values() for k, d in t.items()}
                                 | {f"{k}:{d[0].dtype}" for k, d in (out.traces or {}).items()}),
            }
            if tmpdir is not None:
                res["files"] = readback(cfg, ref, out, tmpdir.name, n_chain)
    # --- B16: outputs of an unexpected layout (wrong number of arrays / axes) are the implementation's error,
    # not a crash of the harness
    except (IndexError, KeyError, TypeError, ValueError, AttributeError) as e:
        res["error"] = f"returned outputs are malformed: {type(e).__name__}: {e}"
    # --- end B16
    finally:
        if tmpdir is not None:
            del out
            tmpdir.cleanup()
    return res


def readback(cfg, ref, out, path, n_chain):
    """Re-open every .npy file of a user-directory memmap run and compare with the returned arrays."""
    bad = []
    n_files = 0
    for tkey, d in out.statistics.items():
        for key, arrs in d.items():
            for c in range(n_chain):
                f = Path(path) / f"stats_{c}_{tkey}_{key}.npy"
                if not f.exists():
                    bad.append(f"missing {f.name}")
                    continue
                n_files += 1
                disk = np.load(f)
                if not np.array_equal(disk, np.asarray(arrs[c]), equal_nan=disk.dtype.kind == "f"):
                    bad.append(f"{f.name} differs from returned array")
    for key, arrs in (out.traces or {}).items():
        for c in range(n_chain):
            f = Path(path) / f"trace_{c}_{key}.npy"
            if not f.exists():
                bad.append(f"missing {f.name}")
                continue
            n_files += 1
            disk = np.load(f)
            if not np.array_equal(disk, np.asarray(arrs[c]), equal_nan=disk.dtype.kind == "f"):
                bad.append(f"{f.name} differs from returned array")
    return {"bad": bad, "n_files": n_files}


# ---------------------------------------------------------------------------------------
# independent specification of the expected rows (direct oracle; no array/offset machinery)


def spec_run(cfg):
    """What the property says the outputs must be, computed chain by chain: the list of recorded
    iterations (one cell per op) and the final state.  Adaptation is stage-synchronous."""
    table = stage_table(cfg)
    n = len(cfg["inits"])
    par, met = cfg["par0"], cfg["met0"]
    chains = [
        {"cid": c, "x": x, "na": 0, "nf": 0, "u0": 0, "ud": 0, "pos": 0, "rows": []} for c, x in cfg["inits"]
    ]
    for (cnt, kind, traced, rec) in table:
        if cnt == 0:
            continue
        fast = cfg["hf"] and kind != "main"
        slow = cfg["hs"] and kind == "slow"
        ads = []
        for ch in chains:
            p = 7 + ch["cid"] + 10 * ch["x"] if fast else par
            ad = {"n": 0, "acc": 0, "m": 0, "sum": 0}
            for _ in range(cnt):
                row = []
                if cfg["hasA"]:
                    ch["na"] += 1
                    if cfg["da"] > 0:
                        ch["u0"], ch["ud"] = ch["pos"] + 1, cfg["da"]
                    row.append([ch["na"], ch["pos"] + 1 if cfg["da"] > 0 else 0] if rec else None)
                    ch["pos"] += cfg["da"]
                d = cfg["db"] + (p % 3 if cfg["pd"] else 0)
                ch["x"] += 1
                if d > 0:
                    ch["u0"], ch["ud"] = ch["pos"] + 1, d
                row.append([ch["x"], ch["pos"] + 1 if d > 0 else 0, d, p, met] if rec else None)
                ch["pos"] += d
                if fast:
                    ad["n"] += 1
                    ad["acc"] += ch["x"]
                    p = 3 * ad["acc"] + ad["n"]
                if slow:
                    ad["m"] += 1
                    ad["sum"] += ch["x"] + ch["cid"]
                if cfg["nf"] >= 1:
                    row.append([ch["x"], ch["cid"], ch["u0"]] if traced else None)
                if cfg["nf"] >= 2:
                    row.append([ch["na"], ch["nf"]] if traced else None)
                if traced or rec:
                    ch["rows"].append(row)
            ads.append(ad)
        if fast:
            par = sum(a["acc"] for a in ads) + 2 * sum(a["n"] for a in ads)
        if slow:
            met = sum(a["sum"] for a in ads) + sum(a["m"] for a in ads)
            for ch in chains:
                ch["nf"] += 1
                if cfg["e"] > 0:
                    ch["u0"], ch["ud"] = ch["pos"] + 1, cfg["e"]
                ch["pos"] += cfg["e"]
    n_trace = cfg["nw"] + cfg["nm"] if cfg["tw"] else cfg["nm"]
    arrays = []
    for ch in chains:
        arrs = [[row[j] for row in ch["rows"]] for j in range(n_ops(cfg))]
        arrays.append(arrs)
    finals = [(ch["cid"], ch["x"], ch["na"], ch["nf"], ch["u0"], ch["ud"]) for ch in chains]
    return {"finals": finals, "arrays": arrays, "n_trace": n_trace, "n": n}


def diff_arrays(cfg, got, want, what_got="impl", what_want="model"):
    """First difference between two per-chain array sets ('absent' arrays skipped)."""
    for c, (ga, wa) in enumerate(zip(got, want, strict=False)):
        for j, (g, w) in enumerate(zip(ga, wa, strict=False)):
            if g == "absent" or w == "absent":
                continue
            if len(g) != len(w):
                return f"chain {c} array {j}: length {what_got} {len(g)} != {what_want} {len(w)}"
            for r, (gv, wv) in enumerate(zip(g, w, strict=True)):
                if gv != wv:
                    return f"chain {c} array {j} row {r}: {what_got} {gv} != {what_want} {wv}"
        if len(ga) != len(wa):
            return f"chain {c}: {what_got} has {len(ga)} arrays, {what_want} {len(wa)}"
    if len(got) != len(want):
        return f"{what_got} has {len(got)} chains, {what_want} {len(want)}"
    return None


def oracle_complete(cfg, res):
    """The C13 statement on one completed real run, against the independent specification."""
    bad = []
    if res["error"]:
        return [f"sample_chains raised {res['error']}"]
    spec = spec_run(cfg)
    if res["lengths"] and res["lengths"] != [spec["n_trace"]]:
        bad.append(f"array lengths {res['lengths']} != n_trace_iter {spec['n_trace']}")
    d = diff_arrays(cfg, res["arrays"], spec["arrays"], "impl", "expected")
    if d:
        bad.append("row mismatch: " + d)
    for c, arrs in enumerate(res["arrays"]):
        for j, a in enumerate(arrs):
            if a != "absent" and any(v is None or v == "partial" for v in a):
                bad.append(f"fill value survives in chain {c} array {j}")
                break
    if res["finals"] != spec["finals"]:
        bad.append(f"final states {res['finals']} != expected {spec['finals']}")
    if cfg["memmap"] != "mem" or cfg["n_process"] != 1:
        if not res["types"]["memmap"]:
            bad.append("memmap requested but plain arrays returned")
    if "files" in res and res["files"]["bad"]:
        bad.append("npy read-back: " + "; ".join(res["files"]["bad"][:3]))
    want_dtypes = {"x:int64", "u0:float64", "d:int64", "par:int64", "met:int64", "odd:bool", "pid:int64"}
    if not want_dtypes <= set(res["types"]["dtypes"]):
        bad.append(f"statistic dtypes {res['types']['dtypes']} miss declared {sorted(want_dtypes)}")
    return bad


# ---------------------------------------------------------------------------------------
# configuration generator


def gen_cfg(rng, *, allow_par=True, small=False):
    cfg = dict(DEFAULT)
    n_chain = int(rng.integers(1, 5))
    cfg["inits"] = [[c, int(rng.integers(0, 4))] for c in range(n_chain)]
    cfg["hasA"] = bool(rng.random() < 0.7)
    cfg["aStats"] = bool(rng.random() < 0.6)
    cfg["da"] = int(rng.integers(0, 3))
    cfg["db"] = int(rng.integers(1, 4))
    cfg["pd"] = bool(rng.random() < 0.5)
    cfg["e"] = int(rng.integers(0, 3))
    kind = rng.choice(["none", "fast", "both", "slow"], p=[0.2, 0.3, 0.4, 0.1])
    cfg["hf"] = kind in ("fast", "both")
    cfg["hs"] = kind in ("both", "slow")
    cfg["nf"] = int(rng.choice([0, 1, 2, 2]))
    cfg["par0"] = int(rng.integers(0, 9))
    cfg["met0"] = int(rng.integers(0, 9))
    cfg["nw"] = int(rng.choice([0, 0, 1, 2, 3, 5, 6, 8, 11] if small else [0, 0, 1, 2, 3, 5, 6, 8, 13, 21, 30]))
    cfg["nm"] = int(rng.choice([0, 1, 2, 4, 7]))
    cfg["tw"] = bool(rng.random() < 0.5)
    if kind == "none":
        cfg["stager"] = "warm" if rng.random() < 0.5 else None
    else:
        r = rng.random()
        if r < 0.35:
            cfg["stager"] = "warm"
        elif r < 0.45 and cfg["nw"] <= 12:
            cfg["stager"] = None
        else:
            cfg["stager"] = ["win", int(rng.integers(1, 5)), int(rng.integers(0, 4)), int(rng.integers(0, 4)),
                             str(rng.choice(["2", "1", "3/2", "5/2"]))]
    cfg["memmap"] = str(rng.choice(["mem", "mem", "tmp", "dir"]))
    cfg["init_kind"] = str(rng.choice(["dict", "state"]))
    cfg["seed"] = int(rng.integers(0, 1000))
    cfg["bitgen"] = str(rng.choice(["PCG64", "PCG64", "PCG64DXSM", "Philox", "MT19937", "SFC64"]))
    cfg["n_process"] = 1
    cfg["progress"] = bool(rng.random() < 0.12)
    return cfg


def describe(cfg):
    return {k: cfg[k] for k in sorted(cfg)}


# ---------------------------------------------------------------------------------------
# real HMC runs: statistics/trace rows against a re-execution of the transitions


def _nld(q):
    return 0.5 * float(q @ q) + 0.25 * float(np.sum(q**4))


def _grad(q):
    return q + q**3


def hmc_case(kind, n_warm, n_main, n_chain, trace_warm, seed, n_process, init_kind, memmap):
    """Run a real HMC sampler, then re-execute the same transitions one by one (sequentially,
    same seeds) and compare every stats / trace row and the final states."""
    import mici

    def make():
        system = mici.systems.EuclideanMetricSystem(neg_log_dens=_nld, grad_neg_log_dens=_grad)
        integ = mici.integrators.LeapfrogIntegrator(system, step_size=0.31)
        if kind == "static":
            s = mici.samplers.StaticMetropolisHMC(system, integ, np.random.default_rng(seed), n_step=3)
        else:
            s = mici.samplers.DynamicMultinomialHMC(system, integ, np.random.default_rng(seed), max_tree_depth=4)
        return s, system

    sampler, system = make()
    pos0 = [np.array([0.3 * (c + 1), -0.2 * (c + 1)]) for c in range(n_chain)]
    mom0 = [np.array([0.1 * (c + 1), 0.05]) for c in range(n_chain)]

    def inits():
        if init_kind == "array":
            return [p.copy() for p in pos0]
        return [mici.states.ChainState(pos=p.copy(), mom=m.copy(), dir=1) for p, m in zip(pos0, mom0, strict=True)]

    kwargs = {"adapters": None, "display_progress": False, "trace_warm_up": trace_warm, "n_process": n_process}
    tmp = None
    if memmap == "dir":
        tmp = tempfile.TemporaryDirectory(prefix="c13h-")
        kwargs.update(force_memmap=True, memmap_path=tmp.name)
    elif memmap == "tmp":
        kwargs.update(force_memmap=True)
    try:
        out = with_timeout(lambda: sampler.sample_chains(n_warm, n_main, inits(), **kwargs), 120)
        # re-execution
        s2, system2 = make()
        states = [s2._preprocess_init_state(i) for i in inits()]  # noqa: SLF001 consumes base rng like the run did
        rngs = [np.random.default_rng(s2.rng.bit_generator.jumped(c)) for c in range(n_chain)]
        n_rec = n_warm + n_main if trace_warm else n_main
        skip = 0 if trace_warm else n_warm
        bad = []
        for c in range(n_chain):
            st = states[c]
            for it in range(n_warm + n_main):
                st, _ = s2.transitions["momentum_transition"].sample(st, rngs[c])
                st, stats = s2.transitions["integration_transition"].sample(st, rngs[c])
                r = it - skip
                if r < 0:
                    continue
                for k, v in stats.items():
                    got = out.statistics[k][c][r]
                    if not (got == v or (got != got and v != v)):
                        bad.append(f"chain {c} row {r} stat {k}: recorded {got} != re-executed {v}")
                if not np.array_equal(out.traces["pos"][c][r], st.pos):
                    bad.append(f"chain {c} row {r} trace pos: recorded {out.traces['pos'][c][r]} != {st.pos}")
                if out.traces["hamiltonian"][c][r] != system2.h(st):
                    bad.append(f"chain {c} row {r} trace hamiltonian differs")
            if not (np.array_equal(out.final_states[c].pos, st.pos) and np.array_equal(out.final_states[c].mom, st.mom)
                    and out.final_states[c].dir == st.dir):
                bad.append(f"chain {c} final state differs from state after last re-executed iteration")
            declared = s2.transitions["integration_transition"].statistic_types
            for k, (dt, _fill) in declared.items():
                a = out.statistics[k][c]
                if a.dtype != np.dtype(dt):
                    bad.append(f"stat {k} dtype {a.dtype} != declared {np.dtype(dt)}")
                if len(a) != n_rec:
                    bad.append(f"stat {k} length {len(a)} != {n_rec}")
        for k, arrs in out.traces.items():
            for c in range(n_chain):
                if len(arrs[c]) != n_rec:
                    bad.append(f"trace {k} length {len(arrs[c])} != {n_rec}")
                if memmap == "dir":
                    disk = np.load(Path(tmp.name) / f"trace_{c}_{k}.npy")
                    if not np.array_equal(disk, np.asarray(arrs[c])):
                        bad.append(f"trace_{c}_{k}.npy differs from returned array")
        return bad[:5]
    finally:
        if tmp is not None:
            out = None
            tmp.cleanup()


# ---------------------------------------------------------------------------------------


def check_stat_table(ctx):
    """Dynamic cross-check of the generated StatTypes table against the live classes."""
    import mici

    gen = common.LEAN / "MiciVerif" / "Generated" / "StatTypes.lean"
    if not gen.exists():
        raise common.MachineryError("Generated/StatTypes.lean missing (translator not run)")
    text = gen.read_text()
    system = mici.systems.EuclideanMetricSystem(neg_log_dens=_nld, grad_neg_log_dens=_grad)
    integ = mici.integrators.LeapfrogIntegrator(system, step_size=0.5)
    live = {
        "MetropolisStaticIntegrationTransition": mici.transitions.MetropolisStaticIntegrationTransition(system, integ, 2),
        "MetropolisRandomIntegrationTransition": mici.transitions.MetropolisRandomIntegrationTransition(system, integ, (1, 3)),
        "MultinomialDynamicIntegrationTransition": mici.transitions.MultinomialDynamicIntegrationTransition(system, integ),
        "SliceDynamicIntegrationTransition": mici.transitions.SliceDynamicIntegrationTransition(system, integ),
        "IndependentMomentumTransition": mici.transitions.IndependentMomentumTransition(system),
        "CorrelatedMomentumTransition": mici.transitions.CorrelatedMomentumTransition(system, 0.5),
    }
    import re

    for name, obj in live.items():
        m = re.search(r'name := "' + name + r'".*?declared := \[(.*?)\],\n', text, re.S)
        if not m:
            raise common.MachineryError(f"class {name} not in generated StatTypes table")
        keys = re.findall(r'key := "([^"]+)"', m.group(1))
        st = obj.statistic_types
        live_keys = [] if st is None else list(st)
        if sorted(keys) != sorted(live_keys):
            raise common.MachineryError(
                f"translator/impl mismatch for {name}: table declares {sorted(keys)}, live object {sorted(live_keys)}"
            )
        # keys really returned by one sample() call
        state = mici.states.ChainState(pos=np.array([0.2, -0.1]), mom=np.array([0.3, 0.4]), dir=1)
        _, stats = obj.sample(state, np.random.default_rng(0))
        returned = [] if stats is None else list(stats)
        undeclared = [k for k in returned if k not in live_keys]
        if undeclared:
            ctx.violation(
                f"{name} returns undeclared statistic",
                f"{name}.sample returned statistic keys {undeclared} not in statistic_types",
                {"class": name, "keys": undeclared},
            )
        ctx.count("stat_table_class_checked")


def replay_corpus(ctx):
    """Past failing inputs (corpus/C13/*.json) are re-executed first."""
    import json

    for f in sorted((common.VERIF / "corpus" / PROP).glob("*.json")):
        obj = json.loads(f.read_text())
        ctx.count("corpus_case")
        try:
            still = replay(ctx, obj)
        except Exception as e:  # noqa: BLE001
            ctx.disagreement(f"corpus case {f.name} raised {type(e).__name__}: {e}", {"corpus": f.name})
            continue
        if still:
            ctx.violation(obj.get("signature", "corpus:" + f.name), f"corpus case {f.name} fails: {obj.get('comment', '')}",
                          {k: v for k, v in obj.items() if k not in ("comment", "signature")})

# --- B16: direct oracle on the storage helpers ------------------------------------------------------------
_ST_DTYPES_QUICK = ["float64", "float32", "complex64", "int64", "bool"]
_ST_DTYPES_MORE = ["float16", "longdouble", "complex128", "clongdouble", "int8", "int32", "uint8", "uint64"]


def storage_broken(ctx):
    """names of the broken obligations about the generated storage skeleton (Props/C13K, C15K)"""
    return [o["theorem"] for o in ctx.obligations if not o["ok"] and any(m in o["theorem"] for m in STORAGE_MODULES)]


def storage_cases(ctx, *, fill_only=False):
    """Cases for `storage_case`.  Escalation: when an obligation of Props/C13K / C15K is broken (the storage
    helpers are not the code the model was written against) every dtype x shape x chain count x storage kind
    combination is tried instead of a sample."""
    esc = bool(storage_broken(ctx))
    if esc:
        ctx.extra["storage_obligations_broken"] = storage_broken(ctx)
        ctx.count("escalated_search(storage obligation broken)")
    full = esc or not ctx.quick
    dts = _ST_DTYPES_QUICK + (_ST_DTYPES_MORE if full else [])
    shapes = [[], [3], [2, 2]] if full else [[], [3]]
    out = []
    for mm in (False, True):
        for i, dt in enumerate(dts):
            for j, sh in enumerate(shapes):
                ncs = (1, 2, 3) if full else ((2,) if (i + j) % 2 else (3,))
                for nc in ncs:
                    for ni in ((0, 1, 4) if full else (4,)):
                        out.append({"storage": "traces", "dtype": dt, "shape": sh, "n_chain": nc, "n_iter": ni, "memmap": mm})
        if not fill_only:
            for nc in (1, 3):
                for ni in ((0, 5) if full else (5,)):
                    out.append({"storage": "stats", "n_chain": nc, "n_iter": ni, "memmap": mm})
    if not fill_only:
        for bg in ("PCG64", "SFC64", "MT19937", "Philox"):
            for nc in ((1, 2, 3, 5) if full else (1, 3)):
                out.append({"storage": "rngs", "bitgen": bg, "n_chain": nc, "seed": 20 + nc})
        out.append({"storage": "init_state"})
        out.append({"storage": "iterators", "n_chain": 3, "n_iter": 4})
        out.append({"storage": "paths", "n_chain": 2, "n_iter": 3})
    return out


def _fill_ok(arr, dtype):
    if arr.size == 0:
        return True
    if np.issubdtype(dtype, np.inexact):
        return bool(np.all(np.isnan(arr)))
    return bool(np.all(arr == 0))


def storage_case(case):  # noqa: PLR0912, PLR0915
    """Run one storage helper of the real code; list of complaints (empty = as the model assumes)."""
    import mici.samplers as ms  # noqa: PLC0415
    from mici.states import ChainState  # noqa: PLC0415

    bad = []
    kind = case["storage"]
    with tempfile.TemporaryDirectory() as td:
        if kind == "traces":
            dt, sh, nc, ni, mm = np.dtype(case["dtype"]), tuple(case["shape"]), case["n_chain"], case["n_iter"], case["memmap"]
            calls = []

            def tf(state):
                calls.append(state)
                v = np.ones(sh, dtype=dt) if sh else dt.type(1)
                return {"val": v, "pyfloat": 1.5, "pyint": 7}

            states = [ChainState(pos=np.array([float(c)]), cid=c) for c in range(nc)]
            tr = ms._init_traces([tf], states, ni, use_memmap=mm, memmap_path=td)  # noqa: SLF001
            if len(calls) != 1 or calls[0] is not states[0]:
                bad.append(f"trace function evaluated {len(calls)} time(s) / not on init_states[0]")
            if sorted(tr) != ["pyfloat", "pyint", "val"]:
                bad.append(f"trace keys {sorted(tr)}")
            want = {"val": (dt, sh), "pyfloat": (np.dtype("float64"), ()), "pyint": (np.dtype(int), ())}
            files = []
            for k, (wdt, wsh) in want.items():
                arrs = tr.get(k, [])
                if len(arrs) != nc:
                    bad.append(f"traces[{k}]: {len(arrs)} arrays for {nc} chains")
                for c, a in enumerate(arrs):
                    if a.shape != (ni, *wsh):
                        bad.append(f"shape: traces[{k}][{c}].shape = {a.shape}, expected (n_iter,)+value.shape = {(ni, *wsh)}")
                    if a.dtype != wdt:
                        bad.append(f"dtype: traces[{k}][{c}].dtype = {a.dtype}, value dtype {wdt}")
                    elif not _fill_ok(np.asarray(a), wdt):
                        bad.append(f"fill: traces[{k}][{c}] ({a.dtype}, {'memmap' if mm else 'memory'}) is pre-filled with "
                                   f"{np.asarray(a).ravel()[0]!r}, not with {'NaN' if np.issubdtype(wdt, np.inexact) else 0}")
                    if mm:
                        if not isinstance(a, np.memmap):
                            bad.append(f"traces[{k}][{c}] is not memory-mapped")
                        else:
                            files.append(str(a.filename))
                    elif isinstance(a, np.memmap):
                        bad.append(f"traces[{k}][{c}] is memory-mapped without use_memmap")
            if len(set(files)) != len(files):
                bad.append(f"file names: {len(files)} arrays share {len(set(files))} files")
            if any(Path(f).parent.resolve() != Path(td).resolve() for f in files):
                bad.append("file names: file outside memmap_path")
        elif kind == "stats":
            nc, ni, mm = case["n_chain"], case["n_iter"], case["memmap"]

            class _T:
                def __init__(self, st):
                    self.statistic_types = st

            decl = {"n": (np.int64, -1), "acc": (np.float64, np.nan), "flag": (bool, False), "f32": (np.float32, np.nan),
                    "u": (np.uint8, 3)}
            st = ms._init_stats({"t a": _T(decl), "none": _T(None), "tb": _T({"n": (np.int64, -1)})}, nc, ni,  # noqa: SLF001
                                use_memmap=mm, memmap_path=td)
            if sorted(st) != ["t a", "tb"]:
                bad.append(f"stats keys {sorted(st)}")
            files = []
            for tk, d in (("t a", decl), ("tb", {"n": (np.int64, -1)})):
                if sorted(st.get(tk, {})) != sorted(d):
                    bad.append(f"stats[{tk}] keys {sorted(st.get(tk, {}))}")
                for k, (wdt, wval) in d.items():
                    arrs = st.get(tk, {}).get(k, [])
                    if len(arrs) != nc:
                        bad.append(f"stats[{tk}][{k}]: {len(arrs)} arrays for {nc} chains")
                    for c, a in enumerate(arrs):
                        if a.shape != (ni,):
                            bad.append(f"shape: stats[{tk}][{k}][{c}].shape = {a.shape}, expected {(ni,)}")
                        if a.dtype != np.dtype(wdt):
                            bad.append(f"dtype: stats[{tk}][{k}][{c}].dtype = {a.dtype}, declared {np.dtype(wdt)}")
                        elif a.size and not (np.all(np.isnan(a)) if isinstance(wval, float) else np.all(np.asarray(a) == wval)):
                            bad.append(f"fill: stats[{tk}][{k}][{c}] pre-filled with {np.asarray(a)[0]!r}, declared {wval!r}")
                        if mm and isinstance(a, np.memmap):
                            files.append(str(a.filename))
                        elif mm:
                            bad.append(f"stats[{tk}][{k}][{c}] is not memory-mapped")
            if len(set(files)) != len(files):
                bad.append(f"file names: {len(files)} arrays share {len(set(files))} files")
        elif kind == "rngs":
            def mk():
                return np.random.Generator(getattr(np.random, case["bitgen"])(case["seed"]))

            nc = case["n_chain"]
            rngs = ms._get_per_chain_rngs(mk(), nc)  # noqa: SLF001
            if len(rngs) != nc:
                bad.append(f"{len(rngs)} generators for {nc} chains")
            draws = [tuple(r.integers(0, 2**62, 4).tolist()) for r in rngs]
            if len(set(draws)) != len(draws):
                bad.append(f"per-chain generators share a stream: {len(set(draws))} distinct streams for {len(draws)} chains")
            again = [tuple(r.integers(0, 2**62, 4).tolist()) for r in ms._get_per_chain_rngs(mk(), nc)]  # noqa: SLF001
            if again != draws:
                bad.append("per-chain generators are not a function of the base generator's state")
            longer = [tuple(r.integers(0, 2**62, 4).tolist()) for r in ms._get_per_chain_rngs(mk(), nc + 1)]  # noqa: SLF001
            if longer[:nc] != draws:
                bad.append("stream of chain i depends on the number of chains")
        elif kind == "init_state":
            class _T:
                state_variables = {"pos", "mom"}

            ok = ms._check_and_process_init_state({"pos": np.zeros(2), "mom": np.zeros(2)}, {"t": _T()})  # noqa: SLF001
            if not isinstance(ok, ChainState):
                bad.append("dict initial state not converted to ChainState")
            s0 = ChainState(pos=np.zeros(2), mom=None)
            if ms._check_and_process_init_state(s0, {"t": _T()}) is not s0:  # noqa: SLF001
                bad.append("ChainState initial state not returned as is")
            for arg, exc in (({"pos": np.zeros(2)}, ValueError), (ChainState(pos=np.zeros(2)), ValueError)):
                try:
                    ms._check_and_process_init_state(arg, {"t": _T()})  # noqa: SLF001
                    bad.append(f"validation: initial state without `mom` accepted ({type(arg).__name__})")
                except exc:
                    pass
        elif kind == "iterators":
            from mici.progressbars import DummyProgressBar  # noqa: PLC0415

            its = ms._construct_chain_iterators(case["n_iter"], DummyProgressBar, case["n_chain"], 1)  # noqa: SLF001
            if len(its) != case["n_chain"] or any(len(list(it.sequence)) != case["n_iter"] for it in its):
                bad.append("chain iterators: wrong number / length")
        elif kind == "paths":
            nc, ni = case["n_chain"], case["n_iter"]
            tr = ms._init_traces([lambda s: {"a": s.pos}], [ChainState(pos=np.zeros(2))] * nc, ni,  # noqa: SLF001
                                 use_memmap=True, memmap_path=td)
            tree = {"chain_traces": {"a": tr["a"][0]}, "lst": [tr["a"][1 % nc], 5], "tup": (tr["a"][0], None), "x": "s"}
            paths = ms._memmaps_to_file_paths(tree)  # noqa: SLF001
            if not (isinstance(paths["chain_traces"]["a"], Path) and isinstance(paths["lst"], list)
                    and isinstance(paths["tup"], tuple) and paths["lst"][1] == 5 and paths["tup"][1] is None
                    and paths["x"] == "s" and list(paths) == list(tree)):
                bad.append("paths: _memmaps_to_file_paths changed the structure / did not convert a memmap leaf")
            back = ms._file_paths_to_memmaps(paths)  # noqa: SLF001
            b = back["chain_traces"]["a"]
            if not isinstance(b, np.memmap) or Path(b.filename) != Path(tr["a"][0].filename) or b.shape != (ni, 2) \
                    or not isinstance(back["tup"][0], np.memmap) or not isinstance(back["lst"][0], np.memmap):
                bad.append("paths: round trip does not re-open the parent's files")
            else:
                if not np.all(np.isnan(b)):
                    bad.append("paths: re-opened array lost its fill values")
                b[1] = 42.0
                b.flush()
                if not np.all(np.asarray(np.load(tr["a"][0].filename, mmap_mode="r"))[1] == 42.0):
                    bad.append("paths: a row written through the re-opened array is not in the parent's file")
        else:
            bad.append(f"unknown storage case {kind}")
    return bad


def storage_oracle(ctx, *, fill_only=False):
    for case in storage_cases(ctx, fill_only=fill_only):
        try:
            bad = with_timeout(lambda case=case: storage_case(case), 60.0)
        except _Timeout:
            bad = ["timeout"]
        except Exception as e:  # noqa: BLE001
            bad = [f"raised {type(e).__name__}: {e}"]
        ctx.case(case, nontrivial=case.get("n_iter", 1) > 0)
        ctx.count(f"storage_{case['storage']}")
        if fill_only:
            bad = [b for b in bad if b.startswith(("fill", "raised", "timeout"))]
        for b in bad:
            ctx.violation(f"{ctx.prop} storage helpers ({case['storage']}): " + b.split(":")[0][:50], f"{b} for {case}", dict(case))
# --- end B16


def run(ctx: common.Ctx):
    classes()
    replay_corpus(ctx)
    rng = common.rng_for(ctx)
    ctx.rule = (
        "counting-kernel runs: random configurations over chains 1-4 x warm-up/main counts incl. 0 x trace_warm_up x "
        "adapter sets {none, fast, fast+slow, slow} x stagers {default, WarmUp, Windowed(a,b,c,mult)} x "
        "{in-memory, temp memmap, user-dir memmap + .npy read-back} x n_process {1,2,3,None} x init {dict, ChainState}; "
        "non-trivial = at least one recorded iteration and (>= 2 stages or >= 2 chains). "
        "HMC runs: Static/DynamicMultinomial, rows compared with a re-execution"
    )
    ctx.assumptions += [
        "rng.random(d) consumes exactly d consecutive draws of the chain's stream (positions are recovered by "
        "looking the recorded draws up in the stream's reference sequence)",
        "user integrators do not raise HamiltonianDivergenceError inside Metropolis transitions (the only "
        "undeclared statistic key `diverging` is written under that exception; see StatTypes table)",
    ]
    check_stat_table(ctx)
    # --- B16: direct oracle on the helpers that create / hand over the output storage
    ctx.rule += ("; storage helpers called directly: _init_traces / _init_stats over dtype x value shape x chains x "
                 "length x {memory, memmap}, _get_per_chain_rngs over bit generators with / without `jumped`, path "
                 "conversions, initial-state validation (all combinations when an obligation of Props/C13K is broken)")
    storage_oracle(ctx)
    # --- end B16
    cfgs = []
    # fixed corner cases first
    corner = [
        {"nw": 0, "nm": 0}, {"nw": 0, "nm": 3}, {"nw": 4, "nm": 0, "tw": True}, {"nw": 4, "nm": 0, "tw": False},
        {"nw": 6, "nm": 2, "stager": ["win", 25, 75, 50, "2"], "tw": True, "inits": [[0, 0], [1, 2]]},
        {"nw": 6, "nm": 2, "stager": None, "tw": False, "inits": [[0, 1], [1, 0], [2, 5]]},
        {"nw": 5, "nm": 3, "n_process": None, "inits": [[0, 0], [1, 1]]},
        {"nw": 5, "nm": 3, "n_process": 2, "inits": [[0, 0], [1, 1], [2, 0]], "stager": ["win", 1, 1, 1, "2"], "pd": True},
        {"nw": 2, "nm": 2, "n_process": 3, "inits": [[0, 0], [1, 1]], "hs": False, "tw": False},
        {"nw": 3, "nm": 2, "memmap": "dir", "init_kind": "state", "inits": [[0, 0], [1, 4]]},
        {"nw": 3, "nm": 2, "memmap": "tmp", "nf": 0},
        {"nw": 3, "nm": 2, "hasA": False, "nf": 2, "hs": False},
    ]
    for c in corner:
        cfgs.append({**DEFAULT, **c})
    esc = skeleton_escalation(ctx)
    for _ in range(ctx.n(360, 10000) * (esc if ctx.quick else 1)):
        cfgs.append(gen_cfg(rng))
    for _ in range(ctx.n(14, 250) * (esc if ctx.quick else 1)):
        c = gen_cfg(rng, small=True)
        c["n_process"] = [2, 3, None, 2][int(rng.integers(4))]
        c["memmap"] = str(rng.choice(["mem", "dir"]))
        cfgs.append(c)
    if "C13_ONLY" in os.environ:  # debugging aid
        cfgs = cfgs[: int(os.environ["C13_ONLY"])]
    reqs = [model_request(c, default_modes(c)) for c in cfgs]
    model = common.run_driver("C13", reqs)
    for cfg, req, mline in zip(cfgs, reqs, model, strict=True):
        case = describe(cfg)
        m = parse_model(mline)
        res = real_run(cfg)
        table = stage_table(cfg)
        n_rec = sum(n for n, _k, t, r in table if t or r)
        ctx.case(case, nontrivial=n_rec > 0 and (len([1 for t in table if t[0] > 0]) >= 2 or len(cfg["inits"]) >= 2))
        ctx.count(f"n_process={cfg['n_process']}")
        ctx.count(f"memmap={cfg['memmap']}")
        ctx.count(f"stager={'default' if cfg['stager'] is None else cfg['stager'] if cfg['stager'] == 'warm' else 'windowed'}")
        ctx.count(f"adapters={'F' if cfg['hf'] else ''}{'S' if cfg['hs'] else ''}" or "adapters=")
        ctx.count(f"chains={len(cfg['inits'])}")
        if cfg.get("progress"):
            ctx.count("display_progress+monitor_stats")
        if any(t[0] == 0 for t in table):
            ctx.count("zero_length_stage")
        if cfg["nw"] == 0 or cfg["nm"] == 0:
            ctx.count("zero_count")
        # correspondence with the model
        if res["error"]:
            ctx.disagreement(f"impl raised {res['error']}", case)
        else:
            d = diff_arrays(cfg, res["arrays"], [c["arrays"] for c in m["chains"]])
            if d:
                ctx.disagreement("arrays differ: " + d, case)
            if res["finals"] != m["finals"]:
                ctx.disagreement(f"final states differ: impl {res['finals']} model {m['finals']}", case)
            if m["stopped"]:
                ctx.disagreement("model stopped without interrupt", case)
        # direct oracle
        for b in oracle_complete(cfg, res):
            sig = "n_process=None" if (cfg["n_process"] is None and res["error"]) else b.split(":")[0][:60]
            ctx.violation(f"C13 counting run: {sig}", f"{b} for {case}", {"cfg": cfg})
    # real HMC runs
    hmc = [
        ("static", 0, 4, 2, False, 1, "array", "mem"), ("static", 3, 4, 2, True, 1, "array", "dir"),
        ("static", 3, 2, 1, False, 1, "state", "tmp"), ("dynamic", 2, 4, 2, True, 1, "array", "mem"),
        ("dynamic", 0, 3, 3, False, 2, "array", "mem"), ("static", 2, 3, 3, True, None, "state", "mem"),
    ]
    for _ in range(ctx.n(10, 80)):
        hmc.append((
            str(rng.choice(["static", "dynamic"])), int(rng.integers(0, 5)), int(rng.integers(0, 6)),
            int(rng.integers(1, 4)), bool(rng.random() < 0.5), 1, str(rng.choice(["array", "state"])),
            str(rng.choice(["mem", "tmp", "dir"])),
        ))
    for h in hmc:
        kind, nw, nm, nc, tw, npr, ik, mm = h
        case = {"hmc": list(h), "seed": ctx.seed}
        try:
            bad = hmc_case(kind, nw, nm, nc, tw, ctx.seed, npr, ik, mm)
        except _Timeout:
            bad = ["timeout"]
        except Exception as e:  # noqa: BLE001
            bad = [f"raised {type(e).__name__}: {e}"]
        ctx.case(case, nontrivial=nm + (nw if tw else 0) > 0)
        ctx.count(f"hmc_{kind}")
        for b in bad:
            sig = "n_process=None" if (npr is None and "raised" in b) else "C13 HMC run: " + b.split(":")[0][:50]
            ctx.violation(sig, f"{b} for {case}", {"hmc": list(h), "seed": ctx.seed})


def replay(ctx, obj):
    classes()
    # --- B16
    if "storage" in obj:
        try:
            return bool(storage_case(obj))
        except Exception:  # noqa: BLE001
            return True
    # --- end B16
    if "cfg" in obj:
        res = real_run(obj["cfg"])
        return bool(oracle_complete(obj["cfg"], res))
    if "hmc" in obj:
        try:
            return bool(hmc_case(*obj["hmc"][:3], *obj["hmc"][3:5], obj["seed"], *obj["hmc"][5:]))
        except Exception:  # noqa: BLE001
            return True
    if "class" in obj:
        sub = common.Ctx(ctx.prop, ctx.tier, ctx.seed)
        check_stat_table(sub)
        return bool(sub.violations)
    sub = common.Ctx(ctx.prop, ctx.tier, ctx.seed)
    run(sub)
    return any(v["signature"] == obj.get("signature") for v in sub.violations)


LEVEL_TEXT = (
    "Lean 4 proof for the model of the sampler's chain/stage orchestration (abstract deterministic transitions, "
    "adapters, trace functions; arrays as lists of optional cells): after a completed run every recorded cell holds "
    "the statistic / traced value of exactly the iteration it is indexed by (rows_exact), no fill value survives and "
    "all arrays have length n_trace_iter = n_warm+n_main or n_main for both built-in stagers (uses C16's sum "
    "theorems), the returned final state is the state after the last iteration (and after the adapters' finalize); "
    "the generated table of declared / written statistic keys is checked by `decide`. The model is tied to the code "
    "by cell-by-cell comparison with the real sampler driven by a counting kernel over chains x counts x stagers x "
    "adapters x storage x process counts, by an independent recomputation of every expected row, and by real HMC "
    "runs compared with a re-execution."
    " Source-text tie (Props/C13S): the control skeleton of samplers.py (sample_chains, _sample_chain, _sample_chains_sequential/_worker/_parallel, _finalize_adapters, _collate_chain_outputs, _update_chain_stats, _flush_memmap_chain_data) is re-extracted from the tree under test on every run as a statement tree and proved equal to the tree the model was written against; the stage-loop body and the iteration body, read statement by statement as operations on the model state, are proved equal to Sampler.runStage / Sampler.iterOps for every kernel, state, stage, mode and interrupt point (sem_stage_body_is_runStage, sem_iteration_body_is_iterOps); individual facts (n_process=None, offset rule, rows at index+offset, statistics before traces, arrays passed iff the stage records) are separate theorems."
)
LEVEL_NOTE = (
    "Partial: memmap / filesystem behaviour (open_memmap, flush, temporary directories, .npy read-back), process "
    "pools, pickling and os.cpu_count() are exercised by the harness, not proved. Transitions are modelled as "
    "deterministic functions of (state, parameters, adapter state, generator position); the trace functions' "
    "dtype/shape inference of _init_traces and dict-of-arrays layout are exercised only. The statistic-key table is "
    "produced by tools/extractors/stat_types.py (trusted, fail-closed, cross-checked against live objects); the key "
    "`diverging` written by Metropolis transitions under HamiltonianDivergenceError is outside the table's "
    "obligation because no built-in integrator raises that error."
    " The skeleton extractor (tools/extractors/sampler_skeleton.py) is trusted to render the Python AST faithfully; it drops only docstrings, logging, message strings and five progress-display/thread-pool statements (listed in the generated table and compared with the expected list) and fails closed on anything outside its subset. The reading of a statement as a model operation (Skel.Sem) is a definition, validated by the correspondence runs; the bodies of the sequential/worker/parallel functions are tied syntactically only."
)
TECHNIQUE = (
    "Lean 4 theorems (induction over iterations / operations / stages of an executable sampler model) + decide on "
    "AST-extracted tables + cell-by-cell model/implementation comparison"
    " + AST-extracted control skeleton proved equal to the model's (decide +kernel) and, for the two loop bodies, semantically equal to the model functions"
)
# --- B16
LEVEL_TEXT += (
    " Storage tie (Props/C13K): the helpers that create and hand over the output storage (_init_traces, _init_stats, "
    "_open_new_memmap, _generate_memmap_filenames, _get_valid_filename, _memmaps_to_file_paths, _file_paths_to_memmaps, "
    "_zip_dict, _check_and_process_init_state, _construct_chain_iterators, _get_per_chain_rngs, the HamiltonianMonteCarlo "
    "wrapper and the two output tuples) are re-extracted on every run with comprehensions / f-strings / slices translated "
    "structurally and proved equal to the trees initSys / nTraceIter were written against; the allocation statements are "
    "read as functions of (n_chain, n_iter, value shape, dtype kind): for all of those, with either storage kind, one "
    "array per chain of shape (n_iter,)+value.shape with the value's dtype (statistics: length n_iter, declared dtype "
    "and fill), memory-mapped = in-memory apart from the file, one file per chain index, per-chain generators = streams "
    "0..n_chain-1 of the one base generator (jumped / spawned) as initSys numbers them."
)
LEVEL_NOTE += (
    " Storage tie: the reading of an allocation statement (Skel.Storage) is a definition over symbolic NumPy calls "
    "(np.full, list(), open_memmap, issubdtype, jumped, spawn are interpreted, not proved against NumPy) and is "
    "validated by calling the helpers directly over dtype x shape x chain count x length x storage kind; file-name "
    "distinctness is shown for the chain index only (sanitised keys may in principle collide: `a b` vs `a_b` do not, "
    "but characters outside [alnum._- ] are dropped)."
)
TECHNIQUE += " + AST-extracted storage helpers proved equal to the model's and read as shape/dtype/fill/stream functions"
# --- end B16
