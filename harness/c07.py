"""C07 — component flow maps are the exact flows of their Hamiltonian components.

Model: lean/MiciVerif/Model/Integrators.lean (kick / drift / harmonic), theorems
lean/MiciVerif/Props/C07.lean.
Direct oracles (this file, on the real code): h1_flow is the momentum kick, h2_flow satisfies the
group law / inverse / conserves system.h2 / agrees with an independent closed form and with an ODE
solution of its own Hamilton equations, dh2_flow_dmom equals the Jacobian blocks of h2_flow.
"""
from __future__ import annotations

import numpy as np

from . import common
from . import integ_common as ic

PROP = "C07"
LEAN_MODULES = ["MiciVerif.Props.C07", "MiciVerif.Props.C07S"]
GENERATED = ["system_methods"]
LEAN_EXTRA = ["MiciVerif.Model.Integrators", "MiciVerif.Lemmas.IntegratorsExec", "MiciVerif.Proto"]


# ---------------------------------------------------------------------------------------
# FILLED IN BY LEAN-SIDE AUTHOR
def correspondence(ctx):
    """Lean model flows (exact rationals; cos/sin values, eigenvectors and frequencies are the
    implementation's own, checked against their defining equations) vs real h1_flow / h2_flow /
    dh2_flow_dmom."""
    from . import integ_corr

    integ_corr.flow_cases(ctx, common.rng_for(ctx, 1), ctx.n(60, 600))


# ---------------------------------------------------------------------------------------
# direct oracles

TOL_KICK = 1e-13
TOL_GROUP = 1e-10
TOL_ENERGY = 1e-10
TOL_CLOSED = 1e-9
TOL_ODE = 1e-7
TOL_LINEAR = 1e-12
TOL_FD = 1e-7


def _name(sysw):
    return type(sysw.system).__name__


def _mk(sysw):
    return sysw.spec.get("metric", {}).get("kind", "-")


def _apply(sysw, which, z, t, populate=False):
    """z after system.<which>(state, t) on a fresh state (cache optionally pre-populated)."""
    d = sysw.dim
    st = sysw.state(z[:d], z[d:])
    if populate:
        ic.populate_cache(sysw, st)
    getattr(sysw.system, which)(st, t)
    if int(st.dir) != 1:
        raise AssertionError("flow changed state.dir")
    return ic.zvec(st)


def h2_exact(sysw, z, t):
    """Independent closed form of the h2 flow (dense linear algebra from the spec, not mici)."""
    from scipy.linalg import expm

    d = sysw.dim
    Minv = np.linalg.inv(sysw.M)
    if sysw.kind in ("gaussian", "gaussian_constrained"):
        A = np.block([[np.zeros((d, d)), Minv], [-np.eye(d), np.zeros((d, d))]])
        return expm(t * A) @ z
    return np.concatenate([z[:d] + t * (Minv @ z[d:]), z[d:]])


def h2_ode(sysw, z, t):
    """ODE solution of the h2 Hamilton equations built from the system's own dh2_dmom / dh2_dpos."""
    import warnings

    from scipy.integrate import solve_ivp

    d = sysw.dim

    def rhs(_t, y):
        st = sysw.state(y[:d], y[d:])
        return np.concatenate([np.asarray(sysw.system.dh2_dmom(st), float), -np.asarray(sysw.system.dh2_dpos(st), float)])

    with warnings.catch_warnings():
        warnings.simplefilter("ignore")
        sol = solve_ivp(rhs, (0.0, t), z, method="DOP853", rtol=1e-12, atol=1e-12)
    if not sol.success:
        raise common.MachineryError("C07 reference ODE failed")
    return sol.y[:, -1]


# derived metric objects whose parents have warm caches ----------------------------------------------------------
DERIVED_BASES = ("dense_obj", "dense_obj", "dense_obj", "diag_obj", "chol", "eig", "scaled", "block")
TOUCHES = ("eigval", "eigvec", "eigval", "sqrt", "log_abs_det", "factor", "inv", "array", "diagonal", "T", "lu_and_piv")
SCALES = (0.25, 0.5, 2.0, 4.0)


def random_recipe(rng, d, depth=0):
    """{"base": metric spec, "ops": [["touch", [...]] | ["inv"] | ["scale", c] | ["div", c] | ["T"]], "block": recipe?}"""
    base = ic.random_metric_spec(rng, d, kinds=DERIVED_BASES)
    ops = []
    for _ in range(int(rng.integers(1, 5))):
        if rng.random() < 0.7:
            k = int(rng.integers(1, 4))
            ops.append(["touch", sorted({str(x) for x in rng.choice(TOUCHES, size=k)})])
        r = rng.random()
        if r < 0.5:
            ops.append(["inv"])
        elif r < 0.7:
            ops.append(["scale", float(rng.choice(SCALES))])
        elif r < 0.85:
            ops.append(["div", float(rng.choice(SCALES))])
        else:
            ops.append(["T"])
    rec = {"base": base, "ops": ops}
    if depth == 0 and d >= 2 and rng.random() < 0.2:
        k = int(rng.integers(1, d))
        rec = {"blocks": [random_recipe(rng, k, 1), random_recipe(rng, d - k, 1)]}
    return rec


def describe_recipe(rec):
    if "blocks" in rec:
        return "blockdiag(" + ", ".join(describe_recipe(b) for b in rec["blocks"]) + ")"
    out = rec["base"]["kind"]
    for op in rec["ops"]:
        if op[0] == "touch":
            out += "{" + ",".join(op[1]) + "}"
        elif op[0] == "inv":
            out += ".inv"
        elif op[0] == "T":
            out += ".T"
        else:
            out = f"({out} {'*' if op[0] == 'scale' else '/'} {op[1]})"
    return out


def build_recipe(rec):
    """-> (mici matrix object, dense array computed WITHOUT mici from the recipe)"""
    from mici import matrices as mm

    if "blocks" in rec:
        objs, arrs = zip(*(build_recipe(b) for b in rec["blocks"]))
        n = sum(a.shape[0] for a in arrs)
        M = np.zeros((n, n))
        i = 0
        for a in arrs:
            M[i:i + len(a), i:i + len(a)] = a
            i += len(a)
        return mm.PositiveDefiniteBlockDiagonalMatrix(list(objs)), M
    obj, M = ic.metric_arg(rec["base"]), ic.metric_dense(rec["base"])
    for op in rec["ops"]:
        if op[0] == "touch":
            for a in op[1]:
                getattr(obj, a, None)
        elif op[0] == "inv":
            obj, M = obj.inv, np.linalg.inv(M)
        elif op[0] == "scale":
            obj, M = op[1] * obj, op[1] * M
        elif op[0] == "div":
            obj, M = obj / op[1], M / op[1]
        elif op[0] == "T":
            obj, M = obj.T, M.T
        else:
            raise ValueError(op)
    return obj, M


def derive_metric(sysw, rec):
    """give the (not yet used) system a derived metric object; the wrapper is re-described by the dense array that the
    recipe gives independently of mici"""
    obj, M = build_recipe(rec)
    sysw.system.metric = obj
    sysw.M = M
    sysw.metric_spec = {"kind": describe_recipe(rec)}
    sysw.spec = dict(sysw.spec, metric=sysw.metric_spec)


def derived_metric_oracles(ctx, rng, counts):
    """exact-flow / energy / Jacobian-block oracles with derived metric objects (inverses, scalar multiples, transposes,
    block diagonals of matrices whose lazily computed eigendecompositions / factors were touched first)"""
    reps = ctx.n(160, 1600)
    for kind in ic.TRACTABLE_KINDS:
        for rep in range(reps if kind.startswith("gaussian") else reps // 4):
            try:
                sspec = ic.random_system_spec(rng, kind, metric_kind="dense_obj")
                sysw = ic.build_system(sspec)
                stspec = ic.random_state_spec(rng, sysw, dir_=1)
                rec = random_recipe(rng, sysw.dim)
                _, M = build_recipe(rec)
            except common.MachineryError:
                raise
            except Exception as e:  # noqa: BLE001
                ctx.violation(f"{kind} derived metric construction raises", f"{type(e).__name__}: {e}", {"check": "build", "system": sspec})
                continue
            ev = np.linalg.eigvalsh((M + M.T) / 2)
            if not (ev[0] > 0.02 and ev[-1] / ev[0] < 400):
                ctx.count("derived:skipped_ill_conditioned")
                continue
            t, s_ = _rand_time(rng), _rand_time(rng)
            checks = ["h2_flow"] + (["dh2_flow_dmom"] if kind in ic.CONSTRAINED else [])
            for chk in checks:
                case = {"check": chk, "system": sspec, "state": stspec, "t": ic.enc(t), "s": ic.enc(s_), "populate": bool(rep % 2),
                        "derived": rec}
                if chk == "dh2_flow_dmom":
                    case["delta"] = ic.enc(ic.dy(rng, (sysw.dim,), 16, -1.0, 1.0))
                ctx.case({"check": chk, "kind": kind, "derived": describe_recipe(rec), "t": t, "dim": sysw.dim}, nontrivial=True)
                ctx.count(f"derived:{chk}:{kind}")
                try:
                    fails = ic.with_timeout(lambda c=case: check_case(c, counts), 60)
                except ic.Timeout:
                    fails = [(f"{kind} {chk} does not return", f"{chk} did not return within 60 s")]
                for sig, what in fails:
                    ctx.violation(sig + " (derived metric)", what, case)


REMETRIC_KINDS = ("scaled", "diag_obj", "dense_obj", "chol", "eig", "block")


class _ConstNormal:
    """generator for the adapters' final momentum resampling (the value is irrelevant here)"""

    def standard_normal(self, size=None, **_):
        return np.ones(size if size is not None else ())

    def normal(self, loc=0.0, scale=1.0, size=None, **_):  # noqa: ARG002
        return np.ones(size if size is not None else ())


def replace_metric(sysw, rm):
    """Scenario "metric replaced after first use" (what the metric adapters do between warm-up stages):
    (1) use every metric-dependent method of the system once, (2) replace `system.metric` - by direct assignment
    or through the real OnlineVariance/OnlineCovarianceMetricAdapter.finalize - (3) re-describe the wrapper by the
    NEW metric, so that all oracles of check_case run on fresh states against the metric the system holds now."""
    import mici

    d = sysw.dim
    system = sysw.system
    w = ic.arr(rm["warm"])
    for t in (0.75, -0.5):
        st = sysw.state(w[:d], w[d:])
        system.h2_flow(st, t)
        st = sysw.state(w[:d], w[d:])
        for name in ("h2", "dh2_dmom", "dh2_dpos", "h", "dh_dmom"):
            getattr(system, name)(st)
        if sysw.kind in ic.CONSTRAINED:
            system.dh2_flow_dmom(sysw.state(w[:d], w[d:]), t)
    how = rm["how"]
    if how == "assign":
        system.metric = ic.metric_arg(rm["metric"])
        sysw.M = ic.metric_dense(rm["metric"])
    else:
        cls = mici.adapters.OnlineVarianceMetricAdapter if how == "var_adapter" else mici.adapters.OnlineCovarianceMetricAdapter

        class T:
            pass

        T.system = system
        ad = cls()
        pts = ic.arr(rm["points"])
        st = sysw.state(pts[0], w[d:])
        astate = ad.initialize(st, T)
        for x in pts:
            ad.update(astate, sysw.state(x, w[d:]), {}, T)
        ad.finalize(astate, st, T, _ConstNormal())
        sysw.M = np.array(system.metric.array, dtype=float)
        if not np.all(np.isfinite(sysw.M)):
            raise common.MachineryError("C07 adapter produced a non-finite metric")
    sysw.metric_spec = {"kind": f"{sysw.spec.get('metric', {}).get('kind', '-')}->{how}:{rm.get('metric', {}).get('kind', 'adapted')}"}
    sysw.spec = dict(sysw.spec, metric=sysw.metric_spec)


def remetric_oracles(ctx, rng, counts):
    """the scenario of `replace_metric` for every tractable-flow system class"""
    reps = ctx.n(10, 100)
    for kind in ic.TRACTABLE_KINDS:
        hows = ["assign", "assign", "assign"] + (["var_adapter", "cov_adapter"] if kind in ic.UNCONSTRAINED_TRACTABLE else [])
        for rep in range(reps):
            how = hows[rep % len(hows)]
            try:
                sspec = ic.random_system_spec(rng, kind, metric_kind=str(rng.choice([k for k in ic.METRIC_KINDS])))
                sysw = ic.build_system(sspec)
                stspec = ic.random_state_spec(rng, sysw, dir_=1)
            except common.MachineryError:
                raise
            except Exception as e:  # noqa: BLE001
                ctx.violation(f"{kind} system construction raises", f"building a {kind} system raised {type(e).__name__}: {e}",
                              {"check": "build", "system": sspec})
                continue
            d = sysw.dim
            rm = {"how": how, "warm": ic.enc(ic.dy(rng, (2 * d,), 8, -1.0, 1.0))}
            if how == "assign":
                rm["metric"] = ic.random_metric_spec(rng, d, kinds=REMETRIC_KINDS)
            else:
                rm["points"] = ic.enc(ic.dy(rng, (d + 4, d), 8, -2.0, 2.0) * ic.dy(rng, (d,), 4, 0.5, 3.0))
            t, s = _rand_time(rng), _rand_time(rng)
            checks = ["h2_flow"] + (["dh2_flow_dmom"] if kind in ic.CONSTRAINED else [])
            for chk in checks:
                case = {"check": chk, "system": sspec, "state": stspec, "t": ic.enc(t), "s": ic.enc(s), "populate": False,
                        "remetric": rm}
                if chk == "dh2_flow_dmom":
                    case["delta"] = ic.enc(ic.dy(rng, (d,), 16, -1.0, 1.0))
                ctx.case({"check": chk, "kind": kind, "remetric": how, "t": t, "dim": d, "rep": rep}, nontrivial=True)
                ctx.count(f"remetric:{chk}:{kind}:{how}")
                try:
                    fails = ic.with_timeout(lambda c=case: check_case(c, counts), 60)
                except ic.Timeout:
                    fails = [(f"{kind} {chk} does not return", f"{chk} did not return within 60 s")]
                for sig, what in fails:
                    ctx.violation(sig + " after metric replacement", what + f" [metric replaced after first use: {how}]", case)


def check_case(case, counts=None):
    """Run one case on the real code; returns a list of (signature, what) failures."""
    cnt = counts if counts is not None else {}

    def count(k):
        cnt[k] = cnt.get(k, 0) + 1

    sysw = ic.build_system(case["system"])
    d = sysw.dim
    if "derived" in case:
        try:
            derive_metric(sysw, case["derived"])
        except common.MachineryError:
            raise
        except Exception as e:  # noqa: BLE001
            return [(f"{_name(sysw)} derived metric raises",
                     f"building the derived metric {describe_recipe(case['derived'])} raised {type(e).__name__}: {e}")]
    if "remetric" in case:
        try:
            replace_metric(sysw, case["remetric"])
        except common.MachineryError:
            raise
        except Exception as e:  # noqa: BLE001
            return [(f"{_name(sysw)} metric replacement raises",
                     f"first use / replacing the metric ({case['remetric'].get('how')}) raised {type(e).__name__}: {e}")]
    z = np.concatenate([ic.arr(case["state"]["pos"]), ic.arr(case["state"]["mom"])])
    t = ic.fl(case["t"])
    s = ic.fl(case.get("s", 0.0))
    pop = bool(case.get("populate", False))
    nm, fails = _name(sysw), []
    S = max(1.0, float(np.max(np.abs(z))))
    St = S * (1.0 + abs(t) + abs(s))
    chk = case["check"]

    if chk == "h1_flow":
        try:
            fresh = sysw.state(z[:d], z[d:])
            g = np.array(sysw.system.dh1_dpos(fresh), dtype=float)
            z1 = _apply(sysw, "h1_flow", z, t, pop)
        except Exception as e:  # noqa: BLE001
            return [(f"{nm} h1_flow raises", f"{nm}.h1_flow raised {type(e).__name__}: {e} (metric {_mk(sysw)})")]
        if z1[:d].tobytes() != z[:d].tobytes():
            fails.append((f"{nm} h1_flow moves position", f"h1_flow changed pos by {np.max(np.abs(z1[:d] - z[:d])):.3e}"))
        want = z[d:] - t * g
        err = float(np.max(np.abs(z1[d:] - want)))
        count("h1_bitwise" if z1[d:].tobytes() == want.tobytes() else "h1_close")
        if not err <= TOL_KICK * max(S, float(np.max(np.abs(want)))):
            fails.append((f"{nm} h1_flow kick", f"mom after h1_flow(t={t}) differs from mom - t*dh1_dpos(pos) by {err:.3e}"))
        if sysw.kind in ("euclidean", "gaussian") or sysw.spec.get("hausdorff", False):
            ga = sysw.target.grad(z[:d])
            if not np.max(np.abs(g - ga)) <= 1e-12 * max(1.0, float(np.max(np.abs(ga)))):
                fails.append((f"{nm} dh1_dpos", "dh1_dpos differs from the analytic gradient of neg_log_dens"))
        return fails

    if chk == "h2_flow":
        try:
            zt = _apply(sysw, "h2_flow", z, t, pop)
            zst = _apply(sysw, "h2_flow", zt, s)
            zsum = _apply(sysw, "h2_flow", z, s + t)
            zback = _apply(sysw, "h2_flow", zt, -t)
            h0 = float(sysw.system.h2(sysw.state(z[:d], z[d:])))
            h1 = float(sysw.system.h2(sysw.state(zt[:d], zt[d:])))
        except Exception as e:  # noqa: BLE001
            return [(f"{nm} h2_flow raises", f"{nm}.h2_flow raised {type(e).__name__}: {e} (metric {_mk(sysw)}, t={t})")]
        for arr_ in (zt, zst, zsum, zback):
            if not np.all(np.isfinite(arr_)):
                return [(f"{nm} h2_flow non-finite", f"h2_flow returned non-finite values (metric {_mk(sysw)}, t={t})")]
        e_group = float(np.max(np.abs(zst - zsum)))
        if not e_group <= TOL_GROUP * St:
            fails.append((f"{nm} h2_flow group law", f"flow(s)∘flow(t) differs from flow(s+t) by {e_group:.3e} (s={s}, t={t}, metric {_mk(sysw)})"))
        e_inv = float(np.max(np.abs(zback - z)))
        if not e_inv <= TOL_GROUP * St:
            fails.append((f"{nm} h2_flow inverse", f"flow(-t)∘flow(t) differs from identity by {e_inv:.3e} (t={t}, metric {_mk(sysw)})"))
        if not abs(h1 - h0) <= TOL_ENERGY * max(1.0, abs(h0)) * (1 + abs(t)):
            fails.append((f"{nm} h2_flow energy", f"h2 changes by {h1 - h0:.3e} along h2_flow (t={t}, metric {_mk(sysw)})"))
        zc = h2_exact(sysw, z, t)
        e_c = float(np.max(np.abs(zt - zc)))
        if not e_c <= TOL_CLOSED * St * (1 + abs(t)):
            fails.append((f"{nm} h2_flow closed form", f"h2_flow(t={t}) differs from the exact solution by {e_c:.3e} (metric {_mk(sysw)})"))
        if case.get("ode", False):
            zo = h2_ode(sysw, z, t)
            e_o = float(np.max(np.abs(zt - zo)))
            count("h2_ode")
            if not e_o <= TOL_ODE * St * (1 + abs(t)):
                fails.append((f"{nm} h2_flow ODE", f"h2_flow(t={t}) differs from the ODE solution of (dh2_dmom, -dh2_dpos) by {e_o:.3e} (metric {_mk(sysw)})"))
        return fails

    if chk == "dh2_flow_dmom":
        delta = ic.arr(case["delta"])
        try:
            st = sysw.state(z[:d], z[d:])
            if pop:
                ic.populate_cache(sysw, st)
            Pq, Pp = sysw.system.dh2_flow_dmom(st, t)
            cols_q = np.stack([np.asarray(Pq @ e, float) for e in np.eye(d)], axis=1)
            cols_p = np.stack([np.asarray(Pp @ e, float) for e in np.eye(d)], axis=1)
            aq, ap = np.asarray(Pq @ delta, float), np.asarray(Pp @ delta, float)
            R = np.asarray(ic.dy(np.random.default_rng(7), (d, 2), 4, -1, 1))
            mq, mp_ = np.asarray(Pq @ R, float), np.asarray(Pp @ R, float)
            z0 = _apply(sysw, "h2_flow", z, t)
            zd = _apply(sysw, "h2_flow", np.concatenate([z[:d], z[d:] + delta]), t)
            hh = 2.0**-10
            fdq, fdp = [], []
            for k in range(d):
                e = np.zeros(d)
                e[k] = hh
                a = _apply(sysw, "h2_flow", np.concatenate([z[:d], z[d:] + e]), t)
                b = _apply(sysw, "h2_flow", np.concatenate([z[:d], z[d:] - e]), t)
                fdq.append((a[:d] - b[:d]) / (2 * hh))
                fdp.append((a[d:] - b[d:]) / (2 * hh))
            fdq, fdp = np.stack(fdq, axis=1), np.stack(fdp, axis=1)
        except Exception as e:  # noqa: BLE001
            return [(f"{nm} dh2_flow_dmom raises", f"{nm}.dh2_flow_dmom / h2_flow raised {type(e).__name__}: {e} (metric {_mk(sysw)}, t={t})")]
        Sd = max(S, float(np.max(np.abs(delta)))) * (1 + abs(t))
        e_lin = max(float(np.max(np.abs(zd[:d] - z0[:d] - aq))), float(np.max(np.abs(zd[d:] - z0[d:] - ap))))
        if not e_lin <= TOL_LINEAR * Sd * 10:
            fails.append((f"{nm} dh2_flow_dmom blocks", f"flow(q,p+δ)-flow(q,p) differs from (Φqp δ, Φpp δ) by {e_lin:.3e} (t={t}, metric {_mk(sysw)})"))
        e_fd = max(float(np.max(np.abs(fdq - cols_q))), float(np.max(np.abs(fdp - cols_p))))
        if not e_fd <= TOL_FD * Sd:
            fails.append((f"{nm} dh2_flow_dmom finite difference", f"finite-difference Jacobian of h2_flow w.r.t. mom differs from dh2_flow_dmom by {e_fd:.3e} (t={t}, metric {_mk(sysw)})"))
        e_mat = max(float(np.max(np.abs(mq - cols_q @ R))), float(np.max(np.abs(mp_ - cols_p @ R))))
        if not e_mat <= 1e-12 * (1 + abs(t)) * 10:
            fails.append((f"{nm} dh2_flow_dmom matmul", f"Φ @ (d x 2 array) inconsistent with Φ @ columns by {e_mat:.3e}"))
        # independent closed form of the blocks
        ex = np.stack([h2_exact(sysw, np.concatenate([np.zeros(d), e]), t) for e in np.eye(d)], axis=1)
        e_ex = max(float(np.max(np.abs(ex[:d] - cols_q))), float(np.max(np.abs(ex[d:] - cols_p))))
        if not e_ex <= TOL_CLOSED * (1 + abs(t)) ** 2:
            fails.append((f"{nm} dh2_flow_dmom closed form", f"dh2_flow_dmom(t={t}) differs from exact flow derivative by {e_ex:.3e} (metric {_mk(sysw)})"))
        return fails

    raise ValueError(chk)


def _rand_time(rng):
    r = rng.random()
    if r < 0.15:
        return ic.dy_nonzero(rng, (), 64, -0.5, 0.5)
    if r < 0.55:
        return ic.dy_nonzero(rng, (), 16, -3.0, 3.0)
    return ic.dy_nonzero(rng, (), 16, -20.0, 20.0)


def direct_oracles(ctx):
    rng = common.rng_for(ctx, 1)
    ic.selfcheck(common.rng_for(ctx, 99), 3)
    reps = ctx.n(30, 300)
    # a broken source-level obligation (src_*_flow_eq_model over the regenerated method table) escalates the search
    from . import c05 as zoo

    if zoo.src_escalation(ctx)[0] and ctx.quick:
        reps *= 3
    counts: dict = {}
    n_ode = 0
    ode_budget = ctx.n(200, 2000)
    for kind in ic.TRACTABLE_KINDS:
        for mk in ic.METRIC_KINDS:
            for rep in range(reps):
                try:
                    sspec = ic.random_system_spec(rng, kind, metric_kind=mk)
                    sysw = ic.build_system(sspec)
                    stspec = ic.random_state_spec(rng, sysw, dir_=1)
                except common.MachineryError:
                    raise
                except Exception as e:  # noqa: BLE001
                    ctx.violation(f"{kind} system construction raises", f"building a {kind} system with metric {mk} raised {type(e).__name__}: {e}",
                                  {"check": "build", "system": sspec})
                    continue
                t, s = _rand_time(rng), _rand_time(rng)
                checks = ["h1_flow", "h2_flow"] + (["dh2_flow_dmom"] if kind in ic.CONSTRAINED else [])
                for chk in checks:
                    case = {"check": chk, "system": sspec, "state": stspec, "t": ic.enc(t), "s": ic.enc(s),
                            "populate": bool(rep % 2)}
                    if chk == "h2_flow" and n_ode < ode_budget and rep % 3 == 0 and abs(t) <= 12:
                        case["ode"] = True
                        n_ode += 1
                    if chk == "dh2_flow_dmom":
                        case["delta"] = ic.enc(ic.dy(rng, (sysw.dim,), 16, -1.0, 1.0))
                    M = sysw.M
                    period = 2 * np.pi * np.sqrt(np.max(np.linalg.eigvalsh(M)))
                    ctx.case({"check": chk, "kind": kind, "metric": mk, "t": t, "dim": sysw.dim, "rep": rep},
                             nontrivial=(mk not in ("identity",)) or abs(t) > period)
                    ctx.count(f"{chk}:{kind}:{mk}")
                    if abs(t) > period and kind in ("gaussian", "gaussian_constrained"):
                        ctx.count("t_longer_than_period")
                    try:
                        fails = ic.with_timeout(lambda c=case: check_case(c, counts), 60)
                    except ic.Timeout:
                        fails = [(f"{kind} {chk} does not return", f"{chk} did not return within 60 s")]
                    for sig, what in fails:
                        ctx.violation(sig, what, case)
    remetric_oracles(ctx, common.rng_for(ctx, 5), counts)
    derived_metric_oracles(ctx, common.rng_for(ctx, 6), counts)
    for k, v in ic.STATS.items():
        ctx.count("lib:" + k, v)
    for k, v in counts.items():
        ctx.count(k, v)


def run(ctx: common.Ctx):
    ctx.rule = (
        "every tractable-flow system class (Euclidean, Gaussian-split, dense constrained with/without Hausdorff "
        "density, Gaussian constrained) x every metric type (implicit identity, 1-D / 2-D arrays, sized identity, "
        "scaled identity with explicit and implicit size, diagonal, dense, Cholesky-factored, eigendecomposed, block-diagonal matrix objects) x "
        "polynomial targets x dyadic states x times in [-20, 20]; non-trivial = non-identity metric or |t| longer "
        "than the slowest oscillation period"
    )
    ctx.assumptions += [
        "user functions (targets, constraints) are polynomials with exact analytic derivatives",
        "closed-form reference: scipy.linalg.expm / dense linear algebra on the metric described by the spec",
        "ODE reference: scipy DOP853, rtol = atol = 1e-12, on the system's own dh2_dmom / dh2_dpos",
    ]
    from . import integ_corr
    import sys

    integ_corr.replay_corpus(ctx, sys.modules[__name__])
    correspondence(ctx)
    direct_oracles(ctx)


def replay(ctx, obj):  # noqa: ARG001
    if obj.get("check") == "build":
        try:
            ic.build_system(obj["system"])
        except Exception:  # noqa: BLE001
            return True
        return False
    case = {k: obj[k] for k in ("check", "system", "state", "t", "s", "populate", "ode", "delta", "remetric", "derived") if k in obj}
    try:
        return bool(ic.with_timeout(lambda: check_case(case), 120))
    except ic.Timeout:
        return True


LEVEL_TEXT = (
    'Lean 4 proof over an arbitrary field, every dimension and every time (positive, negative, arbitrarily long): h1_flow '
    'leaves the position and shifts the momentum by -t grad h1(q) (kick_pos, kick_mom, kick_add, kick_neg, kick_hamilton); '
    'Euclidean h2_flow: group law, inverse by negative time, conservation of any function of the momentum, affine-in-time '
    'with the Hamiltonian vector field as slope (drift_add, drift_neg, drift_h2_conserved, drift_hamilton) and '
    'dh2_flow_dmom = (t M^-1, I) is the exact momentum increment map (drift_dmom); Gaussian-split h2_flow: group law given '
    "angle addition, inverse given cos^2+sin^2=1 and parity, conservation of h2 = q.q/2 + p.M^-1 p/2, Hamilton's equations "
    '(substituting the derivatives of cos/sin gives exactly (M^-1 p, -q) at the flowed point), and dh2_flow_dmom equals the '
    'exact Jacobian blocks (harmonic_add, harmonic_neg, harmonic_h2_conserved, harmonic_hamilton, harmonic_dmom). Tie: '
    'exact-rational model vs real h1_flow / h2_flow / dh2_flow_dmom of Euclidean, Gaussian-split and (Gaussian) constrained '
    'systems with implicit identity, implicit scaled identity, diagonal and dense metrics, times up to |t| = 40; the model '
    "receives the implementation's own eigenvectors, frequencies and cos/sin values, which are checked against their "
    'defining equations. Direct oracles on the real code: group law, inverse, h2 conservation, closed form via expm, ODE '
    'reference, linearity and finite differences of the flow in the momentum vs dh2_flow_dmom; any exception is a violation; '
    'the same oracles after the metric was replaced following a first use (direct assignment, OnlineVariance/'
    'OnlineCovarianceMetricAdapter.finalize) and with derived metric objects (inverses, scalar multiples, transposes, block '
    'diagonals of matrices whose lazily computed eigendecompositions / factors were touched first; reference = dense array '
    'obtained from the recipe without mici). Source level (Props/C07S): the bodies of h1_flow / h2_flow / dh2_flow_dmom '
    'in systems.py are re-translated on every run (tools/extractors/system_methods.py -> Generated/SystemMethods.lean) and '
    'src_<Class>_h1_flow/h2_flow/dh2_flow_dmom_eq_model prove that executing the generated in-place bodies (calls resolved '
    'through the generated MRO) gives kick with the class\' own dh1_dpos, drift with metric.inv, harmonic with omega = 1.0 / '
    'eigval ** 0.5 and (cos, sin)(omega dt) exactly as written, and driftDmom / harmonicDmom; src_*_flow_group, '
    'src_GaussianEuclideanMetricSystem_h2_conserved restate group law, reversal and h2 conservation for the source text.'
)
LEVEL_NOTE = (
    'Trusted: Lean kernel, axioms {propext, Classical.choice, Quot.sound}; algebraic facts about cos/sin enter as hypotheses '
    '(true for the real functions; libm accuracy is outside the theorems and covered by the 1e-9 comparison); d/dt cos(wt) = '
    '-w sin(wt), d/dt sin(wt) = w cos(wt) and linearity of differentiation for harmonic_hamilton; eigendecomposition accuracy '
    'of numpy.linalg.eigh (defining equations checked to 1e-11). dt = 0 is excluded for dh2_flow_dmom (zero scalar multiples '
    'of matrices are rejected by mici.matrices; only reachable with step_size = 0).'
)
TECHNIQUE = 'Lean 4 theorems (field/module algebra, orthogonal change of basis) + exact-rational model/implementation correspondence + group-law / conservation / finite-difference oracles + source-to-term translation of the flow method bodies with machine-checked equality to the model (src_*_eq_model)'
