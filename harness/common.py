"""Shared plumbing for the mici verification checks.

Every property module ``harness/cXX.py`` exposes

    PROP            property id ("C16")
    LEAN_MODULES    Lean modules holding the property theorems (built + audited every run)
    GENERATED       (optional) list of translator plug-ins (tools/extractors/<name>.py) to re-run first
    run(ctx)        correspondence + direct oracle; reports through ctx
    replay(ctx, obj)  (optional) re-execute one replay file; return True iff it still fails

``ctx`` is a :class:`Ctx`.  Exit codes of ``./check``: 0 held, 1 violation, 2 machinery error.
"""

from __future__ import annotations

import hashlib
import json
import os
import re
import subprocess
import sys
import time
from fractions import Fraction
from pathlib import Path

VERIF = Path(__file__).resolve().parents[1]
LEAN = VERIF / "lean"
REPO = Path(os.environ.get("MICI_REPO", "/repo"))
if str(REPO) != "/repo" and os.environ.get("VERIF_PRIVATE_LEAN", "1") == "1":
    # A scratch tree (tools/try_patch.sh, tools/eval_seed.sh) gets a private copy of the Lean project
    # (sources + build output, ~150 MB, removed with the scratch tree): its regenerated tables and
    # rebuilt modules never disturb, or wait for, checks of /repo itself.
    _priv = REPO / ".verif-lean"
    subprocess.run(["rsync", "-a", "--delete", "--exclude", ".generated.lock", str(LEAN) + "/", str(_priv) + "/"],
                   check=True)
    LEAN = _priv
ALLOWED_AXIOMS = {"propext", "Classical.choice", "Quot.sound"}
FORBIDDEN = re.compile(
    r"\bsorry\b|\badmit\b|^\s*axiom\s|native_decide|bv_decide|implemented_by|\bunsafe\s|maxHeartbeats\s+0\b"
)
TRUSTED_BASE = [
    "Lean 4.33.0 kernel (thorough tier: re-checked with leanchecker)",
    "axioms: subset of {propext, Classical.choice, Quot.sound}; no native_decide/bv_decide/sorry",
    "Mathlib v4.33.0 as compiled in /opt/veriftools/mathlib4",
    "tools/extract.py (AST translator) where tables are generated",
    "correspondence harness + generators + tolerances; NumPy/SciPy/libm arithmetic",
]


class MachineryError(Exception):
    pass


# --------------------------------------------------------------------------------------
# exact rationals across the protocol


def frac(x) -> Fraction:
    """Exact rational value of a float / int / numpy scalar."""
    if isinstance(x, Fraction):
        return x
    if isinstance(x, int):
        return Fraction(x)
    return Fraction(*float(x).as_integer_ratio())


def fstr(x) -> str:
    f = frac(x)
    return f"{f.numerator}/{f.denominator}"


def vstr(v) -> str:
    return "[" + ",".join(fstr(x) for x in v) + "]"


def parse_frac(s: str) -> Fraction:
    s = s.strip()
    if "/" in s:
        a, b = s.split("/")
        return Fraction(int(a), int(b))
    return Fraction(int(s))


def parse_vec(s: str) -> list[Fraction]:
    s = s.strip()
    assert s[0] == "[" and s[-1] == "]", s
    body = s[1:-1].strip()
    return [] if not body else [parse_frac(t) for t in body.split(",")]


def close(a, b, rtol=1e-9, atol=1e-11) -> bool:
    a, b = float(a), float(b)
    if a != a or b != b:
        return (a != a) and (b != b)
    if a in (float("inf"), float("-inf")) or b in (float("inf"), float("-inf")):
        return a == b
    return abs(a - b) <= atol + rtol * max(abs(a), abs(b))


def stable_hash(obj) -> str:
    return hashlib.sha256(json.dumps(obj, sort_keys=True, default=str).encode()).hexdigest()[:16]


# --------------------------------------------------------------------------------------
# Lean side


def _run(cmd, cwd=None, inp=None, timeout=3600):
    p = subprocess.run(
        cmd, cwd=cwd, input=inp, capture_output=True, text=True, timeout=timeout, check=False
    )
    return p.returncode, p.stdout, p.stderr


def lake_build(modules: list[str], timeout=3600):
    """Incremental build of the given modules. Returns (ok, log)."""
    rc, out, err = _run(["lake", "build", *modules], cwd=LEAN, timeout=timeout)
    return rc == 0, out + err


def theorem_names(module: str) -> list[str]:
    """Fully qualified names of the theorems declared in a Props module."""
    path = LEAN / (module.replace(".", "/") + ".lean")
    names = []
    ns: list[str] = []
    for line in path.read_text().splitlines():
        m = re.match(r"^namespace\s+(\S+)", line)
        if m:
            ns.append(m.group(1))
            continue
        m = re.match(r"^end\s+(\S+)", line)
        if m and ns and ns[-1] == m.group(1):
            ns.pop()
            continue
        # private helper lemmas are not auditable by name; their axioms surface in the
        # public theorems that use them
        m = re.match(r"^(?:@\[[^\]]*\]\s*)?(?:protected\s+)?theorem\s+([^\s:({\[]+)", line)
        if m:
            names.append(".".join([*ns, m.group(1)]))
    return names


def theorem_spans(module: str) -> list[tuple[str, int, int]]:
    """(fully qualified theorem name, first line, last line) for a Props module: a theorem's span runs
    to the line before the next top-level declaration."""
    path = LEAN / (module.replace(".", "/") + ".lean")
    lines = path.read_text().splitlines()
    ns: list[str] = []
    starts: list[tuple[int, str | None]] = []
    decl = re.compile(r"^(?:@\[[^\]]*\]\s*)?(?:private\s+|protected\s+)?(?:noncomputable\s+)?"
                      r"(theorem|lemma|def|abbrev|example|instance|structure|inductive|omit|section|end|namespace|open|variable|/-[-!])")
    for i, line in enumerate(lines, 1):
        m = re.match(r"^namespace\s+(\S+)", line)
        if m:
            ns.append(m.group(1))
        m2 = re.match(r"^end\s+(\S+)", line)
        if m2 and ns and ns[-1] == m2.group(1):
            ns.pop()
        m3 = re.match(r"^(?:@\[[^\]]*\]\s*)?(?:protected\s+)?theorem\s+([^\s:({\[]+)", line)
        if m3:
            starts.append((i, ".".join([*ns, m3.group(1)])))
        elif decl.match(line):
            starts.append((i, None))
    out = []
    for k, (ln, name) in enumerate(starts):
        if name is None:
            continue
        end = starts[k + 1][0] - 1 if k + 1 < len(starts) else len(lines)
        out.append((name, ln, end))
    return out


def localise_errors(module: str, log: str) -> tuple[list[str], bool]:
    """Theorems of `module` inside whose source span the build log reports an error, and whether
    every error of that file could be attributed to a theorem (else: an error in an import, a
    definition or a private lemma, and all theorems of the module must be considered broken)."""
    rel = module.replace(".", "/") + ".lean"
    errs = [int(m.group(1)) for m in re.finditer(r"error: (?:\./)?" + re.escape(rel) + r":(\d+):\d+", log)]
    spans = theorem_spans(module)
    hit, attributed = [], True
    for ln in errs:
        names = [n for n, a, b in spans if a <= ln <= b]
        if names:
            hit += [n for n in names if n not in hit]
        else:
            attributed = False
    if not errs:
        attributed = False
    return hit, attributed


def grep_forbidden(paths: list[Path]) -> list[str]:
    hits = []
    for p in paths:
        in_block = 0
        for i, line in enumerate(p.read_text().splitlines(), 1):
            # strip block comments (nesting tracked coarsely) and line comments
            s = line
            out = ""
            j = 0
            while j < len(s):
                if s.startswith("/-", j):
                    in_block += 1
                    j += 2
                elif s.startswith("-/", j) and in_block:
                    in_block -= 1
                    j += 2
                elif in_block:
                    j += 1
                elif s.startswith("--", j):
                    break
                else:
                    out += s[j]
                    j += 1
            if FORBIDDEN.search(out):
                hits.append(f"{p.relative_to(VERIF)}:{i}: {line.strip()}")
    return hits


def module_sources(modules: list[str]) -> list[Path]:
    """The given modules plus every MiciVerif module they import, transitively."""
    seen: dict[str, Path] = {}
    todo = list(modules)
    while todo:
        m = todo.pop()
        if m in seen:
            continue
        p = LEAN / (m.replace(".", "/") + ".lean")
        if not p.exists():
            continue
        seen[m] = p
        for line in p.read_text().splitlines():
            mm = re.match(r"^\s*(?:public\s+)?import\s+(MiciVerif\.\S+)", line)
            if mm:
                todo.append(mm.group(1))
    return list(seen.values())


def audit(modules: list[str]):
    """#print axioms on every theorem of the given Props modules.

    Returns list of dicts {theorem, axioms, ok}.  Raises MachineryError if lean cannot run.
    """
    names = []
    for m in modules:
        names += theorem_names(m)
    if not names:
        return []
    d = LEAN / ".audit"
    d.mkdir(exist_ok=True)
    f = d / ("Audit_" + stable_hash(modules) + ".lean")
    f.write_text(
        "".join(f"import {m}\n" for m in modules) + "".join(f"#print axioms {n}\n" for n in names)
    )
    rc, out, err = _run(["lake", "env", "lean", str(f)], cwd=LEAN, timeout=1800)
    res = {}
    text = out + err
    for m in re.finditer(
        r"'([^']+)' (?:depends on axioms: \[([^\]]*)\]|does not depend on any axioms)", text, re.S
    ):
        ax = [a.strip() for a in (m.group(2) or "").replace("\n", " ").split(",") if a.strip()]
        res[m.group(1)] = ax
    out_list = []
    for n in names:
        if n in res:
            ax = res[n]
            out_list.append({"theorem": n, "axioms": ax, "ok": set(ax) <= ALLOWED_AXIOMS})
        else:
            out_list.append({"theorem": n, "axioms": None, "ok": False})
    return out_list


def run_driver(driver: str, lines: list[str], timeout=3600) -> list[str]:
    """Run ``lake env lean --run Driver/<driver>.lean`` on the request lines."""
    inp = "\n".join(lines) + "\n"
    rc, out, err = _run(
        ["lake", "env", "lean", "--run", f"Driver/{driver}.lean"], cwd=LEAN, inp=inp, timeout=timeout
    )
    if rc != 0:
        raise MachineryError(f"driver {driver} failed rc={rc}: {err[-2000:]} {out[-500:]}")
    res = out.splitlines()
    if len(res) != len(lines):
        raise MachineryError(
            f"driver {driver}: {len(lines)} requests but {len(res)} responses; stderr={err[-1000:]}"
        )
    return res


# --------------------------------------------------------------------------------------
# findings


def load_findings():
    p = VERIF / "known_findings.json"
    if not p.exists():
        return []
    return json.loads(p.read_text())["findings"]


# --------------------------------------------------------------------------------------
# context handed to property modules


class Ctx:
    def __init__(self, prop: str, tier: str, seed: int):
        self.prop = prop
        self.tier = tier
        self.seed = seed
        self.t0 = time.time()
        self.evaluations = 0
        self.nontrivial: set[str] = set()
        self.samples: list = []
        self.hist: dict[str, int] = {}
        self.rule = ""
        self.assumptions: list[str] = []
        self.extra: dict = {}
        self.violations: list[dict] = []  # {signature, what, replay(obj), no_input}
        self.disagreements: list[dict] = []
        self.obligations: list[dict] = []
        self.build_ok = True
        self.build_log = ""
        self.exhaustive = False

    # -- bookkeeping ---------------------------------------------------------------
    @property
    def quick(self) -> bool:
        return self.tier == "quick"

    def n(self, quick: int, thorough: int) -> int:
        return quick if self.quick else thorough

    def count(self, key: str, k: int = 1):
        self.hist[key] = self.hist.get(key, 0) + k

    def case(self, obj, nontrivial: bool = True, sample: bool = False):
        """Register one explored case (for evidence)."""
        self.evaluations += 1
        if nontrivial:
            self.nontrivial.add(stable_hash(obj))
        if sample or len(self.samples) < 3:
            if len(self.samples) < 8:
                self.samples.append(obj)

    # -- reporting ------------------------------------------------------------------
    def disagreement(self, what: str, case):
        """Model and implementation differ on `case` (not by itself a violation)."""
        self.disagreements.append({"what": what, "case": case})

    def violation(self, signature: str, what: str, replay: dict, no_input: bool = False):
        """The property fails on the real code for `replay` (or is no longer shown)."""
        if sum(1 for v in self.violations if v["signature"] == signature) >= 3:
            self.extra["suppressed_duplicate_violations"] = self.extra.get("suppressed_duplicate_violations", 0) + 1
            return
        self.violations.append(
            {"signature": signature, "what": what, "replay": replay, "no_input": no_input}
        )


def write_replay(prop: str, v: dict) -> Path:
    d = Path(os.environ.get("VERIF_REPLAY_DIR", VERIF / "replays"))
    d.mkdir(parents=True, exist_ok=True)
    obj = {
        "property": prop,
        "kind": "obligation-unchecked" if v["no_input"] else "failing-input",
        "signature": v["signature"],
        "what": v["what"],
        **v["replay"],
        "how_to_run": f"./check {prop} --replay <this file>",
    }
    p = d / f"{prop}-{stable_hash(obj)}.json"
    p.write_text(json.dumps(obj, indent=1, default=str))
    return p


def finish(ctx: Ctx, checker_cmd: str) -> int:
    findings = load_findings()
    known = [f for f in findings if f["property"] == ctx.prop and f["status"] == "known"]
    unlisted = []
    known_hit: dict[str, dict] = {}
    for v in ctx.violations:
        hit = None
        for f in known:
            if re.search(f["signature"], v["signature"]):
                hit = f
                break
        if hit is None:
            unlisted.append(v)
        else:
            known_hit[hit["id"]] = hit
    # A known finding is announced on every run of its property (the code still has it).
    for f in known:
        print(f"KNOWN-FINDING: property={ctx.prop} {f['what']}")
    n_obl = len(ctx.obligations)
    n_dis = sum(1 for o in ctx.obligations if o["ok"])
    ev = {
        "property_id": ctx.prop,
        "tier": ctx.tier,
        "seed": ctx.seed,
        "level": "proof",
        "coverage": {
            "obligations": n_obl,
            "discharged": n_dis,
            "checker_cmd": checker_cmd,
            "trusted_base": TRUSTED_BASE,
            "theorems": [
                {"name": o["theorem"], "axioms": o["axioms"], "ok": o["ok"]} for o in ctx.obligations
            ],
            "evaluations": ctx.evaluations,
            "distinct_nontrivial": len(ctx.nontrivial),
            "rule": ctx.rule,
            "samples": ctx.samples[:8],
            "input_distribution": dict(sorted(ctx.hist.items())),
            "model_impl_disagreements": len(ctx.disagreements),
            "exhaustive": ctx.exhaustive,
            **ctx.extra,
        },
        "assumptions": ctx.assumptions,
        "wall_s": round(time.time() - ctx.t0, 2),
        "violations": len(unlisted),
    }
    evdir = Path(os.environ.get("VERIF_EVIDENCE_DIR", VERIF / "evidence"))
    evdir.mkdir(parents=True, exist_ok=True)
    (evdir / f"{ctx.prop}.json").write_text(json.dumps(ev, indent=1, default=str))
    for v in unlisted:
        p = write_replay(ctx.prop, v)
        tail = " no-failing-input-found" if v["no_input"] else ""
        shown = p.relative_to(VERIF) if VERIF in p.parents else p
        print(f"VIOLATION property={ctx.prop} replay={shown}{tail}")
        print(f"  {v['what']}")
    if unlisted:
        return 1
    print(
        f"OK property={ctx.prop} tier={ctx.tier} theorems={n_dis}/{n_obl} cases={ctx.evaluations} "
        f"nontrivial={len(ctx.nontrivial)} wall={ev['wall_s']}s"
    )
    return 0


def rng_for(ctx: Ctx, stream: int = 0):
    import numpy as np

    return np.random.Generator(np.random.Philox(key=[ctx.seed, stream]))


def import_repo():
    """Make sure `import mici` resolves to REPO/src (the working tree under test)."""
    src = str(REPO / "src")
    if src not in sys.path:
        sys.path.insert(0, src)
    import mici  # noqa: PLC0415

    got = Path(mici.__file__).resolve()
    if REPO.resolve() not in got.parents:
        raise MachineryError(f"mici imported from {got}, expected under {REPO}")
    return mici
