"""C08 — momentum updates leave the Gaussian momentum law invariant.

Model: lean/MiciVerif/Model/Momentum.lean, theorems lean/MiciVerif/Props/C08.lean.
Tie (X): a scripted generator whose normal draws are basis vectors recovers the implementation's
linear map L (`sample_momentum(z) = L z`) column by column for every system class / metric type
of the C05 zoo; the model's projected covariance `M - J^T G^-1 J` (exact, over Q) and its
`P (sqrt z)` / `CorrelatedMomentumTransition.sample` are compared with the implementation.
Direct oracle: L L^T = metric (projected for constrained systems) with independent NumPy
formulas, exact linearity in the draw, Crank-Nicolson coefficient identity a^2 + c^2 = 1, and
the branch behaviour (c = 1 / mom None: full refresh with one draw; c = 0: unchanged, no draw).
"""
from __future__ import annotations

import numpy as np

from . import c05 as zoo
from . import common

PROP = "C08"
LEAN_MODULES = ["MiciVerif.Props.C08", "MiciVerif.Props.C08S", "MiciVerif.Props.C08K"]  # C08K: builder B10
GENERATED = ["system_methods", "transition_skeleton"]
LEAN_EXTRA = ["MiciVerif.Model.Momentum", "MiciVerif.Model.Constrained", "MiciVerif.Proto"]

COEFFS = [0.0, 1.0, 0.25, 0.5, 0.6, 0.875, 0.999]


class ScriptGen:
    """Generator whose every normal draw is `z`; counts the draws."""

    def __init__(self, z):
        self.z = np.array(z, dtype=float)
        self.draws = 0

    def _draw(self, size):
        self.draws += 1
        n = size if isinstance(size, int) else (size[0] if size else len(self.z))
        if n != len(self.z):
            raise ValueError(f"draw of size {size} requested, script has {len(self.z)}")
        return self.z.copy()

    def standard_normal(self, size=None, **_):
        return self._draw(size)

    def normal(self, loc=0.0, scale=1.0, size=None):  # noqa: ARG002
        return self._draw(size)


def mstr(M):
    M = np.asarray(M)
    if M.shape[0] == 0:
        return "[]"
    return "[" + ",".join(common.vstr(r) for r in M) + "]"


def fvec(s):
    return np.array([float(x) for x in common.parse_vec(s)])


def fmat(s, n):
    body = s.strip()
    rows = body[2:-2].split("],[")
    return np.array([[float(common.parse_frac(t)) for t in r.split(",")] for r in rows]).reshape(n, n)


def new_state(q, mom=None):
    from mici.states import ChainState

    return ChainState(pos=np.array(q, dtype=float), mom=None if mom is None else np.array(mom, dtype=float), dir=1)


def recover_L(system, q, n):
    cols = []
    for i in range(n):
        e = np.zeros(n)
        e[i] = 1.0
        cols.append(np.array(system.sample_momentum(new_state(q), ScriptGen(e)), dtype=float))
    return np.stack(cols, axis=1)


def expected_cov(sp, r, q):
    """Independent NumPy value of the covariance the momentum must have at q."""
    q = np.array(q, dtype=float)
    M = r.metric_at(q)
    if "A" in sp:
        J = r.jacob(q)
        N = np.linalg.inv(M)
        return M - J.T @ np.linalg.solve(J @ N @ J.T, J), J, M
    return M, np.zeros((0, sp["n"])), M


def oracle_case(sp, q, z, mom, coeff):
    """Property statement on the real system. Returns (list of (signature, text), observations)."""
    import mici

    system, r = zoo.build_system(sp)
    n = sp["n"]
    cls = type(system).__name__
    mk = sp.get("metric", {}).get("kind", "-")
    bad = []
    L = recover_L(system, q, n)
    cov, J, M = expected_cov(sp, r, q)
    sc = 1.0 + float(np.max(np.abs(cov)))
    err = float(np.max(np.abs(L @ L.T - cov)))
    if not err <= 1e-9 * sc:
        what = "metric projected onto the cotangent space" if J.shape[0] else "metric"
        bad.append((f"{cls}.sample_momentum covariance metric={mk}",
                    f"sample_momentum(z) = L z with L L^T != {what} (max abs err {err:.3e}); L = {L.tolist()}"))
    zz = np.array(z, dtype=float)
    g = ScriptGen(zz)
    pz = np.array(system.sample_momentum(new_state(q), g), dtype=float)
    if g.draws != 1:
        bad.append((f"{cls}.sample_momentum draws", f"sample_momentum consumed {g.draws} normal draws"))
    if float(np.max(np.abs(pz - L @ zz))) > 1e-10 * (1 + float(np.max(np.abs(pz)))):
        bad.append((f"{cls}.sample_momentum linearity", f"sample_momentum(z) != L z for z = {list(z)}"))
    # transitions ---------------------------------------------------------------------------
    obs = {"L": L, "J": J, "M": M, "pz": pz}
    g = ScriptGen(zz)
    st, _ = mici.transitions.IndependentMomentumTransition(system).sample(new_state(q, mom), g)
    if g.draws != 1 or float(np.max(np.abs(np.array(st.mom) - pz))) > 1e-12 * (1 + float(np.max(np.abs(pz)))):
        bad.append(("IndependentMomentumTransition.sample", "independent refresh is not sample_momentum of one draw"))
    tr = mici.transitions.CorrelatedMomentumTransition(system, mom_resample_coeff=coeff)
    for label, m0 in (("mom", mom), ("none", None)):
        g = ScriptGen(zz)
        st, _ = tr.sample(new_state(q, m0), g)
        new = np.array(st.mom, dtype=float)
        obs[f"cm_{label}"] = (new, g.draws)
        if m0 is None or coeff == 1:
            if g.draws != 1 or float(np.max(np.abs(new - pz))) > 1e-12 * (1 + float(np.max(np.abs(pz)))):
                bad.append((f"CorrelatedMomentumTransition.sample full-refresh c={coeff} mom={label}",
                            f"coefficient {coeff}, mom {label}: expected a full refresh with one draw, got {new.tolist()} after {g.draws} draws"))
        elif coeff == 0:
            if g.draws != 0 or not np.array_equal(new, np.array(m0, dtype=float)):
                bad.append(("CorrelatedMomentumTransition.sample c=0",
                            f"coefficient 0: momentum changed to {new.tolist()} / {g.draws} draws consumed"))
    # Crank-Nicolson coefficient: with a zero draw the update is mom -> a * mom
    a_impl = None
    if 0 < coeff < 1:
        g0 = ScriptGen(np.zeros(n))
        st, _ = tr.sample(new_state(q, mom), g0)
        m0 = np.array(mom, dtype=float)
        k = int(np.argmax(np.abs(m0)))
        a_impl = float(np.array(st.mom)[k] / m0[k])
        if float(np.max(np.abs(np.array(st.mom) - a_impl * m0))) > 1e-13 * (1 + float(np.max(np.abs(m0)))):
            bad.append(("CorrelatedMomentumTransition.sample scaling", "old momentum is not scaled by a single coefficient"))
        if abs(a_impl * a_impl + coeff * coeff - 1.0) > 1e-13 or a_impl < 0:
            bad.append(("CorrelatedMomentumTransition.sample crank-nicolson-coefficient",
                        f"old momentum scaled by a = {a_impl!r} with a^2 + c^2 = {a_impl * a_impl + coeff * coeff!r} != 1 for c = {coeff}: "
                        "the update does not preserve the momentum covariance"))
        new, _ = obs["cm_mom"]
        want = a_impl * m0 + coeff * pz
        if float(np.max(np.abs(new - want))) > 1e-12 * (1 + float(np.max(np.abs(want)))):
            bad.append(("CorrelatedMomentumTransition.sample combination", f"update is not a*mom + c*sample_momentum(z): {new.tolist()} vs {want.tolist()}"))
    obs["a"] = a_impl
    obs["system"] = system
    return bad, obs


# --- B10: momentum-transition oracle (finite-sample form of C08K.msem_correlated_invariant) -------------------------
class SeqGen:
    """Generator whose k-th normal draw is `zs[k]` (the last one repeated); counts the draws."""

    def __init__(self, zs):
        self.zs = [np.array(z, dtype=float) for z in zs]
        self.draws = 0

    def _draw(self, size):
        z = self.zs[min(self.draws, len(self.zs) - 1)]
        self.draws += 1
        n = size if isinstance(size, int) else (size[0] if size else len(z))
        if n != len(z):
            raise ValueError(f"draw of size {size} requested, script has {len(z)}")
        return z.copy()

    def standard_normal(self, size=None, **_):
        return self._draw(size)

    def normal(self, loc=0.0, scale=1.0, size=None):  # noqa: ARG002
        return self._draw(size)


def k_escalated(ctx) -> bool:
    """An obligation of Props/C08K (source tie of the momentum transitions: skel_* / msem_*) is broken, i.e. the
    bodies of IndependentMomentumTransition.sample / CorrelatedMomentumTransition.__init__ / .sample regenerated from
    the tree under test are no longer the ones the model was proved about."""
    broken = [o["theorem"] for o in ctx.obligations if not o["ok"] and ".C08K." in "." + o["theorem"] + "."]
    if broken:
        ctx.extra["c08k_obligations_broken"] = broken[:20]
    return bool(broken)


def cn_oracle(sp, q, mom, coeff, z1, z2):
    """The property statement for the two momentum transitions on the real system `sp` at position `q`:
    (a) branch behaviour with a generator whose first two draws DIFFER (z1, z2): full refresh = sample_momentum(z1)
    after exactly one draw when mom is None or c == 1; unchanged and no draw when c == 0; otherwise exactly one
    draw and a * mom + c * sample_momentum(z1) with a >= 0, a^2 + c^2 = 1;
    (b) invariance of the law at the level of second moments, exactly as C08K.msem_correlated_invariant states it:
    current momenta +-sqrt(n) L e_i (mean 0, second moment L L^T) x draws +-sqrt(n) e_j (mean 0, second moment 1),
    all (2n)^2 pairs pushed through the real `sample`: the outputs must have second moment L L^T (and mean 0).
    Returns a list of (signature, text)."""
    import mici

    system, _ = zoo.build_system(sp)
    n = sp["n"]
    bad = []
    L = recover_L(system, q, n)
    cov = L @ L.T
    sc = 1.0 + float(np.max(np.abs(cov)))
    z1 = np.array(z1, dtype=float)
    z2 = np.array(z2, dtype=float)
    p1 = L @ z1
    tr = mici.transitions.CorrelatedMomentumTransition(system, mom_resample_coeff=coeff)
    ind = mici.transitions.IndependentMomentumTransition(system)
    m0 = None if mom is None else np.array(mom, dtype=float)
    tol = 1e-11 * (1 + float(np.max(np.abs(p1))) + (0.0 if m0 is None else float(np.max(np.abs(m0)))))
    # (a) ---------------------------------------------------------------------------------------------
    g = SeqGen([z1, z2])
    st, stats = ind.sample(new_state(q, m0), g)
    if g.draws != 1 or st.mom is None or float(np.max(np.abs(np.array(st.mom, dtype=float) - p1))) > tol or stats is not None:
        bad.append(("IndependentMomentumTransition.sample", f"independent refresh is not sample_momentum of exactly one draw ({g.draws} draws)"))
    g = SeqGen([z1, z2])
    st, stats = tr.sample(new_state(q, m0), g)
    new = None if st.mom is None else np.array(st.mom, dtype=float)
    if new is None or new.shape != p1.shape or not np.all(np.isfinite(new)):
        bad.append((f"CorrelatedMomentumTransition.sample momentum-missing c={coeff}",
                    f"coefficient {coeff}, mom {'None' if m0 is None else 'given'}: returned momentum {new!r}"))
        return bad
    if m0 is None or coeff == 1:
        if g.draws != 1 or float(np.max(np.abs(new - p1))) > tol:
            bad.append((f"CorrelatedMomentumTransition.sample full-refresh c={coeff} mom={'none' if m0 is None else 'mom'}",
                        f"coefficient {coeff}, mom {'None' if m0 is None else 'given'}: expected sample_momentum of the first draw after one draw, "
                        f"got {new.tolist()} (want {p1.tolist()}) after {g.draws} draws"))
    elif coeff == 0:
        if g.draws != 0 or not np.array_equal(new, m0):
            bad.append(("CorrelatedMomentumTransition.sample c=0",
                        f"coefficient 0: momentum changed to {new.tolist()} / {g.draws} draws consumed"))
    else:
        if g.draws != 1:
            bad.append(("CorrelatedMomentumTransition.sample partial-refresh draws",
                        f"coefficient {coeff}: partial refresh consumed {g.draws} normal draws instead of exactly one"))
        a = (1.0 - coeff * coeff) ** 0.5
        want = a * m0 + coeff * p1
        if float(np.max(np.abs(new - want))) > 1e-11 * (1 + float(np.max(np.abs(want)))):
            bad.append(("CorrelatedMomentumTransition.sample combination",
                        f"coefficient {coeff}: update is not sqrt(1-c^2)*mom + c*sample_momentum(first draw): {new.tolist()} vs {want.tolist()}"))
    # (b) ---------------------------------------------------------------------------------------------
    rn = float(np.sqrt(n))
    moms = [s * rn * L[:, i] for i in range(n) for s in (1.0, -1.0)]
    zs = [s * rn * np.eye(n)[j] for j in range(n) for s in (1.0, -1.0)]
    # the coefficient is a public attribute: a transition whose coefficient was assigned after construction
    # (e.g. tuned between stages) must preserve the law for the coefficient it holds now
    tr_re = mici.transitions.CorrelatedMomentumTransition(system, mom_resample_coeff=0.25 if coeff == 0.5 else 0.5)
    tr_re.mom_resample_coeff = coeff
    for name, t in (("CorrelatedMomentumTransition", tr), ("IndependentMomentumTransition", ind),
                    ("CorrelatedMomentumTransition[coefficient assigned after construction]", tr_re)):
        acc = np.zeros((n, n))
        mean = np.zeros(n)
        draws = set()
        for pm in moms:
            for z in zs:
                g = SeqGen([z, -z])
                st, _ = t.sample(new_state(q, pm), g)
                o = np.array(st.mom, dtype=float)
                acc += np.outer(o, o)
                mean += o
                draws.add(g.draws)
        acc /= len(moms) * len(zs)
        mean /= len(moms) * len(zs)
        err = float(np.max(np.abs(acc - cov)))
        if not err <= 1e-9 * sc or not float(np.max(np.abs(mean))) <= 1e-9 * sc:
            bad.append((f"{name}.sample second-moment invariance c={coeff}" if name[0] == "C" else f"{name}.sample second-moment invariance",
                        f"{name}.sample (coefficient {coeff}) maps independent zero-mean samples of momentum (second moment L L^T) and "
                        f"normal draw (second moment 1) to outputs with second moment differing from L L^T by {err:.3e} "
                        f"(mean {float(np.max(np.abs(mean))):.3e}): the Gaussian momentum law is not invariant"))
        if len(draws) != 1:
            bad.append((f"{name}.sample draws depend on momentum", f"number of draws consumed varies over the sample: {sorted(draws)}"))
    return bad


def cn_ctor_oracle(sp):
    """Coefficients outside [0, 1] (and NaN) must be rejected by the constructor, the end points and interior accepted."""
    import mici

    system, _ = zoo.build_system(sp)
    bad = []
    for c in (-0.125, 1.125, 2.0, -1.0, float("nan")):
        try:
            mici.transitions.CorrelatedMomentumTransition(system, mom_resample_coeff=c)
        except ValueError:
            continue
        except Exception as e:  # noqa: BLE001
            bad.append((f"CorrelatedMomentumTransition.__init__ foreign exception {type(e).__name__}", f"coefficient {c}: {type(e).__name__}: {e}"))
            continue
        bad.append(("CorrelatedMomentumTransition.__init__ range check", f"coefficient {c} outside [0, 1] accepted: (1 - c^2)^0.5 is not a real number / "
                    "the update does not preserve the momentum law"))
    for c in (0.0, 1.0, 0.5, 1, 0):
        try:
            t = mici.transitions.CorrelatedMomentumTransition(system, mom_resample_coeff=c)
            if t.mom_resample_coeff != c:
                bad.append(("CorrelatedMomentumTransition.__init__ stored coefficient", f"coefficient {c} stored as {t.mom_resample_coeff!r}"))
        except Exception as e:  # noqa: BLE001
            bad.append(("CorrelatedMomentumTransition.__init__ rejects valid coefficient", f"coefficient {c} in [0, 1] rejected: {type(e).__name__}: {e}"))
    return bad


def cn_section(ctx, rng):
    """Momentum-transition oracle on a few systems per run; widened (all coefficients x mom / None x more systems,
    random interior coefficients) when an obligation of Props/C08K is broken."""
    esc = k_escalated(ctx)
    if esc:
        ctx.count("search_escalated:momentum_transitions")
    fams = [("euclid", "identity"), ("euclid", "dense"), ("gauss", "diag"), ("constr-haus", "dense"), ("riem-dense", None)]
    fams = [(f, k) for f, k in fams if f in zoo.FAMILIES and (k is None or k in zoo.EUCLID_METRICS)]
    if not fams:
        fams = [(zoo.FAMILIES[0], zoo.EUCLID_METRICS[0])]
    reps = ctx.n(2, 12) * (3 if esc else 1)
    for fam, mk in fams:
        for r in range(reps):
            try:
                base = gen_case(rng, fam, mk)
            except Exception as e:  # noqa: BLE001
                raise common.MachineryError(f"generator failed for {fam}/{mk}: {e}") from e
            sp = base["spec"]
            n = sp["n"]
            z2 = zoo.dyvec(rng, n, -2, 2, 8)
            if list(z2) == list(base["z"]):
                z2 = [x + 1.0 for x in z2]
            coeffs = list(COEFFS) + [float(rng.integers(1, 64)) / 64 for _ in range(4)] if esc else [float(rng.choice(COEFFS)), float(rng.integers(1, 64)) / 64]
            if r == 0:
                try:
                    for sig, text in cn_ctor_oracle(sp):
                        ctx.violation(sig, f"{text}; family={fam}", {"cn_ctor": {"spec": sp}})
                except Exception as e:  # noqa: BLE001
                    ctx.violation(f"momentum transition constructor foreign exception {type(e).__name__}", f"{type(e).__name__}: {e}", {"cn_ctor": {"spec": sp}})
            for coeff in coeffs:
                for m0 in (base["mom"], None):
                    case = {"spec": sp, "q": base["q"], "mom": m0, "coeff": coeff, "z1": base["z"], "z2": z2}
                    ctx.case({"momentum_transition": fam, "metric": mk, "coeff": coeff, "mom": m0 is not None, "n": n}, nontrivial=True)
                    ctx.count(f"cn:{fam}:{'mom' if m0 is not None else 'none'}")
                    try:
                        bad = cn_oracle(sp, case["q"], m0, coeff, case["z1"], z2)
                    except Exception as e:  # noqa: BLE001
                        ctx.violation(f"momentum transition foreign exception {type(e).__name__} c={coeff} mom={'none' if m0 is None else 'mom'}",
                                      f"family={fam} metric={mk} coefficient {coeff} mom {'None' if m0 is None else 'given'}: {type(e).__name__}: {e}",
                                      {"cn_case": case})
                        continue
                    for sig, text in bad:
                        ctx.violation(sig, f"{text}; family={fam} metric={mk}", {"cn_case": case})
# --- end B10 --------------------------------------------------------------------------------------------------------


def gen_case(rng, fam, mk):
    sp = zoo.gen_spec(rng, fam, mk)
    q, p = zoo.gen_state(rng, sp)
    n = sp["n"]
    z = zoo.dyvec(rng, n, -2, 2, 8)
    mom = p
    if "A" in sp:  # a momentum in the cotangent space
        r = zoo.Ref(sp)
        J = r.jacob(np.array(q))
        N = np.linalg.inv(r.M)
        mom = (np.array(p) - J.T @ np.linalg.solve(J @ N @ J.T, J @ N @ np.array(p))).tolist()
    if not np.any(np.array(mom)):
        mom = [1.0] + list(mom)[1:]
    return {"spec": sp, "q": q, "z": z, "mom": mom, "coeff": float(rng.choice(COEFFS))}


def derived_metric_section(ctx, rng):
    """Metrics obtained as scalar multiples / inverses of matrices whose lazy factors were already computed, and
    metrics re-assigned after construction (what the metric adapters do): L L^T must equal the CURRENT metric."""
    import mici
    from mici import matrices as mm

    def base_objects(n):
        L = np.tril(np.array(zoo.dymat(rng, n, n, -1, 1, 4)))
        L[np.diag_indices(n)] = [zoo.dy(rng, 1, 2, 4) for _ in range(n)]
        A = L @ L.T
        d = np.array([float(rng.choice([0.5, 1.0, 2.0, 4.0])) for _ in range(n)])
        return [
            ("dense", mm.DensePositiveDefiniteMatrix(A.copy()), A),
            ("dense.inv", mm.DensePositiveDefiniteMatrix(A.copy()).inv, np.linalg.inv(A)),
            ("trifac", mm.TriangularFactoredPositiveDefiniteMatrix(L.copy(), factor_is_lower=True), A),
            ("diag", mm.PositiveDiagonalMatrix(d.copy()), np.diag(d)),
            ("diag.inv", mm.PositiveDiagonalMatrix(d.copy()).inv, np.diag(1 / d)),
            ("block", mm.PositiveDefiniteBlockDiagonalMatrix([mm.DensePositiveDefiniteMatrix(A.copy()), mm.PositiveDiagonalMatrix(d.copy())]),
             np.block([[A, np.zeros((n, n))], [np.zeros((n, n)), np.diag(d)]])),
        ]

    touches = ["sqrt", "inv", "log_abs_det", "eigval", "array", "T"]
    for _ in range(ctx.n(40, 600)):
        n = int(rng.integers(2, 4))
        name, M, A = base_objects(n)[int(rng.integers(6))]
        order = [touches[i] for i in rng.permutation(len(touches))[: int(rng.integers(0, 4))]]
        s = float(rng.choice([0.25, 0.5, 2.0, 5.0]))
        form = str(rng.choice(["s*M", "M/s", "(s*M).inv", "M.inv*s"]))
        case = {"derived_metric": name, "touch_first": order, "form": form, "s": s, "A": A.tolist()}
        try:
            for t in order:
                getattr(M, t)
            if form == "s*M":
                metric, want = s * M, s * A
            elif form == "M/s":
                metric, want = M / s, A / s
            elif form == "(s*M).inv":
                metric, want = (s * M).inv, np.linalg.inv(s * A)
            else:
                metric, want = M.inv * s, np.linalg.inv(A) * s
            dim = want.shape[0]
            system = mici.systems.EuclideanMetricSystem(lambda q: 0.5 * float(q @ q), metric=metric, grad_neg_log_dens=lambda q: 1.0 * q)
            Lm = recover_L(system, [0.0] * dim, dim)
        except Exception as e:  # noqa: BLE001
            ctx.violation(f"derived metric {name} {form} foreign exception", f"{type(e).__name__}: {e} ({case})", {"derived_case": case})
            continue
        ctx.case(case, nontrivial=bool(order))
        ctx.count(f"derived:{name}:{form}")
        err = float(np.max(np.abs(Lm @ Lm.T - want)))
        if not err <= 1e-9 * (1 + float(np.max(np.abs(want)))):
            ctx.violation(f"sample_momentum covariance derived metric {name} {form}",
                          f"metric = {form} of a {name} matrix after touching {order}: L L^T differs from the metric by {err:.3e}",
                          {"derived_case": case})
    # re-assigned metric -------------------------------------------------------------------------
    for _ in range(ctx.n(20, 300)):
        n = int(rng.integers(2, 4))
        objs = base_objects(n)[:5]
        (n1, M1, A1), (n2, M2, A2) = objs[int(rng.integers(5))], objs[int(rng.integers(5))]
        fam = str(rng.choice(["EuclideanMetricSystem", "GaussianEuclideanMetricSystem"]))
        case = {"reassigned_metric": [n1, n2], "system": fam, "A2": A2.tolist()}
        try:
            system = getattr(mici.systems, fam)(lambda q: 0.5 * float(q @ q), metric=M1, grad_neg_log_dens=lambda q: 1.0 * q)
            recover_L(system, [0.0] * n, n)
            system.metric = M2
            Lm = recover_L(system, [0.0] * n, n)
        except Exception as e:  # noqa: BLE001
            ctx.violation("reassigned metric foreign exception", f"{type(e).__name__}: {e} ({case})", {"reassign_case": case})
            continue
        ctx.case(case)
        ctx.count("reassigned_metric")
        err = float(np.max(np.abs(Lm @ Lm.T - A2)))
        if not err <= 1e-9 * (1 + float(np.max(np.abs(A2)))):
            ctx.violation("sample_momentum covariance after metric reassignment",
                          f"{fam}: after `system.metric = <{n2}>` sample_momentum still has L L^T != current metric (err {err:.3e})",
                          {"reassign_case": case})
    # through the real metric adapters
    for adapter_cls in (mici.adapters.OnlineVarianceMetricAdapter, mici.adapters.OnlineCovarianceMetricAdapter):
        n = 3
        system = mici.systems.EuclideanMetricSystem(lambda q: 0.5 * float(q @ q), grad_neg_log_dens=lambda q: 1.0 * q)

        class T:
            pass

        T.system = system
        ad = adapter_cls()
        st = new_state([0.5, -0.25, 1.0], [0.1, 0.2, 0.3])
        astate = ad.initialize(st, T)
        for k in range(6):
            ad.update(astate, new_state([float(k), float(k * k % 5), float(-k) / 2]), {}, T)
        ad.finalize(astate, st, T, ScriptGen(np.array([1.0, 0.0, 0.0])))
        Lm = recover_L(system, [0.0] * n, n)
        want = np.asarray(system.metric.array, dtype=float)
        ctx.case({"adapter_metric": adapter_cls.__name__})
        if not float(np.max(np.abs(Lm @ Lm.T - want))) <= 1e-9 * (1 + float(np.max(np.abs(want)))):
            ctx.violation("sample_momentum covariance after metric adaptation",
                          f"after {adapter_cls.__name__}.finalize sample_momentum has L L^T != system.metric", {"adapter": adapter_cls.__name__})


def run(ctx: common.Ctx):
    rng = common.rng_for(ctx)
    replay_corpus(ctx)
    derived_metric_section(ctx, common.rng_for(ctx, 7))
    cn_section(ctx, common.rng_for(ctx, 11))  # B10
    ctx.rule = (
        "all 10 system families of the C05 zoo; constant-metric families x 11 metric matrix types (identity, diagonal, "
        "dense, scaled identity, triangular-factored, eigendecomposed, block diagonal, low-rank update and downdate, "
        "inverse-diagonal and inverse-dense as set by the metric adapters); position-dependent and SoftAbs metrics; "
        "resample coefficients 0, 1 and interior values; non-trivial = every case"
    )
    ctx.assumptions += [
        "low-rank update metrics are generated with factors of full column rank (PositiveDefiniteLowRankUpdateMatrix.sqrt "
        "raises LinAlgError for rank-deficient factors: known finding, C10)",
        "a zero-mean Gaussian is determined by its covariance; linear images of Gaussians are Gaussian (trusted fact)",
        "the implementation's sqrt factor and Crank-Nicolson coefficient enter the model as data",
    ]
    cases = []
    per = ctx.n(6, 150)
    # a broken source-level obligation (src_*_sample_momentum / project_onto_cotangent_space_eq_model over the
    # regenerated method table) escalates the search for the families that inherit a changed method body
    _, _, esc_fams = zoo.src_escalation(ctx)
    for fam in zoo.FAMILIES:
        kinds = zoo.EUCLID_METRICS if fam in ("euclid", "gauss", "constr-haus", "constr-gram", "gconstr") else [None]
        for mk in kinds:
            for _ in range((per if mk is not None else 4 * per) * (4 if fam in esc_fams and ctx.quick else 1)):
                cases.append(gen_case(rng, fam, mk))
    reqs, meta = [], []
    for case in cases:
        sp = case["spec"]
        try:
            bad, obs = oracle_case(sp, case["q"], case["z"], case["mom"], case["coeff"])
        except Exception as e:  # noqa: BLE001
            ctx.violation(f"{sp['family']} momentum foreign exception {type(e).__name__}",
                          f"{sp['family']} metric={sp.get('metric', {}).get('kind')}: {type(e).__name__}: {e}", {"case": case})
            continue
        ctx.case({"family": sp["family"], "metric": sp.get("metric", {}).get("kind"), "coeff": case["coeff"], "n": sp["n"], "q": case["q"], "z": case["z"]}, nontrivial=True)
        ctx.count(sp["family"] + (":" + sp["metric"]["kind"] if "metric" in sp else ""))
        ctx.count(f"coeff={case['coeff']}")
        for sig, text in bad:
            ctx.violation(sig, f"{text}; family={sp['family']} metric={sp.get('metric', {}).get('kind')}", {"case": case})
        n = sp["n"]
        J, M = obs["J"], obs["M"]
        c = J.shape[0]
        # unprojected factor of the implementation (= L for unconstrained systems)
        if c:
            Lu = np.asarray(obs["system"].metric.sqrt @ np.eye(n), dtype=float)
        else:
            Lu = obs["L"]
        head = f"{n} {c} {mstr(J)} {mstr(M)}"
        reqs.append(f"pcov {head}")
        meta.append(("pcov", case, obs))
        reqs.append(f"sample {head} {mstr(Lu)} {common.vstr(case['z'])}")
        meta.append(("sample", case, obs))
        coeff = case["coeff"]
        a = obs["a"] if obs["a"] is not None else (0.0 if coeff == 1 else 1.0)
        for label, m0 in (("mom", case["mom"]), ("none", None)):
            reqs.append(f"cm {head} {mstr(Lu)} {common.fstr(coeff)} {common.fstr(a)} "
                        f"{'none' if m0 is None else common.vstr(m0)} {common.vstr(case['z'])}")
            meta.append((f"cm_{label}", case, obs))
    for (kind, case, obs), mline in zip(meta, common.run_driver("C08", reqs, timeout=1500), strict=True):
        sp = case["spec"]
        n = sp["n"]
        tag = f"{sp['family']} metric={sp.get('metric', {}).get('kind')}"
        if mline == "bad-op":
            raise common.MachineryError(f"driver rejected {kind} request for {tag}")
        if mline == "fault":
            ctx.disagreement(f"{tag}: model reports singular metric / Gram matrix", {"case": case})
            continue
        if kind == "pcov":
            want = fmat(mline.split(" ")[1], n)
            L = obs["L"]
            if float(np.max(np.abs(L @ L.T - want))) > 1e-9 * (1 + float(np.max(np.abs(want)))):
                ctx.disagreement(f"{tag}: L L^T of the implementation differs from the model's projected metric", {"case": case})
        elif kind == "sample":
            want = fvec(mline.split(" ")[1])
            if float(np.max(np.abs(obs["pz"] - want))) > 1e-9 * (1 + float(np.max(np.abs(want)))):
                ctx.disagreement(f"{tag}: sample_momentum {obs['pz'].tolist()} model P(sqrt z) {want.tolist()}", {"case": case})
        else:
            new, draws = obs[kind]
            mv, md = mline.split(" ")
            want = fvec(mv)
            if draws != int(md) or float(np.max(np.abs(new - want))) > 1e-9 * (1 + float(np.max(np.abs(want)))):
                ctx.disagreement(
                    f"{tag}: CorrelatedMomentumTransition c={case['coeff']} {kind}: impl {new.tolist()} / {draws} draws, model {want.tolist()} / {md} draws",
                    {"case": case})


def replay(ctx, obj):  # noqa: ARG001
    if "cn_case" in obj:  # B10
        c = obj["cn_case"]
        try:
            return bool(cn_oracle(c["spec"], c["q"], c["mom"], c["coeff"], c["z1"], c["z2"]))
        except Exception:  # noqa: BLE001
            return True
    if "cn_ctor" in obj:  # B10
        try:
            return bool(cn_ctor_oracle(obj["cn_ctor"]["spec"]))
        except Exception:  # noqa: BLE001
            return True
    if "case" not in obj:  # derived / re-assigned metric families: re-run that section
        sub = common.Ctx(ctx.prop, ctx.tier, ctx.seed)
        derived_metric_section(sub, common.rng_for(sub, 7))
        return any(v["signature"] == obj.get("signature") for v in sub.violations)
    case = obj["case"]
    try:
        bad, _ = oracle_case(case["spec"], case["q"], case["z"], case["mom"], case["coeff"])
    except Exception:  # noqa: BLE001
        return True
    return bool(bad)


def replay_corpus(ctx):
    """Re-run the stored past failing inputs first (regression corpus)."""
    import json
    from pathlib import Path

    for f in sorted((common.VERIF / "corpus" / PROP).glob("*.json")):
        obj = json.loads(f.read_text())
        ctx.count("corpus")
        if replay(ctx, obj):
            keep = {k: v for k, v in obj.items() if k not in ("property", "kind", "signature", "what", "how_to_run")}
            ctx.violation(obj.get("signature", f.name), f"corpus case {f.name} fails: {obj.get('what', '')[:300]}", keep)


LEVEL_TEXT = (
    "Lean 4 proof over any commutative ring: linear images transform second moments by congruence for every finite "
    "weighted sample (secondMoment_map); sqrt·sqrtᵀ = M gives fresh momenta with second moment M (momentum_cov); "
    "constrained sample_momentum is the linear map P·L of the draw with (PL)(PL)ᵀ = P M Pᵀ = M − JᵀG⁻¹J, supported on the "
    "cotangent space (sampleMomentumConstrained_linear, projected_cov, constrained_momentum_cov, projected_cov_cotangent); "
    "the Crank–Nicolson update a·p + c·n with a² = 1 − c² maps independent zero-mean samples with second moment Σ to "
    "second moment Σ and keeps the cotangent space (crank_nicolson_cov/_invariant/_cotangent; crank_nicolson_cov_necessary: a^2 = 1 - c^2 is also necessary when the covariance is non-zero); branch logic of "
    "CorrelatedMomentumTransition.sample: c = 1 or mom None ⇒ full refresh with one draw, c = 0 ⇒ unchanged and no draw "
    "(correlated_coeff_one/_mom_none/_coeff_zero/_partial, branch_spec). Tied to the code by recovering the "
    "implementation's linear map L with basis-vector draws for every system class and metric type and comparing with the "
    "exact projected metric of the model. Source level (Props/C08S): the bodies of sample_momentum and "
    "project_onto_cotangent_space (and gram / inv_gram / jacob_constr_inner_product) in systems.py are re-translated on "
    "every run (tools/extractors/system_methods.py -> Generated/SystemMethods.lean); src_<Class>_sample_momentum_eq_model "
    "and src_<Class>_project_onto_cotangent_space_eq_model prove that evaluating the generated bodies - super() and "
    "self.m(state) calls resolved through the generated MRO - gives metric.sqrt @ z, metric(state).sqrt @ z, "
    "project J N G^-1 (sqrt @ z) resp. Constrained.project for every environment; src_*_sample_momentum_cotangent, "
    "src_*_project_cotangent, src_*_momentum_cov restate J M^-1 p = 0, idempotence of the projection and the (projected) "
    "second moment for the source text. Momentum transitions (Props/C08K, builder B10): the statement trees of "
    "IndependentMomentumTransition.sample, CorrelatedMomentumTransition.__init__ and .sample are re-translated on every run "
    "(tools/extractors/transition_skeleton.py -> Generated/TransitionSkeleton.lean); skel_momentum_eq_model + 6 named "
    "projections (branch conditions, one draw per branch, the Crank-Nicolson block, return value, range check); the "
    "reading Skel.MSem (Model/MomentumSem.lean: conditions, scalar and vector expressions translated compositionally into a "
    "typed language and executed in source order on (state.mom, mom_ind, draw counter)) of the generated bodies is "
    "Momentum.independentSample / correlatedSample with a = sqrt(1 - c*c) for every commutative ring, index type, "
    "coefficient, momentum or None, generator (msem_independent_is_model, msem_correlated_is_model); the constructor "
    "accepts exactly 0 <= c <= 1 (msem_init_accepts_iff, msem_accepted_coeff_root_exists); branch_spec, crank_nicolson_cov, "
    "crank_nicolson_invariant (every branch, every coefficient: msem_correlated_invariant; with sqrt @ sqrt.T = M: "
    "msem_momentum_law_invariant), crank_nicolson_cotangent transported to the reading."
)
LEVEL_NOTE = (
    "Trusted: Lean kernel, axioms {propext, Classical.choice, Quot.sound}; the mathematical fact that a zero-mean "
    "Gaussian is determined by its covariance and that linear images of Gaussians are Gaussian (invariance is proved at "
    "the level of second moments of arbitrary finite weighted samples, not of densities); the harness. The square-root "
    "factor of each metric class and the float value of (1-c²)^½ are checked data: their defining equations are "
    "validated numerically (1e-9 / 1e-13) on every run, the per-class sqrt algebra is C10's subject. In the reading of the "
    "momentum transitions: system.sample_momentum(state, rng) is a function of the next normal draw, x ** 0.5 a function "
    "sqrt with sqrt(x)^2 = x assumed at the one argument 1 - c^2, float literals 1.0 / 0.0 are 1 / 0, in-place *= / += "
    "have value semantics (aliasing of state.mom with caller arrays is not modelled)."
)
TECHNIQUE = (
    "Lean 4 theorems (matrix identities, finite-sample second moments) + scripted-generator recovery of the "
    "implementation's linear map compared with the exact model + direct covariance / coefficient oracles + "
    "source-to-term translation of the momentum / projection method bodies with machine-checked equality to the model + "
    "statement-tree translation of the momentum transitions with a compositional semantic reading proved equal to the model + "
    "finite-sample second-moment invariance oracle on the real transitions ((2n)^2 product sample, distinct scripted draws)"
)
