"""C03 — integrator steps are symplectic maps (volume preserving).

Model: lean/MiciVerif/Model/IntegratorsTangent.lean / Integrators.lean, theorems lean/MiciVerif/Props/C03.lean.
Direct oracles (this file, on the real code): five-point finite-difference Jacobian J of the real map
z = (pos, mom) |-> z after n integrator steps; unconstrained: max |J^T Omega J - Omega| and |det J - 1|;
constrained: the canonical two-form restricted to a basis B of the tangent space of the cotangent
bundle T*M at z (null space of [[Jc, 0], [d(Jc M^-1 p)/dq, Jc M^-1]] from the analytic constraint
Hessian) is compared with its pull-back (DF B)^T Omega (DF B), and DF B must be tangent to T*M at F(z);
perturbed points are retracted onto T*M independently of the implementation before stepping.
"""
from __future__ import annotations

import numpy as np

from . import common
from . import integ_common as ic

PROP = "C03"
LEAN_MODULES = ["MiciVerif.Props.C03", "MiciVerif.Props.C06S", "MiciVerif.Props.C03S"]
GENERATED = ["integ_steps"]   # tools/extractors/integ_steps.py -> Generated/IntegSteps.lean (step structure of every class)
LEAN_EXTRA = ["MiciVerif.Model.Integrators", "MiciVerif.Lemmas.IntegratorsExec", "MiciVerif.Proto", "MiciVerif.Model.IntegratorsTangent"]


# ---------------------------------------------------------------------------------------
# FILLED IN BY LEAN-SIDE AUTHOR
def correspondence(ctx):
    """Propagated Jacobian of the Lean model (Driver/C03.lean, exact rationals, exact symplecticity
    decided over Q) vs a five-point finite-difference Jacobian of the real `Integrator.step`."""
    from . import integ_corr

    integ_corr.jacobian_cases(ctx, common.rng_for(ctx, 1), ctx.n(40, 300))


# ---------------------------------------------------------------------------------------
# direct oracles

TOL_FORM = 1e-6
TOL_DET = 1e-6
TOL_TANGENT = 1e-6
FD_LADDER = [2.0**-9, 2.0**-12, 2.0**-14]
CASE_TIMEOUT = 120.0


def _cls(case):
    return ic.integrator_class_name(case["integrator"])


def _measure(case, sysw, F, z0, B, h):
    """Finite-difference tangent map at step h and the oracle residuals."""
    d, n = sysw.dim, int(case["n"])
    cls, desc = _cls(case), ic.describe(case)
    z1 = F(z0)
    JB = ic.fd_jacobian(F, z0, h, order=4, basis=B)
    if not (np.all(np.isfinite(JB)) and np.all(np.isfinite(z1))):
        return None, {}
    Om = ic.omega(d)
    W0 = B.T @ Om @ B
    W1 = JB.T @ Om @ JB
    size = max(1.0, float(np.max(np.abs(JB))) ** 2)
    err = float(np.max(np.abs(W1 - W0)))
    m = {"err": err, "size": size, "h": h}
    fails = []
    where = "restricted to T(T*M)" if sysw.constrained else ""
    if not err <= TOL_FORM * size:
        fails.append((f"{cls} not symplectic", f"max |J^T Ω J - Ω| {where} = {err:.3e} > {TOL_FORM * size:.1e} for the finite-difference Jacobian (h={h}) of {n} step(s) [{desc}]"))
    if not sysw.constrained:
        det = float(np.linalg.det(JB))
        m["det"] = det
        if not abs(det - 1.0) <= TOL_DET * size ** d:
            fails.append((f"{cls} not volume preserving", f"det J = {det!r} for the finite-difference Jacobian (h={h}) of {n} step(s) [{desc}]"))
    else:
        # the image of T_z(T*M) must be T_{F(z)}(T*M)
        B1 = sysw.tangent_basis(z1)
        resid = JB - B1 @ (B1.T @ JB)
        terr = float(np.max(np.abs(resid)))
        m["tangent_err"] = terr
        if not terr <= TOL_TANGENT * max(1.0, float(np.max(np.abs(JB)))) * 10:
            fails.append((f"{cls} leaves cotangent bundle", f"derivative of the step maps tangent vectors of T*M out of T(T*M) by {terr:.3e} (h={h}) [{desc}]"))
    return fails, m


def check_case(case, info=None):
    import mici

    info = info if info is not None else {}
    cls = _cls(case)
    sysw = ic.build_system(case["system"])
    integ = ic.build_integrator(sysw, case["integrator"])
    st0 = ic.build_state(case["state"])
    n = int(case["n"])
    z0 = ic.zvec(st0)
    F0 = ic.step_map(sysw, integ, n, int(st0.dir))
    if sysw.constrained:
        # perturbed points z +- h v (v tangent to T*M) are O(h^2) off the bundle: move them back onto it with an
        # independent retraction R (R = id on T*M, so D(F∘R) v = DF v for tangent v); otherwise the
        # implementation's reversibility check rightly rejects the off-manifold inputs
        def F(z):
            return F0(sysw.retract_to_bundle(z))
    else:
        F = F0
    B = sysw.tangent_basis(z0)
    # A genuine defect of symplecticity does not depend on the finite-difference step; truncation error (~h^4,
    # large for strongly expanding multi-step maps) and rounding error (~1e-16/h) do.  A case is reported only
    # if it fails for every step size of the ladder.
    hs = [ic.fl(case["h"])] if "h" in case else FD_LADDER
    fails = []
    for k, h in enumerate(hs):
        try:
            with np.errstate(all="ignore"):
                fails, m = _measure(case, sysw, F, z0, B, h)
        except mici.errors.IntegratorError as e:
            info["status"] = "error:" + type(e).__name__
            return []
        except ic.Timeout:
            raise
        except Exception as e:  # noqa: BLE001
            info["status"] = "exception"
            return [(f"{cls}.step raises {type(e).__name__}", f"step raised {type(e).__name__}: {e} [{ic.describe(case)}]")]
        if fails is None:
            info["status"] = "nonfinite"
            return []
        info["status"] = "ok"
        if k == 0 or m["err"] / m["size"] < info["err"] / info["size"]:
            info.update(m)
        info["fd_refinements"] = k
        if not fails:
            break
    return fails


def _make_case(rng, ikind, skind, n):
    sspec = ic.random_system_spec(rng, skind)
    if skind in ic.RIEMANNIAN and sspec["dim"] > 2 and rng.random() < 0.5:
        sspec = ic.random_system_spec(rng, skind, dim=2)
    sysw = ic.build_system(sspec)
    # symplecticity is exact at every step size: also use large (still convergent) steps and momenta, where
    # the Lagrange multipliers / implicit corrections are large and a mis-scaled one is visible
    eps = ic.dyadic_step(sysw, float(rng.choice([0.25, 0.5, 1.0, 2.0] if ikind == "constrained_leapfrog" else [0.25, 0.5, 1.0])))
    ispec = ic.random_integrator_spec(rng, ikind, eps, tight=True)
    stspec = ic.random_state_spec(rng, sysw, mom_scale=float(rng.choice([1.0, 2.0])))
    return {"check": "symplectic", "system": sspec, "integrator": ispec, "state": stspec, "n": int(n)}


def direct_oracles(ctx):
    rng = common.rng_for(ctx, 3)
    ic.selfcheck(common.rng_for(ctx, 99), 3)
    from . import c06

    # a broken C06S / C03S obligation (generated step table != structure of the hand model): aim the search at the
    # classes whose table changed
    escalate, esc_kinds, esc_names = c06.broken_structure_tie(ctx)
    if escalate:
        ctx.count("search_escalated:" + ",".join(esc_kinds))
        ctx.extra["structure_tie_broken"] = {"kinds": esc_kinds, "generated_definitions_differing": esc_names}
    plan = []
    for ikind in ic.INTEGRATOR_KINDS:
        for skind in ic.compatible_system_kinds(ikind):
            if ikind in ic.EXPLICIT_KINDS:
                reps = ctx.n(8, 80)
            elif ikind in ic.IMPLICIT_KINDS:
                reps = ctx.n(5, 50) if skind in ic.RIEMANNIAN else ctx.n(2, 20)
            else:
                reps = ctx.n(40, 400)
            if escalate and ikind in esc_kinds:
                reps *= 3
            for r in range(reps):
                plan.append((ikind, skind, 1 if r % 4 else 3))
    for ikind, skind, n in plan:
        try:
            case = _make_case(rng, ikind, skind, n)
        except common.MachineryError:
            raise
        except Exception as e:  # noqa: BLE001
            ctx.violation(f"{ikind} construction raises", f"building {ikind} on {skind} raised {type(e).__name__}: {e}", {"check": "build"})
            continue
        info: dict = {}
        try:
            fails = ic.with_timeout(lambda c=case, i=info: check_case(c, i), CASE_TIMEOUT)
        except ic.Timeout:
            info["status"] = "timeout"
            fails = [(f"{_cls(case)}.step does not return", f"Jacobian evaluation did not finish in {CASE_TIMEOUT} s [{ic.describe(case)}]")]
        st = info.get("status", "?")
        nonlinear = case["system"]["target"]["kind"] != "quadratic" or skind in ic.RIEMANNIAN or (
            skind in ic.CONSTRAINED and case["system"]["constr"]["kind"] != "linear")
        ctx.case({"i": ikind, "s": skind, "n": n, "id": common.stable_hash(case)}, nontrivial=st == "ok" and nonlinear)
        ctx.count(f"{ikind}:{skind}:{st}")
        if st == "ok":
            e = info["err"] / info["size"]
            ctx.count("form_error<" + ("1e-10" if e < 1e-10 else "1e-8" if e < 1e-8 else "1e-7" if e < 1e-7 else "1e-6" if e < 1e-6 else "big"))
            if skind in ic.CONSTRAINED:
                ctx.count(f"constraint:{case['system']['constr']['kind']}")
            if info.get("fd_refinements"):
                ctx.count(f"fd_step_refined_x{info['fd_refinements']}")
        for sig, what in fails:
            if escalate and ikind in esc_kinds:
                what += c06.tie_note(ctx, esc_kinds, esc_names) + c06.tie_note(ctx, esc_kinds, esc_names, "C03S")
            ctx.violation(sig, what, case)
    for k, v in ic.STATS.items():
        ctx.count("lib:" + k, v)


def run(ctx: common.Ctx):
    ctx.rule = (
        "every integrator class x compatible system class (as C02: Euclidean, Gaussian-split, 5 Riemannian metrics, "
        "dense constrained with both density conventions, Gaussian constrained; 10 metric types, 6 constraint "
        "families incl. quartic and cubic-graph manifolds, 4 polynomial targets, dims 1-5) x dyadic state x dir x "
        "n in {1,3} steps, step 2^k <= c/frequency scale with c in {0.25,0.5,1,2}; non-trivial = non-quadratic target, position dependent "
        "metric or curved constraint"
    )
    ctx.assumptions += [
        "Jacobians by five-point central differences of the real step map, h = 2^-9, re-measured with 2^-12 and 2^-14 before a failure is reported (a real defect is independent of h); tolerance 1e-6 x max(1,|J|^2)",
        "iterative solvers run with tightened tolerances (1e-13 / 1e-12) so that solver noise stays below the tolerance",
        "constrained: tangent space of T*M from the analytic constraint Jacobian / Hessian of the polynomial constraints",
    ]
    from . import integ_corr
    import sys

    integ_corr.replay_corpus(ctx, sys.modules[__name__])
    correspondence(ctx)
    direct_oracles(ctx)


def replay(ctx, obj):  # noqa: ARG001
    if obj.get("check") == "build":
        return True
    case = {k: obj[k] for k in ("check", "system", "integrator", "state", "n", "h") if k in obj}
    try:
        return bool(ic.with_timeout(lambda: check_case(case), CASE_TIMEOUT))
    except ic.Timeout:
        return True


LEVEL_TEXT = (
    "Lean 4 proof with Mathlib's Matrix.symplecticGroup: the Jacobians of h1_flow (kick, symmetric Hessian), Euclidean "
    'h2_flow (drift, symmetric metric inverse) and Gaussian-split h2_flow (orthogonal Q, cos^2+sin^2=1, non-zero omega) are '
    'symplectic (kickJac_mem, driftJac_mem, harmonicJac_mem); any product of them is, with determinant 1 '
    '(elementary_prod_mem, elementary_prod_det); the tangent lift of ANY composition step (any coefficients, any free list, '
    'both initial flows, leapfrog, any number of steps in either direction) projects onto the base step and carries a '
    'symplectic matrix (symComp_jac_mem, mkSymComp_jac_mem, leapfrog_jac_mem, steps_jac_mem, steps_jac_det); for linear '
    'systems the lifted matrix is exactly the derivative of the step (symComp_lift_exact). Implicit midpoint on quadratic '
    'Hamiltonians is the Cayley transform and symplectic (cayley_mem, implicitMidpoint_mem, implicitMidpoint_linear); the '
    'generalised leapfrog on quadratic h2 is symplectic (sympEuler_mem, sympEulerAdj_mem, genLeapfrog_mem); constrained '
    'leapfrog with LINEAR constraints preserves the symplectic form restricted to the tangent bundle of the cotangent '
    "bundle for any number of inner steps (conLeapfrog_presymp_linear). Tie: the model's propagated Jacobian over Q (whose "
    'exact symplecticity D J D^T = J is additionally decided over Q for every Euclidean case) vs a five-point finite- '
    'difference Jacobian of the real Integrator.step on cubic/quartic targets, 4 metric types, Euclidean and Gaussian-split '
    'systems. SOURCE TIE (re-decided on every run against Generated/IntegSteps.lean, which tools/extractors/integ_steps.py '
    'regenerates from integrators.py): the translated SymmetricCompositionIntegrator constructor + _step carries a symplectic '
    'matrix for every free list (C06S.symComp_generated_symplectic, with the C06S *_steps_eq_model / *_run_eq_model ties); for '
    'the GENERATED step tables of ImplicitLeapfrogIntegrator / ImplicitMidpointIntegrator / ConstrainedLeapfrogIntegrator the '
    'product, in the generated call order and with the generated time fractions, of the Jacobian factors that the generated helper '
    'descriptors denote equals genLeapfrogJac / midpointJac / conLeapfrogJac (C03S.implicitLeapfrog_jac_eq_model, '
    'implicitMidpoint_jac_eq_model, constrainedLeapfrog_jac_eq_model) and is symplectic resp. presymplectic on the tangent bundle '
    '(C03S.implicitLeapfrog_generated_symplectic, implicitMidpoint_generated_symplectic, '
    'constrainedLeapfrog_generated_presymp_linear), and RUNNING the generated implicit-leapfrog / implicit-midpoint tables on a '
    'quadratic Hamiltonian with any exact fixed-point solver is multiplication by that product '
    '(C03S.implicitLeapfrog_run_linear, implicitMidpoint_run_linear); when such an obligation is broken the oracle search is tripled for the '
    'classes whose table changed. Direct oracle: finite-difference symplecticity residual and det J of the real step for all integrators incl. '
    'implicit ones on Riemannian systems and constrained leapfrog on curved manifolds (form restricted to T(T*M)).'
)
LEVEL_NOTE = (
    'Trusted: Lean kernel + Mathlib (symplectic group, det_eq_one), axioms {propext, Classical.choice, Quot.sound}; chain '
    'rule identifying the product of per-flow Jacobians with the Jacobian of the composed step for non-polynomial/non-linear '
    'targets (for linear systems proved: symComp_lift_exact; for polynomial targets tied numerically by the correspondence). '
    'PARTIAL: curved constraint manifolds and non-quadratic implicit steps are covered by the finite-difference oracle only '
    '(tolerance 1e-6), not by a theorem. Symmetry of Hessians / metric is a hypothesis. Source tie: the translator plug-in '
    'integ_steps.py and the Jacobian reading of its tables (definitions glJacRun / imJacRun / conJacRun in Props/C03S.lean; '
    'unrecognised descriptors denote the zero matrix, fail closed) are trusted; for the constrained integrator the reading is '
    'not tied to conRun by a theorem.'
)
TECHNIQUE = "Lean 4 theorems over Mathlib's symplectic group + exact propagated Jacobian vs finite-difference Jacobian of the real step + finite-difference symplecticity oracle"
