"""C20 — log-space arithmetic matches real arithmetic without overflow or precision loss.

Model: lean/MiciVerif/Model/LogRep.lean (mici/utils.py lines 46-200, polymorphic in the
primitives); theorems over the reals: lean/MiciVerif/Props/C20.lean.

Tie (X): the *same* model definitions are executed on IEEE doubles by Driver/C20.lean (Python
`math` semantics incl. raised exceptions; log1p/expm1 emulated with Kahan's formulas because
Lean's Float lacks them) with a trace of the primitive calls; the real functions are run with
recording wrappers around `mici.utils.exp/log/log1p/expm1`.  Compared: exception raised or
not, the sequence of primitive calls (= branch taken) and their arguments, the value (few ulp).

Direct oracles on the real code: value against an 80-digit `decimal` oracle (<= 4 ulp),
range of every primitive call (the Lean range lemma, observed on the implementation), zero
weights / equal differences without NaN, no exception for finite log-values, LogRepFloat
operators, comparisons and in-place accumulation against exact real arithmetic.
"""
from __future__ import annotations

import json
import math
import struct
from decimal import MAX_EMAX, MIN_EMIN, Context, Decimal

from . import common

PROP = "C20"
LEAN_MODULES = ["MiciVerif.Props.C20", "MiciVerif.Props.C20S", "MiciVerif.Props.C20R",
                "MiciVerif.Props.C20RS"]  # C20R + C20RS (rounding theorems, B6)
LEAN_EXTRA = ["MiciVerif.Model.LogRep", "MiciVerif.Lemmas.LogRepReal", "MiciVerif.Proto"]
# Generated/UtilsSrc.lean: utils.py translated to Lean on every run; Props/C20S.lean proves
# generated = model (src_*_eq_model) and transports the C20 theorems to the generated definitions
GENERATED = ["pysrc"]


def src_obligation_status(ctx, module: str) -> list[str]:
    """Names of the broken `src_*` obligations of a Props module.  When the module no longer builds
    `./check` marks all its theorems unchecked; the Lean errors in the build log tell which theorems
    really fail (an error inside the generated file itself leaves all of them broken).  Recorded in
    the evidence (`src_obligations_broken`) and used to escalate the failing-input search."""
    import re

    broken = [o["theorem"] for o in ctx.obligations if not o["ok"] and ".src_" in o["theorem"]
              and o["theorem"].startswith(module.replace("MiciVerif.Props.", "MiciVerif.") + ".")]
    if not broken:
        return []
    rel = module.replace(".", "/") + ".lean"
    lines = (common.LEAN / rel).read_text().splitlines()
    precise = []
    for m in re.finditer(re.escape(rel) + r":(\d+):\d+: error|error: " + re.escape(rel) + r":(\d+):", ctx.build_log or ""):
        ln = int(m.group(1) or m.group(2))
        for i in range(min(ln, len(lines)) - 1, -1, -1):
            mm = re.match(r"^theorem\s+(\S+)", lines[i])
            if mm:
                if mm.group(1) not in precise:
                    precise.append(mm.group(1))
                break
            if re.match(r"^example\b", lines[i]):
                break
    gen_error = "MiciVerif/Generated/" in (ctx.build_log or "") and "error" in (ctx.build_log or "") and not precise
    out = precise if precise and not gen_error else [b.rsplit(".", 1)[1] for b in broken]
    ctx.extra["src_obligations_broken"] = out
    ctx.extra["src_escalation"] = "failing-input search run with tripled budgets (at most the thorough ones) because a src_* obligation is broken"
    ctx.count("search_escalated_by_src_obligation")
    return out


def _n(ctx, quick: int, thorough: int) -> int:
    """Case budget; tripled in the quick tier (at most the thorough one) as soon as a `src_*`
    obligation is broken (escalation that keeps a quick run within a few minutes)."""
    if ctx.extra.get("src_obligations_broken") and ctx.quick:
        return min(thorough, 3 * quick)
    return ctx.n(quick, thorough)

INF = float("inf")
NAN = float("nan")
LOG2 = math.log(2.0)
CTX = Context(prec=80, Emax=MAX_EMAX, Emin=MIN_EMIN, traps=[])
ULP_BUDGET = 4  # direct oracle
ULP_MODEL = 16  # model (Kahan-emulated log1p/expm1) vs implementation


def bits(x: float) -> int:
    return struct.unpack("<Q", struct.pack("<d", float(x)))[0]


def unbits(n: int) -> float:
    return struct.unpack("<d", struct.pack("<Q", int(n)))[0]


def fx(x) -> str:
    return float(x).hex()


def unfx(s) -> float:
    return float.fromhex(s) if isinstance(s, str) else float(s)


def same_special(a: float, b: float) -> bool:
    if math.isnan(a) or math.isnan(b):
        return math.isnan(a) and math.isnan(b)
    return a == b


def ulp_diff(a: float, b: float, floor: float = 0.0) -> float:
    """|a-b| in ulps of max(|a|,|b|,floor); 0 for equal specials, inf for mismatching specials."""
    if math.isnan(a) or math.isnan(b) or math.isinf(a) or math.isinf(b):
        return 0.0 if same_special(a, b) else INF
    u = math.ulp(max(abs(a), abs(b), floor))
    return abs(a - b) / u


# ---------------------------------------------------------------------------------------
# 80-digit oracle


def D(x: float) -> Decimal:
    return Decimal(float(x))  # exact


def d_ln1p(t: Decimal) -> Decimal:
    if abs(t) < Decimal("1e-25"):
        t2 = CTX.multiply(t, t)
        s = CTX.subtract(t, CTX.divide(t2, Decimal(2)))
        s = CTX.add(s, CTX.divide(CTX.multiply(t2, t), Decimal(3)))
        return CTX.subtract(s, CTX.divide(CTX.multiply(t2, t2), Decimal(4)))
    return CTX.ln(CTX.add(Decimal(1), t))


def d_l1p(v: Decimal) -> Decimal:
    """log(1 + e^v)"""
    if v > 0:
        return CTX.add(v, d_ln1p(CTX.exp(CTX.minus(v))))
    return d_ln1p(CTX.exp(v))


def d_l1m(v: Decimal) -> Decimal:
    """log(1 - e^v), v < 0"""
    if v > Decimal("-1e-25"):
        # 1 - e^v = -v (1 + v/2 + v^2/6 + v^3/24 + ...)
        s = Decimal(1)
        s = CTX.add(s, CTX.divide(v, Decimal(2)))
        s = CTX.add(s, CTX.divide(CTX.multiply(v, v), Decimal(6)))
        s = CTX.add(s, CTX.divide(CTX.multiply(CTX.multiply(v, v), v), Decimal(24)))
        return CTX.ln(CTX.multiply(CTX.minus(v), s))
    e = CTX.exp(v)
    if e < Decimal("0.5"):
        return d_ln1p(CTX.minus(e))
    return CTX.ln(CTX.subtract(Decimal(1), e))


def exact_helper(name: str, a: float, b: float | None = None):
    """Exact value as Decimal, or a float special (inf/-inf/nan)."""
    if name == "l1p":
        if math.isnan(a):
            return NAN
        if a == INF:
            return INF
        if a == -INF:
            return Decimal(0)
        return d_l1p(D(a))
    if name == "l1m":
        if math.isnan(a) or a >= 0:
            return NAN
        if a == -INF:
            return Decimal(0)
        return d_l1m(D(a))
    if math.isnan(a) or math.isnan(b):
        return NAN
    if name == "lse":
        if a == -INF and b == -INF:
            return -INF
        if a == INF or b == INF:
            return INF
        if a == -INF:
            return D(b)
        if b == -INF:
            return D(a)
        m, o = (a, b) if a >= b else (b, a)
        return CTX.add(D(m), d_ln1p(CTX.exp(CTX.subtract(D(o), D(m)))))
    if name == "lde":
        if a < b:
            return NAN
        if a == b:
            return -INF  # documented: difference of equal values is the zero weight
        if a == INF:
            return INF
        if b == -INF:
            return D(a)
        return CTX.add(D(a), d_l1m(CTX.subtract(D(b), D(a))))
    raise ValueError(name)


def ulps_vs_exact(got: float, exact, floor: float = 0.0, allowance: Decimal = Decimal(0)) -> float:
    if not isinstance(exact, Decimal):
        return 0.0 if same_special(got, exact) else INF
    if math.isnan(got) or math.isinf(got):
        return INF
    try:
        ef = float(exact)
    except OverflowError:
        ef = INF
    if math.isinf(ef):
        return INF
    unit = math.ulp(max(abs(ef), floor))
    err = max(Decimal(0), CTX.subtract(abs(CTX.subtract(D(got), exact)), allowance))
    return float(CTX.divide(err, D(unit)))


# ---------------------------------------------------------------------------------------
# the real functions with recorded primitive calls


class Recorder:
    """Wraps exp/log/log1p/expm1 in mici.utils' namespace; restores them on exit."""

    NAMES = ("exp", "log", "log1p", "expm1")

    def __enter__(self):
        import mici.utils as u

        self.u = u
        self.saved = {n: getattr(u, n) for n in self.NAMES}
        self.calls = []
        for n in self.NAMES:
            setattr(u, n, self._wrap(n, self.saved[n]))
        return self

    def _wrap(self, name, fn):
        def w(x):
            self.calls.append((name, float(x)))
            return fn(x)

        return w

    def __exit__(self, *exc):
        for n, f in self.saved.items():
            setattr(self.u, n, f)
        return False


HELPERS = {"l1p": "log1p_exp", "l1m": "log1m_exp", "lse": "log_sum_exp", "lde": "log_diff_exp"}


def impl_helper(name, *args):
    """(value | None, exception name | None, calls)"""
    import mici.utils as u

    with Recorder() as r:
        try:
            v = float(getattr(u, HELPERS[name])(*args))
            return v, None, list(r.calls)
        except Exception as e:  # noqa: BLE001
            return None, type(e).__name__, list(r.calls)


def pivot_floor(name, a, b):
    if name == "lse":
        p = max(a, b)
    elif name == "lde":
        p = a
    else:
        return 0.0
    return abs(p) if math.isfinite(p) else 0.0


def sum_floor(name, args, exact):
    """Two-argument functions return pivot + correction: the result is as accurate as a correctly rounded sum of
    the two terms can be, i.e. to ulps of max(|result|, |pivot|, |correction|) (absolute error of a log-value =
    relative error of the weight it represents)."""
    if len(args) != 2:
        return 0.0
    p = pivot_floor(name, *args)
    if isinstance(exact, Decimal) and p:
        piv = max(args) if name == "lse" else args[0]
        return max(p, abs(float(exact) - piv))
    return p


def diff_rounding_allowance(name, args) -> Decimal:
    """log_sum_exp / log_diff_exp evaluate f(val_small - val_pivot); when that float subtraction is inexact (one
    rounding, relative 2^-53) the error is amplified by |f'(d)| — the conditioning of the problem with respect to
    its own inputs, not a defect of the formula.  Returns the absolute allowance (0 when the subtraction is exact)."""
    if len(args) != 2 or not all(math.isfinite(x) for x in args):
        return Decimal(0)
    a, b = args
    piv, oth = (max(a, b), min(a, b)) if name == "lse" else (a, b)
    if oth >= piv:
        return Decimal(0)
    dflt = oth - piv
    dex = CTX.subtract(D(oth), D(piv))
    if math.isfinite(dflt) and D(dflt) == dex:
        return Decimal(0)
    e = CTX.exp(dex)
    w = CTX.divide(e, CTX.add(Decimal(1), e)) if name == "lse" else CTX.divide(e, CTX.subtract(Decimal(1), e))
    return CTX.multiply(CTX.multiply(w, abs(dex)), Decimal(2) ** -52)


def oracle_helper(case):
    """Value vs 80-digit oracle (<= 4 ulp), no exception, specials per the documentation."""
    name = case["name"]
    args = [unfx(x) for x in case["args"]]
    if any(math.isnan(x) or x == INF for x in args):
        return []  # the property is about finite log-values and the zero weight -inf
    v, exc, _ = impl_helper(name, *args)
    if exc is not None:
        return [f"{HELPERS[name]}({', '.join(repr(x) for x in args)}) raised {exc}"]
    exact = exact_helper(name, *args)
    floor = sum_floor(name, args, exact)
    n = ulps_vs_exact(v, exact, floor, diff_rounding_allowance(name, args))
    if n > ULP_BUDGET:
        ex = exact if not isinstance(exact, Decimal) else f"{exact:.25e}"
        return [f"{HELPERS[name]}({', '.join(repr(x) for x in args)}) = {v!r}, exact {ex} ({n:.3g} ulp > {ULP_BUDGET})"]
    return []


def oracle_range(case):
    """The range lemma observed on the real code: exp only on arguments <= 0, log1p only on
    arguments >= -1/2, expm1 only on (-log 2, 0)."""
    name = case["name"]
    args = [unfx(x) for x in case["args"]]
    if any(math.isnan(x) or x == INF for x in args):
        return []
    _, _, calls = impl_helper(name, *args)
    bad = []
    for fn, x in calls:
        if math.isnan(x):
            continue
        if fn == "exp" and x > 0:
            bad.append(f"exp called with positive argument {x!r} (overflow risk)")
        if fn == "log1p" and x < -0.5:
            bad.append(f"log1p called with argument {x!r} < -1/2 (cancellation; expm1 branch not taken)")
        if fn == "expm1" and not (-LOG2 < x < 0):
            bad.append(f"expm1 called with argument {x!r} outside (-log 2, 0)")
    return [f"{HELPERS[name]}({', '.join(repr(x) for x in args)}): {b}" for b in bad[:2]]


# ---- LogRepFloat -----------------------------------------------------------------------------


def _scalar(kind, x):
    from mici.utils import LogRepFloat

    return LogRepFloat(log_val=x) if kind == "R" else x


def impl_op(name, la, kind, xb):  # noqa: C901, PLR0911, PLR0912
    """Returns (kind 'R'|'P'|'B', value, exception name)."""
    from mici.utils import LogRepFloat

    x = LogRepFloat(log_val=la)
    try:
        o = _scalar(kind, xb)
        if name == "add":
            r = x + o
        elif name == "radd":
            r = o + x
        elif name == "iadd":
            y = x
            y += o
            if y is not x:
                return ("X", NAN, "iadd returned a new object")
            r = y
        elif name == "sub":
            r = x - o
        elif name == "mul":
            r = x * o
        elif name == "rmul":
            r = o * x
        elif name == "div":
            r = x / o
        elif name == "lt":
            r = x < o
        elif name == "gt":
            r = x > o
        elif name == "le":
            r = x <= o
        elif name == "ge":
            r = x >= o
        elif name == "eq":
            r = x == o
        elif name == "ne":
            r = x != o
        elif name == "rsub":
            r = xb - x
        elif name == "rdiv":
            r = xb / x
        elif name == "neg":
            r = -x
        elif name == "val":
            r = x.val
        elif name == "ofval":
            r = LogRepFloat(xb)
        elif name == "ratio":
            r = min(x / o, 1)
        else:
            raise KeyError(name)
    except (ValueError, OverflowError, ZeroDivisionError, TypeError) as e:
        return ("E", NAN, type(e).__name__)
    if isinstance(r, LogRepFloat):
        return ("R", float(r.log_val), None)
    if isinstance(r, (bool,)) or type(r).__name__ == "bool_":
        return ("B", 1.0 if r else 0.0, None)
    return ("P", float(r), None)


def d_exp_of_log(l: float):
    """e^l as Decimal (0 for -inf), None for +inf/nan."""
    if l == -INF:
        return Decimal(0)
    if math.isnan(l) or l == INF:
        return None
    return CTX.exp(D(l))


def safe_plain(l: float) -> bool:
    """plain value e^l neither overflows nor underflows (nor is it subnormal)."""
    return l == -INF or -700.0 <= l <= 700.0


def oracle_logrep(case):  # noqa: C901, PLR0911, PLR0912, PLR0915
    """LogRepFloat operators and comparisons against exact real arithmetic on the values."""
    name, kind = case["op"], case["kind"]
    la, xb = unfx(case["a"]), unfx(case["b"])
    k, v, exc = impl_op(name, la, kind, xb)
    call = f"LogRepFloat(log_val={la!r}) {name} {'LogRepFloat(log_val=' + repr(xb) + ')' if kind == 'R' else repr(xb)}"
    finite_in = not math.isnan(la) and la != INF and not math.isnan(xb) and xb != INF
    if not finite_in:
        return []
    if k == "X":
        return [f"{call}: {exc}"]
    if kind == "R":
        lb = xb
        if name in ("add", "radd", "iadd"):
            if k != "R":
                return [f"{call}: result is not a LogRepFloat ({exc or k})"]
            n = ulps_vs_exact(v, exact_helper("lse", la, lb), sum_floor("lse", (la, lb), exact_helper("lse", la, lb)),
                              diff_rounding_allowance("lse", (la, lb)))
            if n > ULP_BUDGET:
                return [f"{call}: log_val {v!r}, exact {exact_helper('lse', la, lb)} ({n:.3g} ulp)"]
            return []
        if name in ("mul", "rmul", "div"):
            if k != "R":
                return [f"{call}: result is not a LogRepFloat ({exc or k})"]
            if la == -INF and lb == -INF and name == "div":
                return []  # 0/0
            if name == "div" and lb == -INF:
                return []  # division by the zero weight
            if la == -INF or lb == -INF:
                want = -INF
                return [] if v == want else [f"{call}: log_val {v!r}, exact -inf (zero weight)"]
            ex = CTX.add(D(la), D(lb)) if name != "div" else CTX.subtract(D(la), D(lb))
            if abs(ex) > Decimal("1.7e308"):
                return []
            n = ulps_vs_exact(v, ex, 5e-324)
            return [f"{call}: log_val {v!r}, exact {ex:.20e} ({n:.3g} ulp)"] if n > 1 else []
        if name == "sub":
            if la >= lb:
                if k != "R":
                    return [f"{call}: non-negative difference is not a LogRepFloat ({exc or k} {v!r})"]
                ex = exact_helper("lde", la, lb)
                n = ulps_vs_exact(v, ex, sum_floor("lde", (la, lb), ex), diff_rounding_allowance("lde", (la, lb)))
                if n > ULP_BUDGET:
                    return [f"{call}: log_val {v!r}, exact {ex} ({n:.3g} ulp)" + (" — NaN for equal values" if math.isnan(v) else "")]
                return []
            if k != "P":
                return [f"{call}: negative difference should be a plain float, got {k} {exc}"]
            if not (safe_plain(la) and safe_plain(lb)):
                return []  # plain-float fallback outside the double range: not claimed
            ex = CTX.subtract(d_exp_of_log(la), d_exp_of_log(lb))
            n = ulps_vs_exact(v, ex, math.exp(lb))
            return [f"{call}: {v!r}, exact {ex:.20e} ({n:.3g} ulp)"] if n > ULP_BUDGET else []
        if name in ("lt", "gt", "le", "ge", "eq", "ne"):
            want = {"lt": la < lb, "gt": la > lb, "le": la <= lb, "ge": la >= lb, "eq": la == lb, "ne": la != lb}[name]
            if k != "B" or bool(v) != want:
                return [f"{call}: {k} {v!r}, the values compare as {want}"]
            return []
        if name == "ratio":
            if lb == -INF:
                return []
            if la > lb:
                # exp(log ratio) may round to exactly 1.0, then `1 < ratio` is False and the ratio itself is returned
                ok = (k == "P" and v == 1.0) or (k == "R" and 0 <= v <= 2.0 ** -52)
                return [] if ok else [f"{call}: min(num/den, 1) = {k} {v!r}, exact 1"]
            if la == -INF:
                return [] if (k == "R" and v == -INF) else [f"{call}: min(0/den, 1) = {k} {v!r}, exact zero weight"]
            ex = CTX.subtract(D(la), D(lb))
            if abs(ex) > Decimal("1.7e308"):
                return []  # the log ratio itself leaves the double range
            if k != "R":
                return [f"{call}: min(num/den, 1) = {k} {v!r}, expected LogRepFloat"]
            n = ulps_vs_exact(v, ex, 5e-324)
            return [f"{call}: log ratio {v!r}, exact {ex:.20e}"] if n > 1 else []
        return []
    # mixed with a plain number: acts on the plain value (claimed only inside the double range)
    x = xb
    if name == "ofval":
        if x < 0:
            return [] if k == "E" else [f"LogRepFloat({x!r}) accepted a negative value"]
        if k != "R":
            return [f"LogRepFloat({x!r}) raised {exc}"]
        want = -INF if x == 0 else math.log(x)
        return [] if ulp_diff(v, want) <= 1 else [f"LogRepFloat({x!r}).log_val = {v!r}, exact {want!r}"]
    if name == "val":
        ex = d_exp_of_log(la)
        if la > 709.78:
            return [] if v == INF else [f"{call}: {v!r}, expected inf (overflow)"]
        n = ulps_vs_exact(v, ex, 5e-324)
        return [f"{call}: {v!r}, exact {ex:.20e} ({n:.3g} ulp)"] if n > 2 else []
    if name == "iadd":
        if x < 0:
            return []
        if k != "R":
            return [f"{call}: result {k} {exc}"]
        if x == 0:
            return [] if same_special(v, la) else [f"{call}: adding 0 changed log_val to {v!r}"]
        lx = math.log(x)
        ex = exact_helper("lse", la, lx)
        n = ulps_vs_exact(v, ex, max(pivot_floor("lse", la, lx), 1.0))
        return [f"{call}: log_val {v!r}, exact {ex} ({n:.3g} ulp)"] if n > ULP_BUDGET + 2 else []
    if not safe_plain(la):
        return []
    ea = d_exp_of_log(la)
    fa = float(ea)
    if name in ("lt", "gt", "le", "ge", "eq", "ne"):
        if fa != 0 and abs(x - fa) <= 4 * math.ulp(fa):
            return []  # near tie of exp rounding
        want = {"lt": fa < x, "gt": fa > x, "le": fa <= x, "ge": fa >= x, "eq": fa == x, "ne": fa != x}[name]
        return [] if (k == "B" and bool(v) == want) else [f"{call}: {k} {v!r}, value {fa!r} compares as {want}"]
    if k == "E":
        if name in ("div",) and x == 0:
            return []
        if name == "rdiv" and la == -INF:
            return []
        return [f"{call}: raised {exc}"]
    if k != "P":
        return [f"{call}: mixed operation should give a plain float, got {k}"]
    dx = D(x)
    ex = {
        "add": lambda: CTX.add(ea, dx), "radd": lambda: CTX.add(ea, dx), "sub": lambda: CTX.subtract(ea, dx),
        "rsub": lambda: CTX.subtract(dx, ea), "mul": lambda: CTX.multiply(ea, dx), "rmul": lambda: CTX.multiply(ea, dx),
        "div": lambda: CTX.divide(ea, dx), "rdiv": lambda: CTX.divide(dx, ea), "neg": lambda: CTX.minus(ea),
    }[name]()
    if abs(ex) > Decimal("1e308") or (ex != 0 and abs(ex) < Decimal("1e-300")):
        return []
    floor = max(fa, abs(x)) if name in ("add", "radd", "sub", "rsub") else 0.0
    n = ulps_vs_exact(v, ex, floor)
    return [f"{call}: {v!r}, exact {ex:.20e} ({n:.3g} ulp)"] if n > ULP_BUDGET else []


def impl_acc(l0, items):
    from mici.utils import LogRepFloat

    x = LogRepFloat(log_val=l0)
    for kind, v in items:
        x += _scalar(kind, v)
    return float(x.log_val)


def exact_acc(l0, items):
    """log(e^l0 + sum of items) with 80 digits."""
    logs = [l0] + [v for k, v in items if k == "R"]
    plains = [v for k, v in items if k == "P" and v != 0]
    terms = [D(l) for l in logs if l != -INF] + [CTX.ln(D(p)) for p in plains]
    if not terms:
        return -INF
    m = max(terms)
    s = Decimal(0)
    for t in terms:
        s = CTX.add(s, CTX.exp(CTX.subtract(t, m)))
    return CTX.add(m, CTX.ln(s))


def oracle_acc(case):
    l0 = unfx(case["l0"])
    items = [(k, unfx(v)) for k, v in case["items"]]
    try:
        got = impl_acc(l0, items)
    except Exception as e:  # noqa: BLE001
        return [f"in-place accumulation raised {type(e).__name__}: {e}"]
    ex = exact_acc(l0, items)
    floor = max([abs(v) for k, v in [("R", l0), *items] if k == "R" and math.isfinite(v)] + [1.0])
    n = ulps_vs_exact(got, ex, floor)
    if n > ULP_BUDGET * (len(items) + 1):
        exs = ex if not isinstance(ex, Decimal) else f"{ex:.20e}"
        return [f"x = LogRepFloat(log_val={l0!r}); x += {len(items)} weights {[(k, v) for k, v in items][:6]}…: "
                f"log_val {got!r}, exact {exs} ({n:.3g} ulp of the largest operand)"]
    return []


def acc_signature(case):
    vals = [unfx(case["l0"])] + [unfx(v) for k, v in case["items"] if k == "R"]
    if any(v != -INF and v < -745.0 for v in vals):
        return "logrep:iadd-underflow"
    return "logrep:iadd"


def oracle_weights(case):
    """The use in transitions.py: accept probabilities min(w_new / w_tree, 1), `u < p`, `1.0 - p`
    for weights exp(-h) of any magnitude."""
    from mici.utils import LogRepFloat

    h_new, h_tree_others, u = unfx(case["h_new"]), [unfx(x) for x in case["h_others"]], unfx(case["u"])
    try:
        w_new = LogRepFloat(log_val=-h_new)
        tree = LogRepFloat(log_val=-h_tree_others[0])
        for h in h_tree_others[1:]:
            tree = tree + LogRepFloat(log_val=-h)
        tree = tree + w_new
        p = min(w_new / tree, 1)
        acc = u < p
        rej = 1.0 - p
    except Exception as e:  # noqa: BLE001
        return [f"weight ratio raised {type(e).__name__}: {e}"]
    # exact: p = e^{-h_new} / sum e^{-h}
    hs = [h_new, *h_tree_others]
    fin = [D(-h) for h in hs if h != INF]
    m = max(fin)
    tot = sum((CTX.exp(CTX.subtract(t, m)) for t in fin), Decimal(0))
    pe = Decimal(0) if h_new == INF else CTX.divide(CTX.exp(CTX.subtract(D(-h_new), m)), tot)
    bad = []
    rej_f = float(rej)
    tol = 1e-13 + 8 * math.ulp(max(abs(h) for h in hs if h != INF))  # log-values carry abs error ulp(|h|)
    if math.isnan(rej_f) or abs(rej_f - float(1 - pe)) > tol:
        bad.append(f"1.0 - accept probability = {rej_f!r}, exact {float(1 - pe)!r}")
    if abs(float(pe) - u) > 10 * tol and bool(acc) != (u < float(pe)):
        bad.append(f"u < p decided {bool(acc)} for u={u!r}, exact p={float(pe)!r}")
    return [f"energies new={h_new!r} others={h_tree_others}: {b}" for b in bad]


# ======================================================================================
# >>> B6 BEGIN — measured error of the real code vs the PROVEN rounding bound (Props/C20R.lean)
#
# The theorems of Props/C20R.lean bound |computed - exact| for the model definitions under the
# standard model of floating-point arithmetic (every primitive call and every + / - returns the
# exact result times (1+d), |d| <= u; no underflow, no overflow; comparisons exact).  Here each
# bound is instantiated at u = 2^-52 (round-to-nearest + and - have u = 2^-53; a libm whose
# exp/log/log1p/expm1 are within 1 ulp has relative error <= 2^-52 — ASSUMED, see LEVEL_NOTE) and
# compared with the error of the real function measured against the 80-digit oracle.  A measured
# error above the proven bound is a violation with the concrete argument: either the code does not
# compute what the model computes (branch / formula changed) or an assumption is false.
# Inputs on which some operation under- or overflows are outside the theorems and are skipped.

U_PROVEN = 2.0 ** -52
MIN_NORMAL = 2.2250738585072014e-308
BOUND_STATS = {"checked": 0, "skipped_under_overflow": 0, "max_ratio": {}, "argmax": {}, "above_bound_at_2^-53": 0}


def _in_standard_model(calls, final) -> bool:
    """No primitive result (recomputed with the same libm) and not the final value is inf/nan, a flushed zero
    or a subnormal."""
    if final is None or math.isnan(final) or math.isinf(final):
        return False
    for fn, x in calls:
        if math.isnan(x) or math.isinf(x):
            return False
        try:
            r = getattr(math, fn)(x)
        except (ValueError, OverflowError):
            return False
        if math.isnan(r) or math.isinf(r):
            return False
        if r == 0.0 and not (x == 0.0 or (fn == "log" and x == 1.0)):
            return False
        if r != 0.0 and abs(r) < MIN_NORMAL:
            return False
    return True


def proven_bound(name, args, exact, u):  # noqa: C901, PLR0911
    """(absolute error bound as Decimal, theorem name) for the MODEL under the standard model with unit round-off
    u, or (None, reason).  Mirrors the statements of Props/C20R.lean literally."""
    U = Decimal(u)
    one = Decimal(1)
    if name == "l1p":
        v = args[0]
        if v <= 0:
            return CTX.multiply(2 * U / (one - U), abs(exact)), "log1pExp_rounded_nonpos"
        return CTX.multiply((3 + U) * U / (one - U), abs(exact)), "log1pExp_rounded_pos"
    if name == "l1m":
        v = args[0]
        if not v < 0:
            return None, "specials"
        X = abs(exact)
        uniform = CTX.multiply((3 + U) * U / (one - U), X)
        if v > -LOG2:  # the branch the MODEL takes (LOG2 is the same rounded constant as LOG_2 of utils.py)
            b = CTX.add(U * (one + U) / (one - U), CTX.multiply(U, X))
            return min(b, uniform), "log1mExp_rounded_near"
        E = CTX.exp(D(v))
        den = one - E * (one + U)
        if den <= 0:
            return uniform, "log1mExp_rounded"
        b = CTX.multiply(U * (one + U) * (one - E / 2) / den + U, X)
        return min(b, uniform), "log1mExp_rounded_far"
    a, b_ = args
    if name == "lse":
        p, o = (a, b_) if a > b_ else (b_, a)
        S = d_ln1p(CTX.exp(CTX.subtract(D(o), D(p))))
        corr = (one + U) * (2 * U / (one - U) * S + (one + U) / (one - U) * (U / (2 * (one - U))))
        return CTX.add(CTX.multiply(U, abs(exact)), corr), "logSumExp_rounded"
    if name == "lde":
        if not b_ < a:
            return None, "specials"
        G = abs(d_l1m(CTX.subtract(D(b_), D(a))))
        rho = (3 + U) * U / (one - U)
        corr = (one + U) * (rho * G + (one + rho) * (U / (one - U)))
        return CTX.add(CTX.multiply(U, abs(exact)), corr), "logDiffExp_rounded"
    if name in ("mul", "div"):
        return CTX.multiply(U, abs(exact)), "logRep_mul_div_rounded"
    if name == "acc":  # args = (l0, n)
        l0, n = args
        m = max(abs(D(l0)), abs(exact)) + 3
        return CTX.multiply(CTX.subtract(CTX.power(one + U, Decimal(n)), one), m), "iadd_sequence_rounded"
    return None, "no theorem"


def oracle_bound(case):  # noqa: C901, PLR0911, PLR0912
    """Measured |computed - exact| of the real code <= proven bound of the model at u = 2^-52."""
    if "items" in case:  # x += y1; ...; x += yn with LogRepFloat operands of finite log-values only
        l0 = unfx(case["l0"])
        items = [(k, unfx(x)) for k, x in case["items"]]
        if not items or not math.isfinite(l0) or any(k != "R" or not math.isfinite(x) for k, x in items):
            return []
        name, args = "acc", (l0, len(items))
        with Recorder() as r:
            try:
                v = impl_acc(l0, items)
            except Exception:  # noqa: BLE001
                return []  # reported by oracle_acc
            calls = list(r.calls)
        exact = exact_acc(l0, items)
        call = f"x = LogRepFloat(log_val={l0!r}); x += LogRepFloat(log_val=l) for l in {[x for _, x in items]!r} -> log_val"
    elif "op" in case:  # LogRepFloat operator between two LogRepFloats with finite log-values
        la, lb = unfx(case["a"]), unfx(case["b"])
        op = case["op"]
        name = {"add": "lse", "radd": "lse", "iadd": "lse", "sub": "lde", "mul": "mul", "rmul": "mul", "div": "div"}.get(op)
        if name is None or case["kind"] != "R" or not (math.isfinite(la) and math.isfinite(lb)):
            return []
        if name == "lde" and not lb < la:
            return []
        with Recorder() as r:
            k, v, _exc = impl_op(op, la, "R", lb)
            calls = list(r.calls)
        if k != "R":
            return []  # reported by oracle_logrep
        args = (la, lb)
        if name in ("mul", "div"):
            exact = CTX.add(D(la), D(lb)) if name == "mul" else CTX.subtract(D(la), D(lb))
            if abs(exact) > Decimal("1.7e308"):
                return []
        else:
            exact = exact_helper(name, la, lb)
        call = f"LogRepFloat(log_val={la!r}) {op} LogRepFloat(log_val={lb!r}) -> log_val"
    else:
        name = case["name"]
        args = tuple(unfx(x) for x in case["args"])
        if not all(math.isfinite(x) for x in args):
            return []
        v, exc, calls = impl_helper(name, *args)
        if exc is not None:
            return []  # reported by oracle_helper
        exact = exact_helper(name, *args)
        call = f"{HELPERS[name]}({', '.join(repr(x) for x in args)})"
    if not isinstance(exact, Decimal):
        return []
    if len(args) == 2 and name in ("lse", "lde") and not math.isfinite(args[0] - args[1]):
        BOUND_STATS["skipped_under_overflow"] += 1
        return []
    if not _in_standard_model(calls, v):
        BOUND_STATS["skipped_under_overflow"] += 1
        return []
    bound, thm = proven_bound(name, args, exact, U_PROVEN)
    if bound is None:
        return []
    err = abs(CTX.subtract(D(v), exact))
    BOUND_STATS["checked"] += 1
    if bound > 0:
        ratio = float(CTX.divide(err, bound))
        if ratio > BOUND_STATS["max_ratio"].get(thm, -1.0):  # largest measured / proven, per theorem
            BOUND_STATS["max_ratio"][thm], BOUND_STATS["argmax"][thm] = ratio, call
    half, _ = proven_bound(name, args, exact, 2.0 ** -53)
    if half is not None and err > half:
        BOUND_STATS["above_bound_at_2^-53"] += 1
    if err > bound * (1 + Decimal("1e-12")):
        return [f"{call} = {v!r}: |computed - exact| = {float(err):.4g} exceeds the PROVEN bound {float(bound):.4g} of "
                f"theorem C20R.{thm} at u = 2^-52 ({float(CTX.divide(err, bound)) if bound > 0 else INF:.3g} x; exact {exact:.25e}; "
                f"no under/overflow on this input) — the code does not compute what the model computes, or libm is off by > 1 ulp"]
    return []


def bound_stats_into(ctx):
    ctx.extra["proven_bound_vs_measured"] = dict(BOUND_STATS, max_ratio=dict(BOUND_STATS["max_ratio"]),
                                                 argmax=dict(BOUND_STATS["argmax"]), u="2^-52")
    for k in ("checked", "skipped_under_overflow", "above_bound_at_2^-53"):
        ctx.count(f"proven_bound:{k}", BOUND_STATS[k])
        BOUND_STATS[k] = 0
    BOUND_STATS["max_ratio"], BOUND_STATS["argmax"] = {}, {}


# <<< B6 END
# ======================================================================================


ORACLES = {
    "bound": oracle_bound,  # B6
    "helper": oracle_helper,
    "range": oracle_range,
    "logrep": oracle_logrep,
    "acc": oracle_acc,
    "weights": oracle_weights,
}


def check(ctx, name, case, sig):
    seen = ctx.extra.setdefault("_checked", set())
    h = common.stable_hash([name, case])
    if h in seen:
        return True
    seen.add(h)
    try:
        bad = ORACLES[name](case)
    except Exception as e:  # noqa: BLE001
        bad = [f"oracle {name} crashed on the implementation: {type(e).__name__}: {e}"]
    for b in bad:
        ctx.violation(sig, f"{name}: {b}", {"oracle": name, "case": case})
    return not bad


# ---------------------------------------------------------------------------------------
# grids


def nxt(x, k=1):
    for _ in range(abs(k)):
        x = math.nextafter(x, INF if k > 0 else -INF)
    return x


def base_grid(rng, n_random):
    g = [0.0, -0.0, INF, -INF, NAN, 1.0, -1.0, 2.0, -2.0, 0.5, -0.5, 1e-20, -1e-20, -1e-300, 1e-300, 5e-324, -5e-324,
         2.2250738585072014e-308, -2.2250738585072014e-308, 1.7976931348623157e308, -1.7976931348623157e308,
         1e308, -1e308, -1e-10, -1e-16, -1e-17, -2.0 ** -53, -2.0 ** -52, -36.0, -37.0, -38.0, 36.0, 37.0, 38.0,
         -0.1, -0.6, -0.7, -0.8, 0.1, 18.0, -18.0, 33.3, -33.3, 100.0, -100.0, 1e5, -1e5, 1e10, -1e10, 1e100, -1e100]
    for c in (LOG2, -LOG2, 709.782712893384, -709.782712893384, 745.1332191019411, -745.1332191019411,
              -708.3964185322641, 0.0, 710.0, -746.0, math.log(0.5), -2 * LOG2, 36.7368005696771, -36.7368005696771):
        for k in (-2, -1, 0, 1, 2):
            g.append(nxt(c, k))
    for e in range(-1074, 1024, 37):
        g += [2.0 ** e, -(2.0 ** e)]
    for _ in range(n_random):
        style = rng.integers(0, 4)
        if style == 0:
            x = float(rng.normal()) * 5
        elif style == 1:
            x = float(rng.uniform(-800, 800))
        elif style == 2:
            x = math.ldexp(float(rng.uniform(0.5, 1.0)), int(rng.integers(-1074, 1024))) * (1 if rng.random() < 0.3 else -1)
        else:
            x = -abs(float(rng.uniform(0, 1.5)))  # around the log1m_exp branch point
        g.append(x)
    return g


def parse_model(line):
    parts = line.split(" ")
    v, err = unbits(int(parts[0])), parts[1] == "1"
    calls = []
    if len(parts) > 2 and parts[2]:
        for c in parts[2].split(","):
            n, a = c.split(":")
            calls.append((n, unbits(int(a))))
    return v, err, calls


def run(ctx: common.Ctx):  # noqa: C901, PLR0912, PLR0915
    rng = common.rng_for(ctx)
    src_obligation_status(ctx, "MiciVerif.Props.C20S")
    ctx.rule = (
        "helpers: grid over the whole double range (powers of two, branch points +-2 ulp, extremes, -1e-20, -1e-300, "
        "+-inf, nan, random); pairs incl. equal / adjacent / infinite operands; non-trivial = finite argument(s). "
        "LogRepFloat: every operator x operand kind on log-values incl. magnitudes whose plain values over/underflow; "
        "accumulation sequences of 1-40 in-place additions"
    )
    ctx.assumptions += [
        "Lean Float exp/log are the C library's (as CPython's); log1p/expm1 emulated by Kahan's formulas in the driver",
        f"model vs implementation values within {ULP_MODEL} ulp, implementation vs 80-digit oracle within {ULP_BUDGET} ulp "
        "(two-argument functions return pivot + correction: ulp of max(|result|, |pivot|, |correction|), plus the "
        "amplification |f'(d)| |d| 2^-52 of the single rounding of d = val_small - val_pivot when that subtraction is inexact)",
        "value/range theorems (Props/C20) are over exact reals; rounding theorems (Props/C20R) are in the standard model "
        "fl(op) = op (1+d), |d| <= u, no under/overflow; that glibc's exp/log/log1p/expm1 are within 1 ulp (u = 2^-52) is assumed, "
        "measured error <= proven bound at u = 2^-52 is checked on every explored helper / operator case without under/overflow",
    ]
    # corpus (minimised past failures) first
    d = common.VERIF / "corpus" / PROP
    if d.exists():
        for f in sorted(d.glob("*.json")):
            obj = json.loads(f.read_text())
            if obj.get("oracle") in ORACLES:
                ctx.count("corpus")
                check(ctx, obj["oracle"], obj["case"], obj.get("signature", "corpus"))
    grid = base_grid(rng, _n(ctx, 3000, 40000))
    reqs, metas = [], []
    for v in grid:
        for name in ("l1p", "l1m"):
            reqs.append(f"f1 {name} {bits(v)}")
            metas.append(("helper", name, (v,)))
    pairs = []
    small = [x for x in grid if abs(x) < 50 or math.isinf(x)][:200]
    for _ in range(_n(ctx, 8000, 80000)):
        a = grid[int(rng.integers(len(grid)))]
        r = rng.random()
        if r < 0.15:
            b = a
        elif r < 0.3:
            b = nxt(a, int(rng.integers(-3, 4))) if math.isfinite(a) else a
        elif r < 0.5:
            b = a + float(rng.normal()) * float(rng.choice([1e-8, 1e-3, 0.5, 3, 40, 800]))
        elif r < 0.6:
            b = small[int(rng.integers(len(small)))]
        else:
            b = grid[int(rng.integers(len(grid)))]
        pairs.append((a, b))
    pairs += [(-INF, -INF), (-INF, 3.0), (3.0, -INF), (0.0, 0.0), (1e308, -1e308), (-1e308, 1e308), (1e308, 1e308),
              (-1e308, -1e308), (-745.0, -745.0), (-800.0, -800.0), (800.0, 800.0), (-LOG2, -LOG2), (0.0, -LOG2),
              (LOG2, 0.0), (5e-324, 0.0), (0.0, -5e-324), (710.0, 709.0), (-1e-300, -2e-300)]
    for a, b in pairs:
        for name in ("lse", "lde"):
            reqs.append(f"f2 {name} {bits(a)} {bits(b)}")
            metas.append(("helper", name, (a, b)))
    # LogRepFloat operators
    logvals = [-INF, 0.0, -0.0, 1.0, -1.0, 3.5, -3.5, 36.0, -40.0, 700.0, -700.0, 709.0, 710.0, 745.0, -745.0, -746.0,
               800.0, -800.0, 1e5, -1e5, 1e308, -1e308, 1e-300, -1e-300, LOG2, -LOG2]
    plainvals = [0.0, 1.0, 0.5, 2.0, 3.75, 1e-300, 1e300, -1.0, -2.5, 1e-5, 12345.678]
    ops_rr = ["add", "iadd", "sub", "mul", "div", "lt", "gt", "le", "ge", "eq", "ne", "ratio"]
    ops_rp = ["add", "iadd", "sub", "mul", "div", "lt", "gt", "le", "ge", "eq", "ne", "rsub", "rdiv", "neg", "val", "ofval"]
    opcases = []
    for _ in range(_n(ctx, 8000, 60000)):
        la = logvals[int(rng.integers(len(logvals)))] if rng.random() < 0.5 else float(rng.uniform(-900, 900))
        if rng.random() < 0.6:
            r = rng.random()
            lb = la if r < 0.2 else (nxt(la, int(rng.integers(-2, 3))) if r < 0.3 and math.isfinite(la) else (
                logvals[int(rng.integers(len(logvals)))] if r < 0.6 else la + float(rng.normal()) * float(rng.choice([1e-9, 0.1, 5, 100]))))
            opcases.append((ops_rr[int(rng.integers(len(ops_rr)))], la, "R", lb))
        else:
            x = plainvals[int(rng.integers(len(plainvals)))] if rng.random() < 0.6 else float(abs(rng.normal()) * 10.0 ** int(rng.integers(-8, 8)))
            opcases.append((ops_rp[int(rng.integers(len(ops_rp)))], la, "P", x))
    for name, la, kind, xb in opcases:
        reqs.append(f"op {name} {bits(la)} {kind} {bits(xb)}")
        metas.append(("op", name, la, kind, xb))
    # accumulation sequences
    acccases = []
    for _ in range(_n(ctx, 1000, 8000)):
        centre = float(rng.choice([0.0, -5.0, 30.0, -700.0, 700.0, -800.0, 800.0, -1e5, 1e5, -745.0]))
        spread = float(rng.choice([0.0, 1e-3, 1.0, 30.0]))
        n = int(rng.integers(1, 40))
        l0 = centre + spread * float(rng.normal()) if rng.random() < 0.85 else -INF
        items = []
        for _ in range(n):
            r = rng.random()
            if r < 0.7:
                items.append(("R", centre + spread * float(rng.normal())))
            elif r < 0.8:
                items.append(("R", -INF))
            elif r < 0.9:
                items.append(("P", 0.0))
            else:
                items.append(("P", float(math.exp(min(700.0, max(-700.0, centre)) + rng.normal()))))
        acccases.append((l0, items))
    for l0, items in acccases:
        reqs.append(f"acc {bits(l0)} " + ",".join(f"{k}:{bits(v)}" for k, v in items))
        metas.append(("acc", l0, items))

    model = common.run_driver("C20", reqs)

    for req, meta, mline in zip(reqs, metas, model, strict=True):
        if mline == "bad-op":
            raise common.MachineryError(f"driver rejected {req[:120]}")
        if meta[0] == "helper":
            _, name, args = meta
            case = {"name": name, "args": [fx(x) for x in args]}
            finite = all(math.isfinite(x) for x in args)
            ctx.case({"f": name, "args": case["args"]}, nontrivial=finite)
            mv, merr, mcalls = parse_model(mline)
            iv, iexc, icalls = impl_helper(name, *args)
            branch = "+".join(n for n, _ in icalls) or ("raise" if iexc else "const")
            if name == "l1p" and not math.isnan(args[0]):
                branch += ":val>0" if args[0] > 0 else ":val<=0"
            ctx.count(f"{name}:branch={branch}")
            ok = True
            if merr != (iexc is not None):
                ctx.disagreement(f"{HELPERS[name]}{args}: implementation {'raised ' + iexc if iexc else 'returned ' + repr(iv)}, "
                                 f"model {'raises' if merr else 'returns ' + repr(mv)}", case)
                ok = False
            elif [n for n, _ in mcalls] != [n for n, _ in icalls]:
                ctx.disagreement(f"{HELPERS[name]}{args}: branch differs — implementation calls {[n for n, _ in icalls]}, "
                                 f"model {[n for n, _ in mcalls]}", case)
                ok = False
            elif any(ulp_diff(x, y) > ULP_MODEL for (_, x), (_, y) in zip(mcalls, icalls, strict=True)):
                ctx.disagreement(f"{HELPERS[name]}{args}: primitive arguments differ: impl {icalls} model {mcalls}", case)
                ok = False
            elif iexc is None and ulp_diff(iv, mv, pivot_floor(name, *args) if len(args) == 2 else 0.0) > ULP_MODEL:
                ctx.disagreement(f"{HELPERS[name]}{args}: value differs: impl {iv!r} model {mv!r}", case)
                ok = False
            # direct oracles on every helper case
            check(ctx, "range", case, f"helper:{name}:range")
            check(ctx, "helper", case, f"helper:{name}:value")
            check(ctx, "bound", case, f"helper:{name}:proven-bound")  # B6
            _ = ok
        elif meta[0] == "op":
            _, name, la, kind, xb = meta
            case = {"op": name, "a": fx(la), "kind": kind, "b": fx(xb)}
            ctx.case({"op": name, "a": case["a"], "k": kind, "b": case["b"]},
                     nontrivial=math.isfinite(la) and (math.isfinite(xb)))
            ctx.count(f"op:{name}:{kind}")
            if kind == "R" and (not safe_plain(la) or not safe_plain(xb)):
                ctx.count("op:operand_outside_plain_range")
            mk, mbits, merr = mline.split(" ")
            mv = float(int(mbits)) if mk == "B" else unbits(int(mbits))
            ik, iv, iexc = impl_op(name, la, kind, xb)
            if (merr == "1") != (ik == "E"):
                ctx.disagreement(f"LogRepFloat {name} ({la!r}, {kind} {xb!r}): impl {'raised ' + str(iexc) if ik == 'E' else ik + ' ' + repr(iv)}, "
                                 f"model {'raises' if merr == '1' else mk + ' ' + repr(mv)}", case)
            elif ik != "E" and (ik != mk or ulp_diff(iv, mv, 0.0 if mk != "R" else max(abs(la) if math.isfinite(la) else 0.0, 0.0)) > ULP_MODEL):
                ctx.disagreement(f"LogRepFloat {name} ({la!r}, {kind} {xb!r}): impl {ik} {iv!r}, model {mk} {mv!r}", case)
            sig = "logrep:" + name
            if name == "iadd" and kind == "R" and xb != -INF and xb < -745.0:
                sig = "logrep:iadd-underflow"
            check(ctx, "logrep", case, sig)
            check(ctx, "bound", case, f"logrep:{name}:proven-bound")  # B6
            if name == "add":
                check(ctx, "logrep", {**case, "op": "radd"}, "logrep:radd")
            if name == "mul":
                check(ctx, "logrep", {**case, "op": "rmul"}, "logrep:rmul")
        else:
            _, l0, items = meta
            case = {"l0": fx(l0), "items": [[k, fx(v)] for k, v in items]}
            ctx.case({"acc": common.stable_hash(case)}, nontrivial=len(items) >= 2)
            ctx.count(f"acc:n<={10 * (1 + len(items) // 10)}")
            mk, mbits, merr = mline.split(" ")
            mv = unbits(int(mbits))
            try:
                iv = impl_acc(l0, items)
                if merr == "1" or ulp_diff(iv, mv, max(1.0, abs(l0) if math.isfinite(l0) else 1.0)) > ULP_MODEL * (len(items) + 1):
                    ctx.disagreement(f"accumulation from {l0!r} of {len(items)} items: impl {iv!r}, model {mv!r} err={merr}", case)
            except Exception as e:  # noqa: BLE001
                if merr != "1":
                    ctx.disagreement(f"accumulation raised {type(e).__name__}: {e}; model {mv!r}", case)
            check(ctx, "acc", case, acc_signature(case))
            check(ctx, "bound", case, "logrep:iadd-sequence:proven-bound")  # B6
    # the pattern used by the multinomial transition
    for _ in range(_n(ctx, 1500, 10000)):
        base = float(rng.choice([0.0, 50.0, -50.0, 800.0, -800.0, 1e6, -1e6]))
        k = int(rng.integers(1, 6))
        hs = [base + float(rng.normal()) * float(rng.choice([0.1, 3.0, 50.0])) for _ in range(k)]
        h_new = base + float(rng.normal()) * 3 if rng.random() < 0.85 else INF
        case = {"h_new": fx(h_new), "h_others": [fx(h) for h in hs], "u": fx(float(rng.random()))}
        ctx.case({"weights": common.stable_hash(case)}, nontrivial=True)
        ctx.count("weights:" + ("zero_weight" if h_new == INF else "overflowing" if base <= -710 else
                                "underflowing" if base >= 746 else "moderate"))
        check(ctx, "weights", case, "logrep:weight-ratio")
    ctx.extra.pop("_checked", None)
    bound_stats_into(ctx)  # B6
    value_semantics_section(ctx, rng)


def value_semantics_section(ctx, rng):
    """Sequences of statements over a pool of named weights (incl. zero weights): `x = a op b` then in-place
    accumulation into x must leave every OTHER name unchanged (results never alias their operands) and give x
    the exact value.  Sequences of in-place accumulations are part of the property's quantifier."""
    from mici.utils import LogRepFloat

    for _ in range(_n(ctx, 400, 4000)):
        logs = [float(rng.choice([-INF, -800.0, -3.0, 0.0, 2.5, 700.0])) + (float(rng.normal()) if rng.random() < 0.7 else 0.0)
                for _ in range(4)]
        if rng.random() < 0.5:
            logs[int(rng.integers(4))] = -INF
        pool = {f"v{i}": LogRepFloat(log_val=l) for i, l in enumerate(logs)}
        ref = {k: v.log_val for k, v in pool.items()}
        prog = []
        ok = True
        for _step in range(int(rng.integers(2, 7))):
            a, b = (f"v{int(i)}" for i in rng.integers(0, 4, 2))
            kind = str(rng.choice(["x=a+b", "x+=a", "x=a*b", "x=a/b"]))
            prog.append([kind, a, b])
            try:
                before = {k: v.log_val for k, v in pool.items()}
                if kind == "x=a+b":
                    pool["x"] = pool[a] + pool[b]
                elif kind == "x+=a":
                    if "x" not in pool:
                        pool["x"] = LogRepFloat(log_val=-INF)
                        before["x"] = -INF
                    pool["x"] += pool[a]
                elif kind == "x=a*b":
                    pool["x"] = pool[a] * pool[b]
                else:
                    if pool[b].log_val == -INF:
                        continue
                    pool["x"] = pool[a] / pool[b]
            except Exception as e:  # noqa: BLE001
                ctx.violation("logrep:statement-sequence exception", f"{type(e).__name__}: {e} in {prog} from log-values {logs}",
                              {"value_semantics": {"logs": [fx(v) for v in logs], "prog": prog}})
                ok = False
                break
            # no name other than x may have changed
            changed = [k for k in before if k != "x" and not (pool[k].log_val == before[k] or (pool[k].log_val != pool[k].log_val and before[k] != before[k]))]
            aliased = [k for k in pool if k != "x" and pool[k] is pool.get("x")]
            if changed or (aliased and kind != "x+=a"):
                ctx.violation("logrep:operand aliasing",
                              f"after {prog} from log-values {logs}: operand(s) {changed or aliased} changed / are aliased by the result",
                              {"value_semantics": {"logs": [fx(v) for v in logs], "prog": prog}})
                ok = False
                break
        ctx.case({"value_semantics": common.stable_hash([logs, prog])}, nontrivial=len(prog) >= 3)
        ctx.count("value_semantics_sequences")
        del ok


def replay(ctx, obj):  # noqa: ARG001
    if "value_semantics" in obj:
        sub = common.Ctx(ctx.prop, ctx.tier, ctx.seed)
        value_semantics_section(sub, common.rng_for(sub))
        return bool(sub.violations)
    if obj.get("oracle") in ORACLES:
        try:
            return bool(ORACLES[obj["oracle"]](obj["case"]))
        except Exception:  # noqa: BLE001
            return True
    sub = common.Ctx(ctx.prop, ctx.tier, ctx.seed)
    run(sub)
    return bool(sub.violations or sub.disagreements)


LEVEL_TEXT = (
    "Lean 4 proofs over the reals (Mathlib) for the model of utils.py instantiated with the Python/IEEE meaning of the "
    "primitives without rounding: each branch of log1p_exp, log1m_exp (guard val > -LOG_2), log_sum_exp, log_diff_exp "
    "equals log(1+e^v), log(1-e^v), log(e^a+e^b), log(e^a-e^b) on its guard, the guards are exhaustive and no call "
    "raises for finite arguments (log1pExp_eq, log1mExp_eq, log1mExp_nonneg, logSumExp_eq, logDiffExp_eq, no_exception); "
    "the same theorems at g = true are the RANGE lemmas: every exp argument is <= 0, log1p is only called with "
    "arguments >= -1/2 and expm1 only on (-log 2, 0); with the pre-fix guard this fails on all of (-log 2, 0) "
    "(old_guard_out_of_range). LogRepFloat: constructor, +, -, *, /, mixed operators, in-place addition and "
    "min(num/den,1) agree with real arithmetic on the represented values incl. zero weights (-inf) and equal "
    "differences (-inf, not NaN) (val_toLog, ofVal_eq, logSumExp_toLog, logDiffExp_toLog, operators_agree, "
    "mixed_operators_agree, iadd_agrees, weightRatio_agrees); the six comparisons are order-isomorphic "
    "(comparisons_agree). ROUNDING (Props/C20R, 22 theorems about the same model definitions interpreted in the standard "
    "model of floating-point arithmetic: every primitive call and every + / - returns exact*(1+d), |d| <= u, d arbitrary; "
    "LOG_2 itself rounded; no under/overflow; comparisons exact): for ALL real arguments the computed value c is finite and "
    "log1p_exp: |c-L| <= 2u/(1-u) L (val<=0), (3+u)u/(1-u) L (val>0) (log1pExp_rounded_nonpos/_pos, log1pExp_rounded); "
    "log1m_exp, val<0, whichever branch the rounded guard selects: |c-X| <= (3+u)u/(1-u) |X| (log1mExp_rounded), per branch "
    "u(1+u)/(1-u) + u|X| (expm1 branch, log1mExp_rounded_near) and (u(1+u)(1-E/2)/(1-E(1+u)) + u)|X|, E = e^val <= 3/5 "
    "(log1p branch, log1mExp_rounded_far); the guards matter: with the pre-fix guard an admissible rounding gives "
    "absolute error log 2 at val = -log(1+u) (no bound c*u*|X| with 3c*sqrt(u) < log 2) and another one a raised "
    "ValueError (old_guard_loses_accuracy, old_guard_no_small_bound), and log(-expm1(val)) far from 0 can return 0 "
    "(expm1_formula_loses_accuracy_far), and log_sum_exp with the smaller operand as pivot has error u(L - val1) >= u(val2 - val1) "
    "for one admissible rounding (unordered_pivot_loses_accuracy); log_sum_exp: |c-L| <= u|L| + (1+u)(2u/(1-u) S + (1+u)/(1-u) u/(2(1-u))) <= u|L| + 3u, "
    "S = L - max(a,b) (logSumExp_rounded, _simple); log_diff_exp, b<a: |c-D| <= u|D| + (1+u)(rho|G| + (1+rho)u/(1-u)), "
    "rho = (3+u)u/(1-u), G = D - a (logDiffExp_rounded; cancellation between a and G is not hidden: the bound is relative to "
    "max(|D|,|G|) plus an absolute ~u, i.e. a relative error of the weight), equal values give -inf and a<b nan "
    "(logDiffExp_rounded_specials); LogRepFloat + += - * / on finite log-values as corollaries (logRep_add_rounded, "
    "logRep_sub_rounded, logRep_mul_div_rounded); zero weights: log_sum_exp(-inf, b) is b up to one rounding, (-inf, -inf) gives "
    "-inf, a - 0 is a (logSumExp_rounded_zero_weight, logDiffExp_rounded_zero_weight); every sequence x += y1; ...; x += yn of "
    "LogRepFloats with finite log-values: |c - L| <= ((1+u)^n - 1)(max(|l0|,|L|) + 3), L = log(e^l0 + sum e^li) "
    "(iadd_sequence_rounded), x += v with a plain v > 0: u|L| + 3u + (1+u)u|log v|, v = 0 leaves x unchanged "
    "(logRep_iadd_plain_rounded). The same bounds for the definitions generated from the source of utils.py on this run "
    "(Props/C20RS.lean: src_LOG_2_rounded, src_log1p_exp_rounded, src_log1m_exp_rounded, "
    "src_log_sum_exp_rounded, src_log_diff_exp_rounded, src_operators_rounded, through the equalities of Props/C20S). "
    "All theorems full. PARTIAL as a property: 'near machine precision' is proved "
    "in the standard model, not for IEEE binary64 itself: underflow/overflow, the accuracy of libm and the plain-float "
    "fallbacks (mixed operators) are outside the theorems - validated against an 80-digit decimal oracle (<= 4 ulp), and the "
    "measured error of the real code is compared with the proven bound at u = 2^-52 on every explored case."
)
LEVEL_NOTE = (
    "Trusted: Lean kernel + Mathlib reals (axioms propext, Classical.choice, Quot.sound); the XReal semantics of "
    "math.exp/log/log1p/expm1 and IEEE comparisons (Lemmas/LogRepReal.lean); the correspondence harness. The model is "
    "tied to the code by executing the same definitions on doubles (Driver/C20.lean) and comparing exception / branch "
    "(sequence of primitive calls observed by wrapping mici.utils.exp/log/log1p/expm1) / arguments / value; Lean's Float "
    "has no log1p/expm1, they are emulated with Kahan's formulas (few ulp), hence the 16 ulp model tolerance. Float "
    "accuracy (<= 4 ulp vs decimal oracle) and absence of OverflowError/ValueError over the explored grid are testing. "
    "Rounding theorems (Props/C20R): trusted is the standard model itself (Model/LogRepRounded.lean: relative error <= u per "
    "operation, arbitrary otherwise, no under/overflow, exact comparisons) and, for the comparison 'measured error <= proven "
    "bound', the ASSUMPTION that glibc's exp/log/log1p/expm1 are within 1 ulp (relative error <= 2^-52 = the u used; + and - are "
    "correctly rounded, 2^-53) - inputs on which an operation under/overflows are skipped and counted. "
    "Not claimed (intended behaviour, see tests/test_utils.py test_underflow/test_overflow): the plain-float fallbacks "
    "(mixed operators and comparisons with plain numbers go through .val = exp(log_val) rounded to a double, so "
    "LogRepFloat(log_val=-1e6) == 0.0 and LogRepFloat(log_val=1e6) == inf; a - b with a < b returns the plain negative "
    "difference, which is nan = inf - inf when both plain values overflow, e.g. log-values 800 and 801)."
)
TECHNIQUE = (
    "Lean 4 + Mathlib real analysis for a primitive-polymorphic model (value and range theorems from one statement), "
    "Float execution of the same model with call traces vs instrumented implementation, 80-digit decimal oracle; "
    "rounding-error analysis in the standard model of floating-point arithmetic as a third interpretation of the same "
    "definitions (perturbation environment bounded by u), proven bound vs measured error"
)

# --- source translator tie (tools/extractors/pysrc.py, Props/C20S.lean) ---
LEVEL_TEXT += (
    ' SOURCE TIE (Props/C20S.lean): on every run tools/extractors/pysrc.py translates utils.py (log1p_exp, log1m_exp, log_sum_exp, log_diff_exp, LOG_2, LogRepFloat.__init__/.val and all 16 operator/comparison methods) and the multinomial _weight_ratio of transitions.py into shallow Lean definitions over the same record of primitives; 25 theorems src_<name>_eq_model prove generated = model for every interpretation of the primitives (so the model is no longer tied to the code by sampling only), and src_*_eq_ideal / src_no_exception / src_operators_agree / src_iadd_agrees / src_comparisons_agree / src_weight_ratio_agrees restate the main C20 theorems for the generated definitions.'
)
LEVEL_NOTE += (
    " The translator's conventions (documented in its docstring) are trusted: a > b is lt b a, a != b is !(eq a b), an if on a negated test swaps branches, raise is the value err, try: exp(x) except OverflowError: inf is expSat, a ScalarLike operand is split by dynamic type. A function outside the supported subset is emitted as <name>_translated = false and the theorem fails (fail closed). A broken src_* obligation triples the budgets of the failing-input search."
)
TECHNIQUE += ' + source-to-Lean translation of utils.py with generated = model equalities re-proved on every run'
