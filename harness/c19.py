"""C19 — matrix objects behave as immutable values; ``==`` / ``hash`` agree with the dense array.

Lean side: lean/MiciVerif/Model/MatricesCache.lean (lazy-cache model), Model/MatricesEqTable.lean
(table types, hand-written ``denoteParams``, soundness predicate, abstract object model),
Generated/MatrixEq.lean (translator output of tools/extractors/matrix_eq.py for the tree under test),
theorems in Props/C19.lean.  There is no driver: the model's statement ("every observable is a function
of the constructor parameters") is tested directly on the real objects.

Tie to the code (X):
  0. dynamic cross-check of the translator table against live objects (attribute reads of
     ``_check_equality`` / ``_compute_hash`` seen through a spying subclass, ``__dict__`` after
     construction, aliases by object identity, MRO)  -> mismatch = machinery error;
  1. random orders of lazy attribute access / operations on fresh copies: every observable equals the
     value a cold object gives, bitwise; parameter, caller and operand arrays unchanged;
  2. copy / deepcopy / pickle round trips, cold and with filled caches;
  3. in-place write attempts on parameter arrays, caller arrays and returned arrays;
  4. ``==`` / ``hash`` / array consistency over pairs differing in exactly one constructor option.
"""
from __future__ import annotations

import os

# matrices are at most 5 x 5: BLAS threading only costs (and oversubscribes a loaded machine)
for _v in ("OPENBLAS_NUM_THREADS", "OMP_NUM_THREADS", "MKL_NUM_THREADS"):
    os.environ.setdefault(_v, "1")

import copy  # noqa: E402
import importlib.util  # noqa: E402
import json  # noqa: E402
import pickle  # noqa: E402
import signal  # noqa: E402
import subprocess  # noqa: E402
import sys  # noqa: E402

import numpy as np  # noqa: E402

from . import common  # noqa: E402

PROP = "C19"
LEAN_MODULES = ["MiciVerif.Props.C19", "MiciVerif.Props.C19S"]  # C19S: builder B10 (value-semantics machinery)
LEAN_EXTRA = ["MiciVerif.Model.MatricesCache", "MiciVerif.Model.MatricesEqTable"]
GENERATED = ["matrix_eq", "matrix_value_skeleton"]

CORPUS = common.VERIF / "corpus" / "C19"


class _Timeout(Exception):
    pass


def _with_timeout(fn, secs=30.0):
    def handler(signum, frame):  # noqa: ARG001
        raise _Timeout

    old = signal.signal(signal.SIGALRM, handler)
    signal.setitimer(signal.ITIMER_REAL, secs)
    try:
        return fn()
    finally:
        signal.setitimer(signal.ITIMER_REAL, 0)
        signal.signal(signal.SIGALRM, old)


# =======================================================================================
# SUSPECTED_DEFECTS: behaviour of the CLEAN tree that contradicts the property as written.  These are
# reported in the evidence (ctx.count + ctx.extra["suspected_defects"]) but NOT as violations, so that
# the check exits 0 on the clean tree; everything not listed here is strict.
#
# kind "write": an in-place write into the array stored as attribute `attrs` of an instance of
#   `owner` (isinstance test against the named mici.matrices class) succeeds and changes what the
#   matrix computes.  Whatever accessor the array was reached through (the attribute itself, the
#   caller's reference to the constructor argument, `.array`, `.inv.array`, `.eigval`, ...), the write
#   attempt is attributed to the object and attribute that hold the array (`find_owner`), so one entry
#   covers one root cause and nothing else.
# kind "rounding": an observable differs in the last bits (<= 1e-12 relative) depending on which
#   lazily computed attribute was requested first.
# Adjudicated by the lead and now STRICT (fixed in /repo, reverse patches in reverts/): writable cached / parameter
# arrays (b8aab3f), memoised hash pickled (3bf4343), hash of equal values in another dtype (4c732fb), hash of signed
# zeros (56064e5), caller-supplied precomputed LU factors / eigenvalues writeable (37c1ecc, formerly W7/W8).
SUSPECTED_DEFECTS = [
    {
        "id": "W6-block-splits-writable", "kind": "write",
        "owner": "BlockMatrix", "attrs": ["_splits"],
        "why": "private index array np.cumsum(...) used by the block products; reachable only through the private attribute",
        "repro": "m = BlockRowMatrix((DenseRectangularMatrix(np.ones((1, 1))), DenseRectangularMatrix(np.ones((1, 2))))); "
                 "m._splits[0] = 2; m @ np.ones(3) now raises / differs",
    },
    {
        "id": "O1-rounding-level-order-dependence", "kind": "rounding",
        "why": "SquareLowRankUpdateMatrix._construct_transpose / _scalar_multiply hand the memoised capacitance matrix to the "
               "new object only if it has been computed already, otherwise the new object recomputes it: T.inv etc. differ in the "
               "last bits depending on whether capacitance_matrix / inv / log_abs_det was requested before T",
        "repro": "two equal SquareLowRankUpdateMatrix a, b; b.capacitance_matrix; a.T.inv.array != b.T.inv.array bitwise (diff ~1e-18)",
    },
]


def find_owner(root, arr):
    """(owner object, attribute path) of the Matrix attribute that holds `arr` (or memory shared with
    it), searching breadth first from `root` through parameters and cached sub-objects."""
    import mici.matrices as mm

    seen, queue = set(), [root]
    while queue:
        m = queue.pop(0)
        if id(m) in seen:
            continue
        seen.add(id(m))
        nxt = []
        for k, v in list(m.__dict__.items()):
            items = [(k, v)] if not isinstance(v, tuple | list) else [(f"{k}[{i}]", x) for i, x in enumerate(v)]
            for path, x in items:
                if isinstance(x, np.ndarray):
                    if x is arr or (x.size and arr.size and np.shares_memory(x, arr)):
                        return m, path
                elif isinstance(x, mm.Matrix):
                    nxt.append(x)
        queue += nxt
    return None, None


def suspected_write(owner, attr, root=None, spec=None):
    import mici.matrices as mm

    if owner is None:
        return None
    for d in SUSPECTED_DEFECTS:
        if d["kind"] == "write" and attr in d["attrs"] and isinstance(owner, getattr(mm, d["owner"])):
            if "given_arg" in d:
                # only the array the CALLER handed to the constructor of the object under test
                if not (owner is root and type(owner).__name__ == d["owner"] and spec is not None
                        and spec["a"].get(d["given_arg"]) is not None):
                    continue
            return d["id"]
    return None


# =======================================================================================
# specs: JSON-able descriptions of constructor calls


def A(x):
    x = np.asarray(x)
    if x.dtype.kind == "f":
        x = x + 0.0  # no negative zeros in generated inputs (see suspected defect H3)
    return {"arr": x.tolist(), "dt": str(x.dtype), "shape": list(x.shape)}


def S(c, **a):
    return {"c": c, "a": a}


def T(*xs):
    return {"tuple": list(xs)}


def _conv(v, log, path):
    if isinstance(v, dict):
        if "arr" in v:
            a = np.array(v["arr"], dtype=v["dt"]).reshape(v["shape"])
            if log is not None:
                log.append((path, a))
            return a
        if "c" in v:
            m = make(v, log, path + ".")
            if log is not None:
                log.append((path, (m, v)))
            return m
        if "tuple" in v:
            return tuple(_conv(x, log, f"{path}[{i}]") for i, x in enumerate(v["tuple"]))
        raise common.MachineryError(f"bad spec value {v!r}")
    return v


def pristine_arrays(spec, path=""):
    """path -> bytes of every array of `spec` as the caller built it, BEFORE any constructor saw it
    (same paths as `make` logs): a constructor that modifies its argument is a violation too (seed C19-3)."""
    out = {}

    def walk(v, pth):
        if isinstance(v, dict):
            if "arr" in v:
                out[pth] = np.array(v["arr"], dtype=v["dt"]).reshape(v["shape"]).tobytes()
            elif "c" in v:
                for k, w in v["a"].items():
                    walk(w, f"{pth}.{k}")
            elif "tuple" in v:
                for i, x in enumerate(v["tuple"]):
                    walk(x, f"{pth}[{i}]")

    for k, w in spec["a"].items():
        walk(w, f"{path}{k}")
    return out


def make(spec, log=None, path=""):
    """Construct the object described by `spec` (fresh arrays every time)."""
    import mici.matrices as mm

    cls = getattr(mm, spec["c"])
    kwargs = {k: _conv(v, log, f"{path}{k}") for k, v in spec["a"].items()}
    return cls(**kwargs)


# ---------------------------------------------------------------------------------------
# well-conditioned parameter generators (dyadic entries wherever exactness is cheap)


def dy(rng, *shape, lo=-4, hi=4, den=4.0):
    return rng.integers(lo, hi + 1, size=shape) / den


def tri_arr(rng, n, lower=True):
    t = np.tril(dy(rng, n, n), -1)
    t[np.diag_indices(n)] = rng.integers(4, 9, n) / 4.0
    return t if lower else t.T.copy()


def pd_arr(rng, n):
    f = tri_arr(rng, n)
    return f @ f.T, f


def sq_arr(rng, n):
    a = dy(rng, n, n)
    a[np.diag_indices(n)] = (n + 1.0) * rng.choice([-1.0, 1.0], n)
    return a


def sym_arr(rng, n):
    a = dy(rng, n, n, lo=-2, hi=2)
    a = a + a.T
    a[np.diag_indices(n)] = (n + 1.0) * rng.choice([-1.0, 1.0], n)
    return a


def orth_arr(rng, n):
    if n == 1 or rng.random() < 0.25:
        p = np.eye(n)[rng.permutation(n)]
        return p * rng.choice([-1.0, 1.0], n)
    q, _ = np.linalg.qr(rng.standard_normal((n, n)))
    return q


def pos_vec(rng, n):
    return rng.integers(2, 9, n) / 4.0


def mixed_vec(rng, n):
    return pos_vec(rng, n) * rng.choice([-1.0, 1.0], n)


def split_sizes(rng, n):
    if n == 1:
        return [1]
    k = int(rng.integers(1, n))
    return [k, n - k]


# sub-matrix generators -------------------------------------------------------------------


def g_pd(rng, n, depth=0):
    """Spec of some PositiveDefiniteMatrix of size n."""
    k = int(rng.integers(0, 7 if depth == 0 and n >= 2 else 6))
    if k == 0:
        return S("IdentityMatrix", size=n)
    if k == 1:
        return S("PositiveScaledIdentityMatrix", scalar=float(rng.integers(2, 9) / 4.0), size=n)
    if k == 2:
        return S("PositiveDiagonalMatrix", diagonal=A(pos_vec(rng, n)))
    if k == 3:
        return S("TriangularFactoredPositiveDefiniteMatrix", factor=A(tri_arr(rng, n)), factor_is_lower=True)
    if k == 4:
        return S("DensePositiveDefiniteMatrix", array=A(pd_arr(rng, n)[0]), factor=None)
    if k == 5:
        return S("EigendecomposedPositiveDefiniteMatrix", eigvec=A(orth_arr(rng, n)), eigval=A(pos_vec(rng, n)))
    return S("PositiveDefiniteBlockDiagonalMatrix", blocks=T(*[g_pd(rng, m, depth + 1) for m in split_sizes(rng, n)]))


def g_pd_diff(rng, n):
    """PositiveDefinite and Differentiable."""
    k = int(rng.integers(0, 4))
    if k == 0:
        return S("PositiveScaledIdentityMatrix", scalar=float(rng.integers(2, 9) / 4.0), size=n)
    if k == 1:
        return S("PositiveDiagonalMatrix", diagonal=A(pos_vec(rng, n)))
    if k == 2:
        return S("TriangularFactoredPositiveDefiniteMatrix", factor=A(tri_arr(rng, n)), factor_is_lower=True)
    return S("DensePositiveDefiniteMatrix", array=A(pd_arr(rng, n)[0]), factor=None)


def g_sym(rng, n, depth=0):
    k = int(rng.integers(0, 6))
    if k == 0:
        return S("DenseSymmetricMatrix", array=A(sym_arr(rng, n)), eigvec=None, eigval=None)
    if k == 1:
        return S("DiagonalMatrix", diagonal=A(mixed_vec(rng, n)))
    if k == 2:
        return S("ScaledIdentityMatrix", scalar=float(-rng.integers(2, 9) / 4.0), size=n)
    if k == 3:
        return S("EigendecomposedSymmetricMatrix", eigvec=A(orth_arr(rng, n)), eigval=A(mixed_vec(rng, n)))
    if k == 4:
        return S("TriangularFactoredDefiniteMatrix", factor=A(tri_arr(rng, n)), sign=-1, factor_is_lower=True)
    return g_pd(rng, n, depth + 1)


def g_inv(rng, n, depth=0):
    """Some InvertibleMatrix of size n."""
    k = int(rng.integers(0, 7))
    if k == 0:
        return S("DenseSquareMatrix", array=A(sq_arr(rng, n)), lu_and_piv=None, lu_transposed=None)
    if k == 1:
        lower = bool(rng.integers(2))
        return S("TriangularMatrix", array=A(tri_arr(rng, n, lower)), lower=lower, make_triangular=True)
    if k == 2:
        lower = bool(rng.integers(2))
        return S("InverseTriangularMatrix", inverse_array=A(tri_arr(rng, n, lower)), lower=lower, make_triangular=True)
    if k == 3:
        return S("OrthogonalMatrix", array=A(orth_arr(rng, n)))
    if k == 4:
        return S("ScaledOrthogonalMatrix", scalar=float(rng.choice([-2.0, 0.5, 1.5])), orth_array=A(orth_arr(rng, n)))
    if k == 5 and depth == 0:
        return S("SquareBlockDiagonalMatrix", blocks=T(*[g_inv(rng, m, depth + 1) for m in split_sizes(rng, n)]))
    return g_sym(rng, n, depth + 1)


def g_rect(rng, n, m):
    k = int(rng.integers(0, 3))
    if k == 0 or m == 1:
        return S("DenseRectangularMatrix", array=A(dy(rng, n, m)))
    if k == 1:
        m1 = int(rng.integers(1, m))
        return S("BlockRowMatrix", blocks=T(S("DenseRectangularMatrix", array=A(dy(rng, n, m1))),
                                            S("DenseRectangularMatrix", array=A(dy(rng, n, m - m1)))))
    if n >= 2:
        n1 = int(rng.integers(1, n))
        return S("BlockColumnMatrix", blocks=T(S("DenseRectangularMatrix", array=A(dy(rng, n1, m))),
                                               S("DenseRectangularMatrix", array=A(dy(rng, n - n1, m)))))
    return S("DenseRectangularMatrix", array=A(dy(rng, n, m)))


# top-level variants ----------------------------------------------------------------------


def _lu(a):
    import scipy.linalg as sla

    lu, piv = sla.lu_factor(a)
    return T(A(lu), A(piv))


def _inv_tri(f, lower):
    import scipy.linalg as sla

    return sla.solve_triangular(f, np.eye(f.shape[0]), lower=lower)


def _small_factor(rng, n, k):
    """Small dyadic n x k factor of full column rank (precondition of the low-rank square root)."""
    for _ in range(200):
        u = dy(rng, n, k, lo=-2, hi=2, den=8.0)
        if np.linalg.svd(u, compute_uv=False).min() >= 0.1:
            return u
    raise common.MachineryError("could not generate a full-rank factor")


def _big_pd(rng, n, kind):
    """Positive definite with smallest eigenvalue >= 2 (so that a downdate by a small factor stays PD)."""
    if kind == 0:
        return S("PositiveDiagonalMatrix", diagonal=A(pos_vec(rng, n) + 2.0))
    if kind == 1:
        a, _ = pd_arr(rng, n)
        return S("DensePositiveDefiniteMatrix", array=A(a + 2.0 * np.eye(n)), factor=None)
    if kind == 2:
        return S("PositiveScaledIdentityMatrix", scalar=float(rng.integers(8, 17) / 4.0), size=n)
    return S("EigendecomposedPositiveDefiniteMatrix", eigvec=A(orth_arr(rng, n)), eigval=A(pos_vec(rng, n) + 2.0))


def _capacitance(spec_cls, rng, left, right, square, inner, sign):
    """Dense array of inner.inv + sign * right @ square.inv @ left, from specs."""
    sq = make(square).array
    inn = np.eye(left.shape[1]) if inner is None else make(inner).array
    return np.linalg.inv(inn) + sign * right @ np.linalg.solve(sq, left)


def variants():
    """name -> generator(rng, n) -> spec.  Every concrete class and constructor option."""
    V = {}

    # products
    def mp_rect(rng, n):
        m, k = int(rng.integers(1, 4)), int(rng.integers(1, 4))
        return S("MatrixProduct", matrices=T(g_rect(rng, n, m), g_rect(rng, m, k)), check_shapes=True)

    def mp_mixed(rng, n):
        m = int(rng.integers(1, 4))
        return S("MatrixProduct", matrices=T(g_inv(rng, n), g_rect(rng, n, m), g_pd(rng, m)), check_shapes=False)

    def mp_nested(rng, n):
        m = int(rng.integers(1, 4))
        inner = S("MatrixProduct", matrices=T(g_rect(rng, n, m), g_rect(rng, m, n)), check_shapes=True)
        return S("MatrixProduct", matrices=T(inner, S("DiagonalMatrix", diagonal=A(mixed_vec(rng, n)))), check_shapes=True)

    V["MatrixProduct/rect"] = mp_rect
    V["MatrixProduct/mixed-nocheck"] = mp_mixed
    V["MatrixProduct/nested"] = mp_nested

    def smp(rng, n):
        inner = S("SquareMatrixProduct", matrices=T(g_inv(rng, n), g_sym(rng, n)), check_shapes=True)
        return S("SquareMatrixProduct", matrices=T(g_sym(rng, n), inner), check_shapes=bool(rng.integers(2)))

    V["SquareMatrixProduct"] = smp

    def imp(rng, n):
        return S("InvertibleMatrixProduct", matrices=T(g_inv(rng, n), g_pd(rng, n), g_inv(rng, n)),
                 check_shapes=bool(rng.integers(2)))

    V["InvertibleMatrixProduct"] = imp

    # identity family
    V["IdentityMatrix/sized"] = lambda rng, n: S("IdentityMatrix", size=n)
    V["IdentityMatrix/implicit"] = lambda rng, n: S("IdentityMatrix", size=None)
    V["ScaledIdentityMatrix/pos"] = lambda rng, n: S("ScaledIdentityMatrix", scalar=float(rng.integers(2, 9) / 4.0), size=n)
    V["ScaledIdentityMatrix/neg"] = lambda rng, n: S("ScaledIdentityMatrix", scalar=float(-rng.integers(2, 9) / 4.0), size=n)
    V["ScaledIdentityMatrix/implicit"] = lambda rng, n: S("ScaledIdentityMatrix", scalar=float(rng.choice([-2.0, 0.5, 4.0])), size=None)
    V["PositiveScaledIdentityMatrix/sized"] = lambda rng, n: S("PositiveScaledIdentityMatrix", scalar=float(rng.integers(2, 9) / 4.0), size=n)
    V["PositiveScaledIdentityMatrix/implicit"] = lambda rng, n: S("PositiveScaledIdentityMatrix", scalar=float(rng.integers(2, 9) / 4.0), size=None)
    V["DiagonalMatrix"] = lambda rng, n: S("DiagonalMatrix", diagonal=A(mixed_vec(rng, n)))
    V["PositiveDiagonalMatrix"] = lambda rng, n: S("PositiveDiagonalMatrix", diagonal=A(pos_vec(rng, n)))

    # triangular
    for lower in (True, False):
        for mk in (True, False):
            def tri(rng, n, lower=lower, mk=mk):
                a = tri_arr(rng, n, lower)
                if mk:  # garbage in the ignored triangle must be zeroed by the constructor
                    a = a + (np.triu(dy(rng, n, n), 1) if lower else np.tril(dy(rng, n, n), -1))
                return S("TriangularMatrix", array=A(a), lower=lower, make_triangular=mk)

            def itri(rng, n, lower=lower, mk=mk):
                a = tri_arr(rng, n, lower)
                if mk:
                    a = a + (np.triu(dy(rng, n, n), 1) if lower else np.tril(dy(rng, n, n), -1))
                return S("InverseTriangularMatrix", inverse_array=A(a), lower=lower, make_triangular=mk)

            tag = ("lower" if lower else "upper") + ("-make" if mk else "-asis")
            V[f"TriangularMatrix/{tag}"] = tri
            V[f"InverseTriangularMatrix/{tag}"] = itri

    # triangular factored
    for sign in (1, -1):
        for lower in (True, False):
            V[f"TriangularFactoredDefiniteMatrix/array-{'lower' if lower else 'upper'}-sign{sign}"] = (
                lambda rng, n, sign=sign, lower=lower: S(
                    "TriangularFactoredDefiniteMatrix", factor=A(tri_arr(rng, n, lower) + (0 if not lower else np.triu(dy(rng, n, n), 1))),
                    sign=sign, factor_is_lower=lower))
            V[f"TriangularFactoredDefiniteMatrix/tri-{'lower' if lower else 'upper'}-sign{sign}"] = (
                lambda rng, n, sign=sign, lower=lower: S(
                    "TriangularFactoredDefiniteMatrix",
                    factor=S("TriangularMatrix", array=A(tri_arr(rng, n, lower)), lower=lower, make_triangular=False),
                    sign=sign, factor_is_lower=None))
        V[f"TriangularFactoredDefiniteMatrix/invtri-sign{sign}"] = (
            lambda rng, n, sign=sign: (lambda lower: S(
                "TriangularFactoredDefiniteMatrix",
                factor=S("InverseTriangularMatrix", inverse_array=A(tri_arr(rng, n, lower)), lower=lower, make_triangular=True),
                sign=sign, factor_is_lower=None))(bool(rng.integers(2))))
    for lower in (True, False):
        V[f"TriangularFactoredPositiveDefiniteMatrix/array-{'lower' if lower else 'upper'}"] = (
            lambda rng, n, lower=lower: S("TriangularFactoredPositiveDefiniteMatrix", factor=A(tri_arr(rng, n, lower)), factor_is_lower=lower))
    V["TriangularFactoredPositiveDefiniteMatrix/tri"] = lambda rng, n: (lambda lower: S(
        "TriangularFactoredPositiveDefiniteMatrix",
        factor=S("TriangularMatrix", array=A(tri_arr(rng, n, lower)), lower=lower, make_triangular=True), factor_is_lower=True))(bool(rng.integers(2)))
    V["TriangularFactoredPositiveDefiniteMatrix/invtri"] = lambda rng, n: (lambda lower: S(
        "TriangularFactoredPositiveDefiniteMatrix",
        factor=S("InverseTriangularMatrix", inverse_array=A(tri_arr(rng, n, lower)), lower=lower, make_triangular=False), factor_is_lower=True))(bool(rng.integers(2)))

    # dense definite
    def dd(rng, n, posdef, fac):
        a, f = pd_arr(rng, n)
        sgn = 1.0 if posdef else -1.0
        if fac == "none":
            fs = None
        elif fac == "tri":
            fs = S("TriangularMatrix", array=A(f), lower=True, make_triangular=False)
        else:
            fs = S("InverseTriangularMatrix", inverse_array=A(_inv_tri(f, True)), lower=True, make_triangular=False)
        return S("DenseDefiniteMatrix", array=A(sgn * a), factor=fs, is_posdef=posdef)

    for posdef in (True, False):
        for fac in ("none", "tri", "invtri"):
            V[f"DenseDefiniteMatrix/{'pos' if posdef else 'neg'}-factor-{fac}"] = (
                lambda rng, n, posdef=posdef, fac=fac: dd(rng, n, posdef, fac))

    def dpd(rng, n, fac):
        a, f = pd_arr(rng, n)
        fs = None if fac == "none" else S("TriangularMatrix", array=A(f), lower=True, make_triangular=False)
        return S("DensePositiveDefiniteMatrix", array=A(a), factor=fs)

    V["DensePositiveDefiniteMatrix/factor-none"] = lambda rng, n: dpd(rng, n, "none")
    V["DensePositiveDefiniteMatrix/factor-tri"] = lambda rng, n: dpd(rng, n, "tri")

    def dpdp(rng, n, rect_kind, pd_kind):
        n = min(n, 4)
        m = n + int(rng.integers(1, 3))
        r = np.hstack([np.eye(n) * 2.0, dy(rng, n, m - n)])  # full row rank
        r = r[:, rng.permutation(m)]
        if rect_kind == "array":
            rs = A(r)
        elif rect_kind == "dense":
            rs = S("DenseRectangularMatrix", array=A(r))
        else:
            rs = S("BlockRowMatrix", blocks=T(S("DenseRectangularMatrix", array=A(r[:, :n])),
                                              S("DenseRectangularMatrix", array=A(r[:, n:]))))
        ps = None if pd_kind == "none" else g_pd(rng, m)
        return S("DensePositiveDefiniteProductMatrix", rect_matrix=rs, pos_def_matrix=ps)

    for rk in ("array", "dense", "blockrow"):
        for pk in ("none", "given"):
            V[f"DensePositiveDefiniteProductMatrix/{rk}-{pk}"] = lambda rng, n, rk=rk, pk=pk: dpdp(rng, n, rk, pk)

    # dense square / LU
    def dsq(rng, n, mode):
        a = sq_arr(rng, n)
        if mode == "none":
            return S("DenseSquareMatrix", array=A(a), lu_and_piv=None, lu_transposed=None)
        if mode == "lu":
            return S("DenseSquareMatrix", array=A(a), lu_and_piv=_lu(a), lu_transposed=False)
        return S("DenseSquareMatrix", array=A(a), lu_and_piv=_lu(a.T), lu_transposed=True)

    for mode in ("none", "lu", "luT"):
        V[f"DenseSquareMatrix/{mode}"] = lambda rng, n, mode=mode: dsq(rng, n, mode)

    def ilu(rng, n, tr):
        a = sq_arr(rng, n)
        return S("InverseLUFactoredSquareMatrix", inv_array=A(a), inv_lu_and_piv=_lu(a.T if tr else a), inv_lu_transposed=tr)

    V["InverseLUFactoredSquareMatrix/plain"] = lambda rng, n: ilu(rng, n, False)
    V["InverseLUFactoredSquareMatrix/transposed"] = lambda rng, n: ilu(rng, n, True)

    def dsym(rng, n, mode):
        a = sym_arr(rng, n)
        if mode == "none":
            return S("DenseSymmetricMatrix", array=A(a), eigvec=None, eigval=None)
        w, q = np.linalg.eigh(a)
        if mode == "array":
            return S("DenseSymmetricMatrix", array=A(a), eigvec=A(q), eigval=A(w))
        # a valid eigendecomposition that is NOT the one `eigh` returns (descending order), supplied
        # completely or only in part: whatever the class does with a partial one, every property
        # must be stable under repetition and independent of the access order (seed C19-1)
        wd, qd = w[::-1].copy(), q[:, ::-1].copy()
        if mode == "desc-both":
            return S("DenseSymmetricMatrix", array=A(a), eigvec=A(qd), eigval=A(wd))
        if mode == "desc-vec-only":
            return S("DenseSymmetricMatrix", array=A(a), eigvec=A(qd), eigval=None)
        if mode == "desc-orth-only":
            return S("DenseSymmetricMatrix", array=A(a), eigvec=S("OrthogonalMatrix", array=A(qd)), eigval=None)
        if mode == "desc-val-only":
            return S("DenseSymmetricMatrix", array=A(a), eigvec=None, eigval=A(wd))
        return S("DenseSymmetricMatrix", array=A(a), eigvec=S("OrthogonalMatrix", array=A(q)), eigval=A(w))

    for mode in ("none", "array", "orth", "desc-both", "desc-vec-only", "desc-orth-only", "desc-val-only"):
        V[f"DenseSymmetricMatrix/eig-{mode}"] = lambda rng, n, mode=mode: dsym(rng, n, mode)

    V["OrthogonalMatrix"] = lambda rng, n: S("OrthogonalMatrix", array=A(orth_arr(rng, n)))
    V["ScaledOrthogonalMatrix"] = lambda rng, n: S(
        "ScaledOrthogonalMatrix", scalar=float(rng.choice([-2.0, 0.5, 1.5, 4.0])), orth_array=A(orth_arr(rng, n)))
    for ek in ("array", "orth"):
        def eds(rng, n, ek=ek, pos=False):
            q = orth_arr(rng, n)
            return S("EigendecomposedPositiveDefiniteMatrix" if pos else "EigendecomposedSymmetricMatrix",
                     eigvec=A(q) if ek == "array" else S("OrthogonalMatrix", array=A(q)),
                     eigval=A(pos_vec(rng, n) if pos else mixed_vec(rng, n)))

        V[f"EigendecomposedSymmetricMatrix/{ek}"] = eds
        V[f"EigendecomposedPositiveDefiniteMatrix/{ek}"] = lambda rng, n, eds=eds: eds(rng, n, pos=True)
    V["SoftAbsRegularizedPositiveDefiniteMatrix"] = lambda rng, n: S(
        "SoftAbsRegularizedPositiveDefiniteMatrix", symmetric_array=A(sym_arr(rng, n)), softabs_coeff=float(rng.choice([0.5, 1.0, 2.0])))

    # blocks
    def blocks_of(rng, n, g):
        sizes = split_sizes(rng, n) if n < 4 else [1, n - 3, 2]
        return T(*[g(rng, m) for m in sizes])

    V["SquareBlockDiagonalMatrix/mixed"] = lambda rng, n: S("SquareBlockDiagonalMatrix", blocks=blocks_of(rng, n, g_inv))
    V["SquareBlockDiagonalMatrix/nested"] = lambda rng, n: S("SquareBlockDiagonalMatrix", blocks=T(
        S("SquareBlockDiagonalMatrix", blocks=blocks_of(rng, n, g_inv)), g_inv(rng, 1)))
    V["SymmetricBlockDiagonalMatrix"] = lambda rng, n: S("SymmetricBlockDiagonalMatrix", blocks=blocks_of(rng, n, g_sym))
    V["PositiveDefiniteBlockDiagonalMatrix/differentiable"] = lambda rng, n: S(
        "PositiveDefiniteBlockDiagonalMatrix", blocks=blocks_of(rng, n, g_pd_diff))
    V["PositiveDefiniteBlockDiagonalMatrix/mixed"] = lambda rng, n: S(
        "PositiveDefiniteBlockDiagonalMatrix", blocks=blocks_of(rng, n, g_pd))
    V["DenseRectangularMatrix"] = lambda rng, n: S("DenseRectangularMatrix", array=A(dy(rng, n, int(rng.integers(1, 5)))))

    def brow(rng, n):
        return S("BlockRowMatrix", blocks=T(g_rect(rng, n, int(rng.integers(1, 3))), g_inv(rng, n), g_rect(rng, n, 1)))

    def bcol(rng, n):
        return S("BlockColumnMatrix", blocks=T(g_rect(rng, int(rng.integers(1, 3)), n), g_sym(rng, n), g_rect(rng, 1, n)))

    V["BlockRowMatrix"] = brow
    V["BlockColumnMatrix"] = bcol

    # low-rank updates
    def sq_lr(rng, n, fk, ik, cap, sign):
        k = int(rng.integers(1, min(n, 2) + 1))
        left, right = _small_factor(rng, n, k), _small_factor(rng, k, n)
        sqk = int(rng.integers(0, 3))
        if sqk == 0:
            square = S("DenseSquareMatrix", array=A(sq_arr(rng, n)), lu_and_piv=None, lu_transposed=None)
        elif sqk == 1:
            square = S("DiagonalMatrix", diagonal=A(mixed_vec(rng, n) * 2))
        else:
            lower = bool(rng.integers(2))
            square = S("TriangularMatrix", array=A(tri_arr(rng, n, lower) * 2), lower=lower, make_triangular=True)
        inner = None if ik == "none" else (
            S("DiagonalMatrix", diagonal=A(mixed_vec(rng, k))) if rng.integers(2) else
            S("DenseSquareMatrix", array=A(sq_arr(rng, k) / (k + 1.0)), lu_and_piv=None, lu_transposed=None))
        caps = None
        if cap:
            caps = S("DenseSquareMatrix", array=A(_capacitance("sq", rng, left, right, square, inner, sign)), lu_and_piv=None, lu_transposed=None)
        wrap = (lambda x: A(x)) if fk == "array" else (lambda x: S("DenseRectangularMatrix", array=A(x)))
        return S("SquareLowRankUpdateMatrix", left_factor_matrix=wrap(left), right_factor_matrix=wrap(right),
                 square_matrix=square, inner_square_matrix=inner, capacitance_matrix=caps, sign=sign)

    def sym_lr(rng, n, fk, ik, cap, sign):
        k = int(rng.integers(1, min(n, 2) + 1))
        u = _small_factor(rng, n, k)
        sk = int(rng.integers(0, 3))
        if sk == 0:
            sym = S("DenseSymmetricMatrix", array=A(sym_arr(rng, n)), eigvec=None, eigval=None)
        elif sk == 1:
            sym = S("DiagonalMatrix", diagonal=A(mixed_vec(rng, n) * 2))
        else:
            sym = _big_pd(rng, n, int(rng.integers(0, 4)))
        inner = None if ik == "none" else (
            S("DiagonalMatrix", diagonal=A(mixed_vec(rng, k))) if rng.integers(2) else
            S("DenseSymmetricMatrix", array=A(sym_arr(rng, k) / (k + 1.0)), eigvec=None, eigval=None))
        caps = None
        if cap:
            c = _capacitance("sym", rng, u, u.T, sym, inner, sign)
            caps = S("DenseSymmetricMatrix", array=A((c + c.T) / 2), eigvec=None, eigval=None)
        fs = A(u) if fk == "array" else (S("DenseRectangularMatrix", array=A(u)) if fk == "dense" else g_rect_fixed(rng, u))
        return S("SymmetricLowRankUpdateMatrix", factor_matrix=fs, symmetric_matrix=sym,
                 inner_symmetric_matrix=inner, capacitance_matrix=caps, sign=sign)

    def g_rect_fixed(rng, u):
        n = u.shape[0]
        if n >= 2:
            return S("BlockColumnMatrix", blocks=T(S("DenseRectangularMatrix", array=A(u[:1])), S("DenseRectangularMatrix", array=A(u[1:]))))
        return S("DenseRectangularMatrix", array=A(u))

    def pd_lr(rng, n, fk, ik, cap, sign):
        for _ in range(50):
            k = int(rng.integers(1, min(n, 2) + 1))
            u = _small_factor(rng, n, k)
            pdm = _big_pd(rng, n, int(rng.integers(0, 4)))
            inner = None if ik == "none" else (
                S("PositiveDiagonalMatrix", diagonal=A(pos_vec(rng, k) / 2)) if rng.integers(2) else
                S("DensePositiveDefiniteMatrix", array=A(pd_arr(rng, k)[0] / 4), factor=None))
            inn = np.eye(k) if inner is None else make(inner).array
            full = make(pdm).array + sign * u @ inn @ u.T
            if np.linalg.eigvalsh(full).min() > 0.5:
                break
        else:
            raise common.MachineryError("could not generate a positive definite low-rank update")
        caps = None
        if cap:
            c = _capacitance("pd", rng, u, u.T, pdm, inner, sign)
            caps = S("DensePositiveDefiniteMatrix", array=A((c + c.T) / 2), factor=None)
        fs = A(u) if fk == "array" else (S("DenseRectangularMatrix", array=A(u)) if fk == "dense" else g_rect_fixed(rng, u))
        return S("PositiveDefiniteLowRankUpdateMatrix", factor_matrix=fs, pos_def_matrix=pdm,
                 inner_pos_def_matrix=inner, capacitance_matrix=caps, sign=sign)

    # low-rank updates nested inside products / blocks / other low-rank updates
    V["InvertibleMatrixProduct/with-lowrank"] = lambda rng, n: S(
        "InvertibleMatrixProduct", matrices=T(pd_lr(rng, n, "dense", "given", False, -1), g_inv(rng, n), sq_lr(rng, n, "array", "none", False, 1)),
        check_shapes=True)
    V["PositiveDefiniteBlockDiagonalMatrix/with-lowrank"] = lambda rng, n: S(
        "PositiveDefiniteBlockDiagonalMatrix", blocks=T(pd_lr(rng, n, "array", "none", False, 1), g_pd_diff(rng, 1)))
    V["SymmetricBlockDiagonalMatrix/with-lowrank"] = lambda rng, n: S(
        "SymmetricBlockDiagonalMatrix", blocks=T(g_sym(rng, 1), sym_lr(rng, n, "dense", "given", True, -1)))

    def pd_lr_nested(rng, n):
        k = 1
        u = _small_factor(rng, n, k)
        base = pd_lr(rng, n, "array", "none", False, 1)
        return S("PositiveDefiniteLowRankUpdateMatrix", factor_matrix=A(u), pos_def_matrix=base,
                 inner_pos_def_matrix=None, capacitance_matrix=None, sign=1)

    V["PositiveDefiniteLowRankUpdateMatrix/nested-in-lowrank"] = pd_lr_nested

    for sign in (1, -1):
        for ik in ("none", "given"):
            for cap in (False, True):
                tag = f"sign{sign}-inner-{ik}-cap-{'given' if cap else 'none'}"
                V[f"SquareLowRankUpdateMatrix/array-{tag}"] = lambda rng, n, ik=ik, cap=cap, sign=sign: sq_lr(rng, n, "array", ik, cap, sign)
                V[f"SquareLowRankUpdateMatrix/dense-{tag}"] = lambda rng, n, ik=ik, cap=cap, sign=sign: sq_lr(rng, n, "dense", ik, cap, sign)
                for fk in ("array", "dense", "block"):
                    V[f"SymmetricLowRankUpdateMatrix/{fk}-{tag}"] = lambda rng, n, fk=fk, ik=ik, cap=cap, sign=sign: sym_lr(rng, n, fk, ik, cap, sign)
                    V[f"PositiveDefiniteLowRankUpdateMatrix/{fk}-{tag}"] = lambda rng, n, fk=fk, ik=ik, cap=cap, sign=sign: pd_lr(rng, n, fk, ik, cap, sign)
    return V


# =======================================================================================
# observables


def canon(v):
    """Canonical, comparable, JSON-free form of an operation result (bitwise for arrays)."""
    import mici.matrices as mm

    if isinstance(v, mm.Matrix):
        try:
            arr = canon(v.array)
        except Exception as e:  # noqa: BLE001
            arr = ("raises", type(e).__name__)
        return ("M", type(v).__name__, tuple(v.shape), arr)
    if isinstance(v, np.ndarray):
        return ("a", v.dtype.str, v.shape, np.ascontiguousarray(v).tobytes())
    if isinstance(v, np.generic):
        return ("s", v.dtype.str, v.tobytes())
    if isinstance(v, float):
        return ("f", v.hex())
    if isinstance(v, tuple | list):
        return ("t", tuple(canon(x) for x in v))
    if isinstance(v, bool | int | str) or v is None:
        return ("p", v)
    return ("r", repr(v))


def cmp_canon(a, b):
    """'same' (bitwise) | 'close' (same structure, numbers within 1e-12 relative) | 'diff'."""
    if a == b:
        return "same"
    if type(a) is not type(b) or not isinstance(a, tuple) or len(a) != len(b) or a[0] != b[0]:
        return "diff"
    tag = a[0]
    if tag == "a":
        if a[1] != b[1] or a[2] != b[2]:
            return "diff"
        x = np.frombuffer(a[3], dtype=a[1]).astype(float)
        y = np.frombuffer(b[3], dtype=b[1]).astype(float)
        return _num_close(x, y)
    if tag == "s":
        if a[1] != b[1]:
            return "diff"
        return _num_close(np.frombuffer(a[2], dtype=a[1]).astype(float), np.frombuffer(b[2], dtype=b[1]).astype(float))
    if tag == "f":
        return _num_close(np.array([float.fromhex(a[1])]), np.array([float.fromhex(b[1])]))
    if tag == "t":
        if len(a[1]) != len(b[1]):
            return "diff"
        rs = [cmp_canon(x, y) for x, y in zip(a[1], b[1], strict=True)]
        return "diff" if "diff" in rs else ("close" if "close" in rs else "same")
    if tag == "M":
        if a[1] != b[1] or a[2] != b[2]:
            return "diff"
        return cmp_canon(a[3], b[3])
    return "diff"


def _num_close(x, y):
    if x.shape != y.shape:
        return "diff"
    if not np.array_equal(np.isnan(x), np.isnan(y)):
        return "diff"
    x, y = np.nan_to_num(x), np.nan_to_num(y)
    scale = max(1.0, float(np.max(np.abs(x))) if x.size else 1.0)
    return "close" if np.all(np.abs(x - y) <= 1e-12 * scale) else "diff"


class Env:
    """Operands used by the operations; rebuilt (fresh arrays) for every evaluation run."""

    def __init__(self, shape, seed):
        import mici.matrices as mm

        rng = np.random.Generator(np.random.Philox(key=[int(seed), 99]))
        r = 3 if shape[0] is None else shape[0]
        c = 3 if shape[1] is None else shape[1]
        self.v = dy(rng, c)
        self.B = dy(rng, c, 2)
        self.u = dy(rng, r)
        self.C = dy(rng, 2, r)
        self.w = dy(rng, r) + 0.125
        self.Mr = mm.DenseRectangularMatrix(dy(rng, c, 2))
        self.Ml = mm.DenseRectangularMatrix(dy(rng, 2, r))
        self.Msq = mm.DiagonalMatrix(pos_vec(rng, r)) if r == c else None
        self.arrays = {"v": self.v, "B": self.B, "u": self.u, "C": self.C, "w": self.w,
                       "Mr._array": self.Mr._array, "Ml._array": self.Ml._array}  # noqa: SLF001
        if self.Msq is not None:
            self.arrays["Msq._diagonal"] = self.Msq._diagonal  # noqa: SLF001
        self.snap = {k: a.tobytes() for k, a in self.arrays.items()}

    def changed(self):
        return [k for k, a in self.arrays.items() if a.tobytes() != self.snap[k]]


def op_table(obj):
    """Applicable operations for obj: name -> fn(obj, env)."""
    import mici.matrices as mm

    ops = {
        "shape": lambda o, e: o.shape,
        "repr": lambda o, e: repr(o),
        "array": lambda o, e: o.array,
        "asarray": lambda o, e: np.asarray(o),
        "T": lambda o, e: o.T,
        "T.T": lambda o, e: o.T.T,
        "diagonal": lambda o, e: o.diagonal,
        "hash": lambda o, e: hash(o),
        "M@v": lambda o, e: o @ e.v,
        "M@B": lambda o, e: o @ e.B,
        "u@M": lambda o, e: e.u @ o,
        "C@M": lambda o, e: e.C @ o,
        "M@Mr": lambda o, e: o @ e.Mr,
        "Ml@M": lambda o, e: e.Ml @ o,
        "4*M": lambda o, e: 4 * o,
        "M*0.25": lambda o, e: o * 0.25,
        "M/-4": lambda o, e: o / -4,
        "-M": lambda o, e: -o,
        "T@u": lambda o, e: o.T @ e.u,
    }
    sq = isinstance(obj, mm.SquareMatrix)
    if sq:
        ops["log_abs_det"] = lambda o, e: o.log_abs_det
        if obj.shape[0] is not None:
            ops["M@Msq"] = lambda o, e: o @ e.Msq
            ops["Msq@M"] = lambda o, e: e.Msq @ o
    if isinstance(obj, mm.InvertibleMatrix):
        ops["inv"] = lambda o, e: o.inv
        ops["inv@v"] = lambda o, e: o.inv @ e.v
        ops["u@inv"] = lambda o, e: e.u @ o.inv
        ops["inv.inv"] = lambda o, e: o.inv.inv
        ops["inv.T"] = lambda o, e: o.inv.T
        ops["T.inv"] = lambda o, e: o.T.inv
        ops["inv.log_abs_det"] = lambda o, e: o.inv.log_abs_det
        ops["inv.diagonal"] = lambda o, e: o.inv.diagonal
    if isinstance(obj, mm.SymmetricMatrix):
        ops["eigval"] = lambda o, e: o.eigval
        ops["eigvec"] = lambda o, e: o.eigvec
    if isinstance(obj, mm.PositiveDefiniteMatrix):
        ops["sqrt"] = lambda o, e: o.sqrt
        ops["sqrt@v"] = lambda o, e: o.sqrt @ np.resize(e.v, o.sqrt.shape[1] or 3)
        ops["sqrt.T"] = lambda o, e: o.sqrt.T
    if hasattr(type(obj), "factor"):
        ops["factor"] = lambda o, e: o.factor
        ops["sign"] = lambda o, e: o.sign
    if hasattr(type(obj), "lower"):
        ops["lower"] = lambda o, e: o.lower
    if hasattr(type(obj), "lu_and_piv"):
        ops["lu_and_piv"] = lambda o, e: o.lu_and_piv
    if hasattr(type(obj), "capacitance_matrix"):
        ops["capacitance_matrix"] = lambda o, e: o.capacitance_matrix
    if hasattr(type(obj), "blocks"):
        ops["blocks"] = lambda o, e: o.blocks
    if hasattr(type(obj), "matrices"):
        ops["matrices"] = lambda o, e: o.matrices
    if hasattr(type(obj), "scalar"):
        ops["scalar"] = lambda o, e: o.scalar
    if isinstance(obj, mm.DifferentiableMatrix):
        ops["grad_log_abs_det"] = lambda o, e: o.grad_log_abs_det
        ops["grad_quadratic_form_inv"] = lambda o, e: o.grad_quadratic_form_inv(e.w)
    return ops


def run_op(fn, obj, env):
    try:
        return canon(fn(obj, env))
    except _Timeout:
        raise
    except Exception as e:  # noqa: BLE001
        return ("raises", type(e).__name__)


def param_arrays(obj):
    """Every ndarray reachable from obj.__dict__ (through nested matrices / tuples): (path, array),
    breadth first so that an array shared with a sub-object is reported under its shortest path."""
    import mici.matrices as mm

    out, seen = [], set()
    queue = [("", obj)]
    while queue:
        path, m = queue.pop(0)
        if id(m) in seen or path.count(".") > 6:
            continue
        seen.add(id(m))
        for k, v in list(m.__dict__.items()):
            items = [(k, v)] if not isinstance(v, tuple | list) else [(f"{k}[{i}]", x) for i, x in enumerate(v)]
            for sub, x in items:
                full = f"{path}.{sub}" if path else sub
                if isinstance(x, np.ndarray):
                    if id(x) not in seen:
                        seen.add(id(x))
                        out.append((full, x))
                elif isinstance(x, mm.Matrix):
                    queue.append((full, x))
    return out


def raised_ops(ref):
    """[(op, exception name)] for operations of the reference run that raised."""
    out = []
    for op, val in ref.items():
        if val[0] == "raises":
            out.append((op, val[1]))
        elif val[0] == "M" and val[3][0] == "raises":
            out.append((op + ".array", val[3][1]))
    return out


def raise_allowed(vname, cls, op, exc):
    """Operations documented / designed to raise on valid objects."""
    if vname.endswith("/implicit"):  # implicitly sized (scaled) identity: everything needing a size
        return exc in ("RuntimeError", "TypeError", "ValueError")
    if cls == "PositiveDefiniteBlockDiagonalMatrix" and op.startswith("grad_") and exc == "RuntimeError":
        return True  # "Not all blocks are differentiable"
    return False


def reference(spec, seed):
    """op -> canonical result on a cold object (one fresh object per operation)."""
    probe = make(spec)
    ref = {}
    for name, fn in op_table(probe).items():
        o = make(spec)
        ref[name] = run_op(fn, o, Env(o.shape, seed))
    return ref


# =======================================================================================
# check 1: order independence + snapshots


def check_order(spec, seed, order, ref=None, rounding=None):
    """Run the operations `order` on one fresh object. Returns list of (signature_tail, message);
    rounding-level differences (suspected defect O1) are appended to `rounding`."""
    bad = []
    rounding = [] if rounding is None else rounding
    ref = ref or reference(spec, seed)
    log = []
    obj = make(spec, log)
    nested = [(p, a) for p, a in log if isinstance(a, tuple)]
    log = [(p, a) for p, a in log if not isinstance(a, tuple)]
    pristine = pristine_arrays(spec)
    caller = [(p, a, pristine.get(p, a.tobytes())) for p, a in log]
    params = [(p, a, a.tobytes()) for p, a in param_arrays(obj)]
    env = Env(obj.shape, seed)
    ops = op_table(obj)
    cls = spec["c"]
    for p, a, snap in caller:
        if a.tobytes() != snap:
            bad.append((f"caller-array-changed-by-constructor:{cls}:{p}",
                        f"{cls}: caller-supplied array `{p}` was modified by the constructor"))
    if bad:
        return bad
    for name in order:
        if name not in ops:
            continue
        got = run_op(ops[name], obj, env)
        c = cmp_canon(got, ref[name])
        if c == "close":
            rounding.append(f"{cls}:{name}")
        elif c == "diff":
            bad.append((f"order:{cls}:{name}", f"{cls}: result of `{name}` after earlier operations differs from its value on a freshly built object"))
    for p, a, snap in caller:
        if a.tobytes() != snap:
            bad.append((f"caller-array-changed:{cls}:{p}", f"{cls}: caller-supplied array `{p}` was modified by the operations"))
    for p, a, snap in params:
        if a.tobytes() != snap:
            bad.append((f"param-array-changed:{cls}:{p}", f"{cls}: parameter array `{p}` was modified by the operations"))
    for k in env.changed():
        bad.append((f"operand-changed:{cls}:{k}", f"{cls}: operand array `{k}` was modified by an operation"))
    for p, (m, subspec) in nested:
        # matrices handed to the constructor are operands too: their own observables must be untouched
        try:
            f = make(subspec)
            ok = cmp_canon(canon(m), canon(f)) != "diff" and m == f and hash(m) == hash(f)
        except Exception:  # noqa: BLE001
            ok = False
        if not ok:
            bad.append((f"operand-matrix-changed:{cls}:{p}", f"{cls}: the matrix passed as `{p}` no longer equals / has the dense array of a freshly built one"))
    try:
        fresh = make(spec)
        if not (obj == fresh and fresh == obj):
            bad.append((f"used-object-unequal-fresh:{cls}", f"{cls}: object no longer equals a freshly built one after operations"))
        elif hash(obj) != hash(fresh):
            bad.append((f"used-object-hash:{cls}", f"{cls}: hash differs from a freshly built equal object after operations"))
    except Exception as e:  # noqa: BLE001
        bad.append((f"eq-raises:{cls}", f"{cls}: == / hash raised {type(e).__name__}: {e}"))
    return bad


# =======================================================================================
# check 2: copies


def _copiers():
    return {
        "copy": copy.copy,
        "deepcopy": copy.deepcopy,
        "pickle": lambda o: pickle.loads(pickle.dumps(o)),  # noqa: S301
    }


def check_copies(spec, seed, warm_ops, ref=None, rounding=None):
    bad = []
    rounding = [] if rounding is None else rounding
    ref = ref or reference(spec, seed)
    cls = spec["c"]
    for warmed in (False, True):
        obj = make(spec)
        env = Env(obj.shape, seed)
        ops = op_table(obj)
        if warmed:
            for name in warm_ops:
                if name in ops:
                    run_op(ops[name], obj, env)
        if warmed:
            try:
                hash(obj)
                if pickle.loads(pickle.dumps(obj)).__dict__.get("_hash") is not None:  # noqa: S301
                    bad.append((PICKLE_SIGNATURE, f"{cls}: the memoised _hash of a hashed object is part of its pickled state"))
            except Exception as e:  # noqa: BLE001
                bad.append((f"copy-raises:{cls}:pickle-hashed", f"{cls}: pickling a hashed object raised {type(e).__name__}: {e}"))
        for cname, cp in _copiers().items():
            tag = f"{cname}{'-warm' if warmed else ''}"
            try:
                c = cp(obj)
                if not (c == obj and obj == c):
                    bad.append((f"copy-unequal:{cls}:{tag}", f"{cls}: {tag} copy does not compare equal to the original"))
                    continue
                if hash(c) != hash(obj):
                    bad.append((f"copy-hash:{cls}:{tag}", f"{cls}: {tag} copy hashes differently from the original"))
                if type(c) is not type(obj):
                    bad.append((f"copy-type:{cls}:{tag}", f"{cls}: {tag} copy has a different type"))
            except Exception as e:  # noqa: BLE001
                bad.append((f"copy-raises:{cls}:{tag}", f"{cls}: {tag} raised {type(e).__name__}: {e}"))
                continue
            env2 = Env(c.shape, seed)
            for name, fn in op_table(c).items():
                got = run_op(fn, c, env2)
                cc = cmp_canon(got, ref[name])
                if cc == "close":
                    rounding.append(f"{cls}:{name}")
                if cc == "diff":
                    bad.append((f"copy-op:{cls}:{tag}:{name}", f"{cls}: `{name}` on a {tag} copy differs from the value on a freshly built object"))
            # the original is not disturbed by using the copy
            for name in ("array", "M@v", "hash"):
                if cmp_canon(run_op(ops[name], obj, env), ref[name]) == "diff":
                    bad.append((f"copy-disturbs-original:{cls}:{tag}:{name}", f"{cls}: using a {tag} copy changed `{name}` of the original"))
    return bad


# =======================================================================================
# check 3: in-place writes


def write_targets(obj, log, ops, env):
    """accessor name -> thunk returning the array to attack."""
    t = {}
    for p, a in log:
        if "." not in p and "[" not in p:  # top-level constructor arguments only
            t[f"caller:{p}"] = (lambda a=a: a)
    for p, a in param_arrays(obj):
        if "." not in p:
            t[f"attr:{p}"] = (lambda a=a: a)

    def ret(name, sel=lambda x: x):
        def thunk():
            return sel(ops[name](obj, env))
        return thunk

    import mici.matrices as mm

    for name in ("array", "asarray", "diagonal", "eigval", "M@v", "M@B", "u@M", "grad_log_abs_det",
                 "grad_quadratic_form_inv", "inv.diagonal"):
        if name in ops:
            t[f"ret:{name}"] = ret(name)
    for name in ("T", "inv", "sqrt", "eigvec", "factor", "capacitance_matrix", "4*M", "-M", "inv.inv", "T.T"):
        if name in ops:
            t[f"ret:{name}.array"] = ret(name, lambda m: m.array)
    if "lu_and_piv" in ops:
        t["ret:lu_and_piv[0]"] = ret("lu_and_piv", lambda x: x[0])
        t["ret:lu_and_piv[1]"] = ret("lu_and_piv", lambda x: x[1])
    if "scalar" in ops:
        t["ret:scalar"] = ret("scalar")
    _ = mm
    return t


def try_write(arr):
    """Attempt an in-place modification. Returns 'blocked' | 'written' | 'not-array'."""
    if not isinstance(arr, np.ndarray) or arr.size == 0:
        return "not-array"
    try:
        if arr.dtype.kind in "iu":
            # integer arrays are LAPACK pivot indices: stay inside [0, size) (out-of-range pivots corrupt memory)
            arr[...] = (arr + 1) % max(arr.size, 1)
        else:
            arr[...] = arr * 1.5 + 0.75
    except (ValueError, TypeError):
        return "blocked"
    return "written"


def check_write(spec, seed, target, warm_ops, ref=None):
    """One in-place write attempt through accessor `target`.

    Returns dict(outcome=blocked|harmless|through|rounding|absent|not-array, changed=[ops], owner=class name or None,
    attr=attribute path or None, suspected=id of the SUSPECTED_DEFECTS entry or None)."""
    ref = ref or reference(spec, seed)
    res = {"outcome": "absent", "changed": [], "owner": None, "attr": None, "suspected": None}
    log = []
    obj = make(spec, log)
    log = [(p, a) for p, a in log if not isinstance(a, tuple)]
    env = Env(obj.shape, seed)
    ops = op_table(obj)
    for name in warm_ops:
        if name in ops:
            run_op(ops[name], obj, env)
    targets = write_targets(obj, log, ops, Env(obj.shape, seed))
    if target not in targets:
        return res
    try:
        arr = targets[target]()
    except _Timeout:
        raise
    except Exception:  # noqa: BLE001
        return res
    w = try_write(arr)
    if w != "written":
        res["outcome"] = w
        return res
    owner, attr = find_owner(obj, arr)
    res["owner"], res["attr"] = (type(owner).__name__ if owner is not None else None), attr
    res["suspected"] = suspected_write(owner, attr, obj, spec)
    env2 = Env(obj.shape, seed)
    changed, close_only = [], []
    for name, fn in ops.items():
        c = cmp_canon(run_op(fn, obj, env2), ref[name])
        if c == "diff":
            changed.append(name)
        elif c == "close":
            close_only.append(name)
    try:
        if not (obj == make(spec)):
            changed.append("==fresh")
    except Exception:  # noqa: BLE001
        changed.append("==fresh(raises)")
    res["changed"] = changed
    res["outcome"] = "through" if changed else ("rounding" if close_only else "harmless")
    return res


def write_signature(r, cls, target):
    where = f"{r['owner']}.{r['attr']}" if r["owner"] else f"{cls}.<{target}>"
    return f"matrix array writable in place: {where}"


def all_write_targets(spec, seed):
    log = []
    obj = make(spec, log)
    log = [(p, a) for p, a in log if not isinstance(a, tuple)]
    env = Env(obj.shape, seed)
    ops = op_table(obj)
    for fn in ops.values():
        run_op(fn, obj, env)
    return list(write_targets(obj, log, ops, env))


# =======================================================================================
# check 4: == / hash / array over one-parameter variations


_COUPLED = {
    # arguments that are *functions of another argument* (precomputed factorisations): varying them
    # alone gives an inconsistent constructor call, not a different matrix
    "InverseLUFactoredSquareMatrix": {"inv_lu_and_piv", "inv_lu_transposed"},
    "DenseSquareMatrix": {"lu_and_piv", "lu_transposed"},
    "DenseSymmetricMatrix": {"eigvec", "eigval"},
    "DenseDefiniteMatrix": {"factor", "is_posdef"},
    "DensePositiveDefiniteMatrix": {"factor"},
    "SquareLowRankUpdateMatrix": {"capacitance_matrix"},
    "SymmetricLowRankUpdateMatrix": {"capacitance_matrix"},
    "PositiveDefiniteLowRankUpdateMatrix": {"capacitance_matrix"},
}
_DROP_OPTIONAL = {
    # optional precomputed arguments: present / absent must give equal objects
    "DenseSquareMatrix": [("lu_and_piv", "lu_transposed")],
    "DenseSymmetricMatrix": [("eigvec", "eigval")],
    "DenseDefiniteMatrix": [("factor",)],
    "DensePositiveDefiniteMatrix": [("factor",)],
    "SquareLowRankUpdateMatrix": [("capacitance_matrix",)],
    "SymmetricLowRankUpdateMatrix": [("capacitance_matrix",)],
    "PositiveDefiniteLowRankUpdateMatrix": [("capacitance_matrix",)],
}


def variations(spec, rng, top=True):
    """Specs differing from `spec` in exactly one constructor option. -> [(label, spec', must_equal)]"""
    out = []
    cls = spec["c"]
    coupled = _COUPLED.get(cls, set())

    def with_arg(k, v):
        s = {"c": cls, "a": dict(spec["a"])}
        s["a"][k] = v
        return s

    for k, v in spec["a"].items():
        if k in coupled:
            continue
        if isinstance(v, bool):
            out.append((f"{k}:flip", with_arg(k, not v), False))
        elif isinstance(v, int | float) and v is not None:
            if k == "sign":
                out.append(("sign:flip", with_arg(k, -v), False))
            elif k == "size":
                out.append(("size:+1", with_arg(k, v + 1), False))
            else:
                out.append((f"{k}:x2", with_arg(k, v * 2), False))
        elif isinstance(v, dict) and "arr" in v:
            a = np.array(v["arr"], dtype=v["dt"]).reshape(v["shape"])
            if a.size:
                for tag, idx in (("first", 0), ("last", a.size - 1), ("rand", int(rng.integers(a.size)))):
                    b = a.copy()
                    b.flat[idx] = b.flat[idx] * 2 if b.flat[idx] != 0 else 1.0
                    out.append((f"{k}:entry-{tag}", with_arg(k, A(b)), False))
                if a.ndim == 2 and a.shape[0] == a.shape[1] and a.shape[0] > 1:
                    out.append((f"{k}:transpose", with_arg(k, A(a.T.copy())), False))
                if a.ndim == 1 and a.size > 1:
                    out.append((f"{k}:reverse", with_arg(k, A(a[::-1].copy())), False))
        elif isinstance(v, dict) and "c" in v:
            for lab, sub, me in variations(v, rng, top=False)[:6]:
                out.append((f"{k}.{lab}", with_arg(k, sub), me))
        elif isinstance(v, dict) and "tuple" in v and k in ("blocks", "matrices"):
            xs = v["tuple"]
            if len(xs) >= 2:
                sw = list(xs)
                sw[0], sw[-1] = sw[-1], sw[0]
                out.append((f"{k}:swap", with_arg(k, T(*sw)), False))
                out.append((f"{k}:drop-last", with_arg(k, T(*xs[:-1])), False))
            i = int(rng.integers(len(xs)))
            for lab, sub, me in variations(xs[i], rng, top=False)[:4]:
                ys = list(xs)
                ys[i] = sub
                out.append((f"{k}[{i}].{lab}", with_arg(k, T(*ys)), me))
    if top:
        for group in _DROP_OPTIONAL.get(cls, []):
            if all(spec["a"].get(g) is not None for g in group):
                s = {"c": cls, "a": dict(spec["a"])}
                for g in group:
                    s["a"][g] = None
                out.append(("drop-precomputed:" + "+".join(group), s, True))
        out += equivalent_forms(spec)
    return out


def _arr_leaves(v, path, cls=None):
    """(path, leaf) of every array leaf of a spec (precomputed-factor arguments excluded)."""
    if isinstance(v, dict):
        if "arr" in v:
            yield path, v
        elif "c" in v:
            skip = _COUPLED.get(v["c"], set())
            for k, x in v["a"].items():
                if k not in skip:
                    yield from _arr_leaves(x, [*path, "a", k])
        elif "tuple" in v:
            for i, x in enumerate(v["tuple"]):
                yield from _arr_leaves(x, [*path, "tuple", i])


def _replace(v, path, new):
    if not path:
        return new
    if isinstance(v, dict):
        c = dict(v)
        c[path[0]] = _replace(v[path[0]], path[1:], new)
        return c
    c = list(v)
    c[path[0]] = _replace(v[path[0]], path[1:], new)
    return c


def dtype_pairs(spec):
    """Pairs of specs whose array parameters hold the SAME VALUES in different real dtypes
    (float64 vs int64 / float32 / bool): they must compare equal and hash equal.
    -> [(label, spec_a, spec_b)]"""
    out = []
    for path, leaf in _arr_leaves(spec, []):
        a = np.array(leaf["arr"], dtype=leaf["dt"]).reshape(leaf["shape"])
        if a.dtype != np.float64 or not a.size:
            continue
        name = ".".join(str(x) for x in path if x not in ("a", "tuple"))
        # SoftAbs eigendecomposes its argument at construction: a float32 argument gives single precision parameters
        f32 = path[-1] != "symmetric_array"
        s8 = a * 8.0  # generated entries are multiples of 1/8: integral after scaling (sign / triangle / order kept)
        if np.all(s8 == np.round(s8)) and np.all(np.abs(s8) < 2**40):
            base = _replace(spec, path, A(s8))
            out.append((f"{name}:dtype-int64", base, _replace(spec, path, A(s8.astype(np.int64)))))
            if f32:
                out.append((f"{name}:dtype-float32", base, _replace(spec, path, A(s8.astype(np.float32)))))
            if np.all((s8 == 0) | (s8 == 1)):
                out.append((f"{name}:dtype-bool", base, _replace(spec, path, A(s8.astype(np.bool_)))))
        elif f32 and np.all(a.astype(np.float32).astype(np.float64) == a):
            out.append((f"{name}:dtype-float32", spec, _replace(spec, path, A(a.astype(np.float32)))))
    return out


DTYPE_SIGNATURE = "hash_array dtype: equal matrices hash differently"


def signed_zero_pairs(spec):
    """Pairs of specs whose float array parameters differ only in the SIGN OF ZEROS (0.0 vs -0.0):
    np.array_equal treats them as equal, so the objects must compare equal and hash equal."""
    out = []
    for path, leaf in _arr_leaves(spec, []):
        a = np.array(leaf["arr"], dtype=leaf["dt"]).reshape(leaf["shape"])
        # (SoftAbs eigendecomposes its argument at construction: LAPACK output is not a function of values only)
        if a.dtype.kind != "f" or not np.any(a == 0) or path[-1] == "symmetric_array":
            continue
        b = a.copy()
        b[a == 0] = -0.0
        name = ".".join(str(x) for x in path if x not in ("a", "tuple"))
        neg = {"arr": b.tolist(), "dt": str(b.dtype), "shape": list(b.shape)}  # not through A(): keeps the negative zeros
        out.append((f"{name}:signed-zero", spec, _replace(spec, path, neg)))
    return out


def equivalent_forms(spec):
    """Different constructor calls that store equal parameters: must compare equal."""
    out = []
    cls, a = spec["c"], spec["a"]
    if cls in ("TriangularFactoredDefiniteMatrix", "TriangularFactoredPositiveDefiniteMatrix"):
        f = a["factor"]
        if isinstance(f, dict) and "arr" in f:
            s = {"c": cls, "a": dict(a)}
            s["a"]["factor"] = S("TriangularMatrix", array=f, lower=a["factor_is_lower"], make_triangular=True)
            out.append(("factor-as-TriangularMatrix", s, True))
    if cls.endswith("LowRankUpdateMatrix"):
        ik = "inner_square_matrix" if cls.startswith("Square") else ("inner_symmetric_matrix" if cls.startswith("Symmetric") else "inner_pos_def_matrix")
        fk = "left_factor_matrix" if cls.startswith("Square") else "factor_matrix"
        f = a[fk]
        if a[ik] is None:
            k = (f["shape"][1] if "arr" in f else make(f).shape[1])
            s = {"c": cls, "a": dict(a)}
            s["a"][ik] = S("IdentityMatrix", size=k)
            out.append(("inner-None-vs-Identity", s, True))
        if isinstance(f, dict) and "arr" in f:
            s = {"c": cls, "a": dict(a)}
            s["a"][fk] = S("DenseRectangularMatrix", array=f)
            out.append(("factor-array-vs-DenseRectangular", s, True))
    if cls == "DensePositiveDefiniteProductMatrix" and a["pos_def_matrix"] is None:
        r = a["rect_matrix"]
        m = r["shape"][1] if "arr" in r else make(r).shape[1]
        s = {"c": cls, "a": dict(a)}
        s["a"]["pos_def_matrix"] = S("IdentityMatrix", size=m)
        out.append(("pos_def-None-vs-Identity", s, True))
    if cls in ("EigendecomposedSymmetricMatrix", "EigendecomposedPositiveDefiniteMatrix", "DenseSymmetricMatrix"):
        f = a["eigvec"]
        if isinstance(f, dict) and "arr" in f:
            s = {"c": cls, "a": dict(a)}
            s["a"]["eigvec"] = S("OrthogonalMatrix", array=f)
            out.append(("eigvec-array-vs-Orthogonal", s, True))
    return out


def _safe_array(o):
    try:
        return np.asarray(o.array, dtype=float)
    except Exception:  # noqa: BLE001
        return None


def _arrays_close(x, y):
    if x is None or y is None:
        return None
    if x.shape != y.shape:
        return False
    scale = max(1.0, float(np.max(np.abs(x))) if x.size else 1.0)
    return bool(np.all(np.abs(x - y) <= 1e-9 * scale))


def check_pair(spec_a, spec_b, must_equal, label):
    """-> (list of (sig_tail, msg), classification)."""
    bad = []
    cls = spec_a["c"]
    try:
        a, b = make(spec_a), make(spec_b)
    except Exception as e:  # noqa: BLE001
        return [], f"invalid:{type(e).__name__}"
    try:
        eq, eq2 = (a == b), (b == a)
        ne = a != b
        ha, hb = hash(a), hash(b)
    except Exception as e:  # noqa: BLE001
        return [(f"eq-raises:{cls}:{label}", f"{cls}: ==/hash raised {type(e).__name__}: {e} ({label})")], "raises"
    if bool(eq) != bool(eq2):
        bad.append((f"eq-asymmetric:{cls}:{label}", f"{cls}: a == b is {eq} but b == a is {eq2} ({label})"))
    if bool(ne) == bool(eq):
        bad.append((f"ne-inconsistent:{cls}:{label}", f"{cls}: a != b is {ne} while a == b is {eq} ({label})"))
    xa, xb = _safe_array(a), _safe_array(b)
    close = _arrays_close(xa, xb)
    if eq:
        if ha != hb and ":dtype-" in label:
            bad.append((DTYPE_SIGNATURE, f"{cls}: objects whose array parameters hold equal values in different dtypes compare equal "
                                         f"but hash differently ({label})"))
        elif ha != hb and ":signed-zero" in label:
            bad.append((ZERO_SIGNATURE, f"{cls}: objects whose array parameters differ only in the sign of zeros compare equal "
                                        f"but hash differently ({label})"))
        elif ha != hb:
            bad.append((f"eq-hash:{cls}:{label}", f"{cls}: objects compare equal but hash differently ({label})"))
        if close is False:
            bad.append((f"eq-array:{cls}:{label}", f"{cls}: objects compare equal (hashes equal: {ha == hb}) but their dense arrays differ ({label})"))
    if must_equal and not eq:
        bad.append((f"equal-params-unequal:{cls}:{label}", f"{cls}: objects built from equal parameters compare unequal ({label})"))
    kind = ("equal" if eq else "unequal") + ("" if close is None else ("-same-array" if close else "-different-array"))
    return bad, kind


# =======================================================================================
# check 0: translator table vs live objects


def load_table():
    p = common.VERIF / "tools" / "extractors" / "matrix_eq.py"
    sp = importlib.util.spec_from_file_location("_c19_matrix_eq", p)
    mod = importlib.util.module_from_spec(sp)
    sp.loader.exec_module(mod)
    return {e["name"]: e for e in mod.extract(common.REPO)}


def spy_reads(obj, other, method):
    """Names read from `self` / `other` directly by the frame of cls.<method> (a function found on
    the MRO), observed through a subclass overriding __getattribute__ (the library is not patched)."""
    cls = type(obj)
    fn = None
    for k in cls.__mro__:
        if method in k.__dict__:
            fn = k.__dict__[method]
            break
    code = fn.__code__
    logs = {"self": [], "other": []}

    def mk(tag):
        def ga(self, name):
            f = sys._getframe(1)  # noqa: SLF001
            if f.f_code is code:
                logs[tag].append(name)
            return object.__getattribute__(self, name)

        return type("Spy" + tag, (cls,), {"__getattribute__": ga})

    s = copy.copy(obj)
    s.__class__ = mk("self")
    if other is None:
        fn(s)
    else:
        o = copy.copy(other)
        o.__class__ = mk("other")
        fn(s, o)
    return logs


def _raised_in_mici(exc):
    import traceback

    src = str(common.REPO / "src" / "mici")
    return any(fr.filename.startswith(src) for fr in traceback.extract_tb(exc.__traceback__))


def check_constructible(spec):
    """The constructor call described by a generated (valid) spec must not raise."""
    try:
        make(spec)
    except Exception as e:  # noqa: BLE001
        if _raised_in_mici(e):
            return [(f"constructor-raises:{spec['c']}", f"{spec['c']}: constructing a valid object raised {type(e).__name__}: {e}")]
        raise common.MachineryError(f"spec of {spec['c']} cannot be built: {type(e).__name__}: {e}") from e
    return []


def check_hash_eq_callable(spec):
    """hash() and == of a freshly built object must not raise."""
    cls = spec["c"]
    try:
        a, b = make(spec), make(spec)
        hash(a)
        _ = a == b
    except Exception as e:  # noqa: BLE001
        return [(f"hash-eq-raises:{cls}", f"{cls}: hash() / == of a freshly built object raised {type(e).__name__}: {e}")]
    return []


def cross_check_table(ctx, table, objs_by_class):
    import mici.matrices as mm

    live = {n: c for n, c in vars(mm).items() if isinstance(c, type) and issubclass(c, mm.Matrix) and c.__module__ == mm.__name__}
    if set(live) != set(table):
        raise common.MachineryError(f"translator class list differs from live module: {sorted(set(live) ^ set(table))}")
    import inspect

    for name, c in live.items():
        e = table[name]
        mro = [k.__name__ for k in c.__mro__ if k.__name__ in live]
        if mro != e["mro"]:
            raise common.MachineryError(f"translator MRO of {name} {e['mro']} != live {mro}")
        if inspect.isabstract(c) != e["abstract"]:
            raise common.MachineryError(f"translator abstractness of {name} differs from live class")
    for name, specs in objs_by_class.items():
        e = table[name]
        if e["unknown"]:
            ctx.count("table_crosscheck_skipped_unknown")
            continue
        for spec in specs:
            obj = make(spec)
            bad = check_hash_eq_callable(spec)
            if bad:
                _report(ctx, bad, {"check": "hash-raises", "spec": spec})
                continue
            d = set(obj.__dict__)
            want = set(e["params"]) | set(e["caches"])
            if d != want:
                raise common.MachineryError(f"{name}: attributes after construction {sorted(d)} != translator params+caches {sorted(want)}")
            for c in e["caches"]:
                if obj.__dict__[c] is not None:
                    raise common.MachineryError(f"{name}: translator cache {c} is not None after construction")
            for al, tgt in e["aliases"] + e["handAliases"]:
                if getattr(obj, al) is not obj.__dict__.get(tgt, getattr(obj, tgt, None)):
                    raise common.MachineryError(f"{name}: alias {al} -> {tgt} does not hold on a live object")
            for fz in e["frozen"]:
                v = obj.__dict__[fz]
                if isinstance(v, np.ndarray) and v.flags.writeable:
                    raise common.MachineryError(f"{name}: translator says {fz} is frozen but it is writeable")
            other = copy.copy(obj)
            try:
                lh = spy_reads(obj, None, "_compute_hash")
                le = spy_reads(obj, other, "_check_equality")
            except Exception as ex:  # noqa: BLE001
                if _raised_in_mici(ex):  # B10: == / hash of a shallow COPY of a valid object raised inside mici: a failing input, not machinery
                    ctx.violation(f"copy-eq-hash-raises:{name}:{type(ex).__name__}",
                                  f"{name}: comparing / hashing a copy.copy of a freshly built object raised {type(ex).__name__}: {ex}",
                                  {"check": "copies", "variant": name, "spec": spec, "seed": 0, "warm": []})
                    continue
                raise common.MachineryError(f"{name}: spying on eq/hash failed: {type(ex).__name__}: {ex}") from ex
            if set(lh["self"]) != set(e["hashFields"]):
                raise common.MachineryError(f"{name}: _compute_hash reads {sorted(set(lh['self']))}, translator says {e['hashFields']}")
            if set(le["self"]) != set(e["eqFields"]) or set(le["other"]) != set(e["eqFields"]):
                raise common.MachineryError(
                    f"{name}: _check_equality reads self{sorted(set(le['self']))} other{sorted(set(le['other']))}, translator says {e['eqFields']}")
            ctx.count("table_crosscheck_object")


# =======================================================================================
# suspected-defect probes (clean-tree behaviour recorded, never violations)


PICKLE_SIGNATURE = "memoised hash pickled across processes"
ZERO_SIGNATURE = "hash_array signed zero"


def check_pickle_process(specs):
    """Objects hashed and pickled in ANOTHER interpreter (different PYTHONHASHSEED, so different salted
    hash of bytes) must, once unpickled here, equal and hash like freshly built ones."""
    code = (
        "import sys, json, pickle\n"
        f"sys.path.insert(0, {str(common.VERIF)!r})\n"
        "from harness import common, c19\n"
        "common.import_repo()\n"
        "objs = [c19.make(s) for s in json.loads(sys.stdin.read())]\n"
        "hs = [hash(o) for o in objs]\n"
        "sys.stdout.buffer.write(pickle.dumps(objs))\n"
    )
    seed = "54321" if os.environ.get("PYTHONHASHSEED") == "12345" else "12345"
    env = dict(os.environ, PYTHONHASHSEED=seed, MICI_REPO=str(common.REPO))
    p = subprocess.run([sys.executable, "-c", code], input=json.dumps(specs).encode(), capture_output=True,
                       env=env, timeout=300, check=False)
    if p.returncode != 0:
        raise common.MachineryError("pickle subprocess failed: " + p.stderr.decode()[-800:])
    objs = pickle.loads(p.stdout)  # noqa: S301
    bad = []
    for o, spec in zip(objs, specs, strict=True):
        f = make(spec)
        cls = spec["c"]
        try:
            if not (o == f and f == o):
                bad.append((f"copy-unequal:{cls}:pickle-other-process", f"{cls}: object unpickled from another process does not equal a freshly built one"))
            elif hash(o) != hash(f):
                bad.append((PICKLE_SIGNATURE, f"{cls}: object hashed and pickled in another interpreter equals a freshly built one here but hashes differently"))
        except Exception as e:  # noqa: BLE001
            bad.append((f"eq-raises:{cls}:pickle-other-process", f"{cls}: ==/hash of an object unpickled from another process raised {type(e).__name__}: {e}"))
    return bad


# =======================================================================================
# driver


def _order(rng, names):
    names = list(names)
    extra = [names[int(i)] for i in rng.integers(0, len(names), max(1, len(names) // 3))]
    full = names + extra
    return [full[int(i)] for i in rng.permutation(len(full))]


# --- B10: escalation when an obligation of Props/C19S (source tie of the value-semantics machinery) is broken ----------
def s_escalated(ctx) -> bool:
    """A theorem of Props/C19S no longer checks against the trees regenerated from the tree under test (hash_array,
    Matrix.__init__/__hash__/__getstate__/__eq__, a lazy-cache property, a freeze site, the eigval/eigvec guard,
    _make_array_triangular, a _construct_* method changed): more access orders per object, every size, two objects
    per constructor variant."""
    if "c19s_escalated" not in ctx.extra:
        broken = [o["theorem"] for o in ctx.obligations if not o["ok"] and ".C19S." in "." + o["theorem"] + "."]
        ctx.extra["c19s_escalated"] = bool(broken)
        if broken:
            ctx.extra["c19s_obligations_broken"] = broken[:20]
            ctx.count("search_escalated:value_semantics_machinery")
    return ctx.extra["c19s_escalated"]
# --- end B10 ---------------------------------------------------------------------------------------------------------


def _report(ctx, bad, replay):
    for sig, msg in bad:
        ctx.violation(sig, msg, replay)


def run_spec(ctx, rng, vname, n, spec, table_objs, found):
    seed = int(rng.integers(1 << 30))
    cls = spec["c"]
    ref = reference(spec, seed)
    names = list(ref)
    lazy = sum(1 for k in names if k in ("inv", "T", "sqrt", "eigval", "factor", "lu_and_piv", "capacitance_matrix"))
    ctx.case({"variant": vname, "n": n, "seed": seed}, nontrivial=(lazy >= 2 and (n or 0) >= 2))
    ctx.count(f"class:{cls}")
    ctx.count(f"size:{n}")
    table_objs.setdefault(cls, []).append(spec)
    for op, exc in raised_ops(ref):
        if raise_allowed(vname, cls, op, exc):
            ctx.count("op_raises_by_design")
        else:
            ctx.violation(f"op-raises:{cls}:{op}:{exc}", f"{vname}: `{op}` on a freshly built object raised {exc}",
                          {"check": "raises", "variant": vname, "spec": spec, "seed": seed, "op": op})
    # 1. orders
    rounding = []
    for _ in range(ctx.n(3, 6) * (3 if s_escalated(ctx) else 1)):  # B10: x3 access orders when a C19S obligation is broken
        order = _order(rng, names)
        bad = check_order(spec, seed, order, ref, rounding)
        ctx.count("order_runs")
        _report(ctx, bad, {"check": "order", "variant": vname, "spec": spec, "seed": seed, "order": order})
    # 2. copies
    warm = _order(rng, names)[: max(3, len(names) // 2)]
    bad = check_copies(spec, seed, warm, ref, rounding)
    ctx.count("copy_runs")
    _report(ctx, bad, {"check": "copies", "variant": vname, "spec": spec, "seed": seed, "warm": warm})
    for r in set(rounding):
        ctx.count("suspected_defect:O1-rounding-level-order-dependence")
        found["rounding"].add(r)
    # 3. writes
    for target in all_write_targets(spec, seed):
        for warm_all in (False, True):
            w = names if warm_all else []
            r = check_write(spec, seed, target, w, ref)
            if ctx.quick and not warm_all and r["outcome"] != "absent":
                done_cold = True
            else:
                done_cold = False
            ctx.count(f"write:{r['outcome']}")
            if r["outcome"] == "through":
                if r["suspected"]:
                    ctx.count(f"suspected_defect:{r['suspected']}")
                    found["write"].setdefault(r["suspected"], set()).add(f"{r['owner']}.{r['attr']} via {cls} {target}")
                else:
                    ctx.violation(
                        write_signature(r, cls, target),
                        f"{cls}: in-place write through `{target}` (array held by {r['owner']}.{r['attr']}) succeeded and changed {sorted(r['changed'])[:6]}",
                        {"check": "write", "variant": vname, "spec": spec, "seed": seed, "target": target, "warm": w},
                    )
            if done_cold:
                break  # quick tier: cold attempt only; warm attempt only for arrays that exist only when caches are filled
    # 4. pairs
    for label, spec_b, must_equal in variations(spec, rng):
        bad, kind = check_pair(spec, spec_b, must_equal, label)
        ctx.count(f"pair:{kind}")
        _report(ctx, bad, {"check": "pair", "variant": vname, "spec": spec, "spec_b": spec_b, "must_equal": must_equal, "label": label})
    for label, spec_a, spec_b in dtype_pairs(spec):
        bad, kind = check_pair(spec_a, spec_b, True, label)
        ctx.count(f"pair:dtype:{kind}")
        _report(ctx, bad, {"check": "pair", "variant": vname, "spec": spec_a, "spec_b": spec_b, "must_equal": True, "label": label})
    for label, spec_a, spec_b in signed_zero_pairs(spec):
        bad, kind = check_pair(spec_a, spec_b, True, label)
        ctx.count(f"pair:signed-zero:{kind}")
        _report(ctx, bad, {"check": "pair", "variant": vname, "spec": spec_a, "spec_b": spec_b, "must_equal": True, "label": label})
    bad, kind = check_pair(spec, spec, True, "rebuilt")
    ctx.count(f"pair:rebuilt-{kind}")
    _report(ctx, bad, {"check": "pair", "variant": vname, "spec": spec, "spec_b": spec, "must_equal": True, "label": "rebuilt"})


def replay_corpus(ctx):
    if not CORPUS.exists():
        return
    for f in sorted(CORPUS.glob("*.json")):
        obj = json.loads(f.read_text())
        ctx.count("corpus_replayed")
        try:
            bad = _replay_bad(obj)
        except Exception as e:  # noqa: BLE001
            ctx.disagreement(f"corpus case {f.name} raised {type(e).__name__}: {e}", {"file": f.name})
            continue
        ctx.case({"corpus": f.name})
        _report(ctx, bad, {k: v for k, v in obj.items() if k != "comment"})


def run(ctx: common.Ctx):
    import warnings

    warnings.simplefilter("ignore")  # arithmetic warnings after deliberate in-place corruption
    np.seterr(all="ignore")
    rng = common.rng_for(ctx)
    ctx.rule = (
        "per constructor variant (every concrete class x constructor option) and size 1..5: operations in random "
        "orders vs cold reference (bitwise), array snapshots, copy/deepcopy/pickle cold and warm, in-place write "
        "attempts through every parameter / caller / returned array, ==/hash/array over one-option variations; "
        "non-trivial = object with >= 2 lazily cached attributes and size >= 2"
    )
    ctx.assumptions += [
        "constructor arguments are consistent: precomputed factors (LU, Cholesky factor, eigendecomposition, capacitance) "
        "are those of the primary array; make_triangular=False arrays are triangular",
        "parameters are well conditioned (dyadic entries, diagonally dominant / F F^T) so that results are finite",
        "equality of dense arrays of objects built from different but equivalent precomputed factors is compared to 1e-9 relative",
    ]
    table = load_table()
    replay_corpus(ctx)
    V = variants()
    table_objs: dict = {}
    found: dict = {"write": {}, "rounding": set()}
    sizes_all = [1, 2, 3, 4, 5]
    for vname, gen in V.items():
        if ctx.quick and not s_escalated(ctx):  # B10: every size when a C19S obligation is broken
            sizes = sorted({int(rng.choice([1, 2])), 3, int(rng.choice([4, 5]))})
        else:
            sizes = sizes_all
        for n in sizes:
            for _rep in range(ctx.n(1, 3) * (2 if ctx.quick and s_escalated(ctx) else 1)):  # B10
                try:
                    spec = gen(rng, n)
                except common.MachineryError:
                    raise
                except Exception as e:  # noqa: BLE001
                    # B10: with a broken C19S obligation also an exception raised OUTSIDE mici while generating (NumPy on data
                    # obtained from mici objects, e.g. a factor that lost its diagonal) is reported as a failing input
                    if _raised_in_mici(e) or s_escalated(ctx):  # a constructor used while generating (sub-matrix, capacitance) raised
                        ctx.violation(f"constructor-raises:{vname.split('/')[0]}", f"{vname} n={n}: building a valid object raised {type(e).__name__}: {e}",
                                      {"check": "generate", "variant": vname, "n": n, "seed": ctx.seed, "any_exception": not _raised_in_mici(e)})
                        continue
                    raise common.MachineryError(f"generator {vname} n={n} failed: {type(e).__name__}: {e}") from e
                bad = check_constructible(spec)
                if bad:
                    _report(ctx, bad, {"check": "construct", "variant": vname, "spec": spec})
                    continue
                try:
                    _with_timeout(lambda: run_spec(ctx, rng, vname, n, spec, table_objs, found), 60)  # noqa: B023
                except _Timeout:
                    ctx.violation(f"timeout:{spec['c']}", f"{vname}: operations did not finish within 60 s", {"check": "timeout", "variant": vname, "spec": spec})
                except common.MachineryError:
                    raise
                except Exception as e:  # noqa: BLE001
                    if not _raised_in_mici(e):
                        raise
                    ctx.violation(f"unexpected-exception:{spec['c']}:{type(e).__name__}",
                                  f"{vname}: {type(e).__name__}: {e} escaped from the implementation outside an observed operation",
                                  {"check": "construct", "variant": vname, "spec": spec})
    missing = {e["name"] for e in table.values() if not e["abstract"]} - set(table_objs)
    if missing:
        raise common.MachineryError(f"no variant generated for classes {sorted(missing)}")
    cross_check_table(ctx, table, {k: v[:3] for k, v in table_objs.items()})
    # pickles made by another interpreter process (one object of up to 16 classes)
    pspecs = [v[0] for _, v in sorted(table_objs.items())][:: max(1, len(table_objs) // 16)]
    bad = check_pickle_process(pspecs)
    ctx.count("pickle_other_process_objects", len(pspecs))
    _report(ctx, bad, {"check": "pickle-process", "specs": pspecs})
    observed = set(found["write"]) | ({"O1-rounding-level-order-dependence"} if found["rounding"] else set())
    ctx.extra["suspected_defects"] = {
        "write_through_on_this_tree": {k: sorted(v)[:12] for k, v in sorted(found["write"].items())},
        "rounding_level_order_dependence_on_this_tree": sorted(found["rounding"])[:40],
        "listed": [{k: d[k] for k in ("id", "kind", "why", "repro")} for d in SUSPECTED_DEFECTS],
        # a listed suspected defect that no longer shows (e.g. fixed in the tree under test) should be made strict
        "listed_but_not_observed_in_this_run": sorted({d["id"] for d in SUSPECTED_DEFECTS} - observed),
    }
    ctx.extra["variants"] = len(V)


# =======================================================================================
# replay


def _replay_bad(obj):
    k = obj.get("check")
    if k == "order":
        return check_order(obj["spec"], obj["seed"], obj["order"])
    if k == "copies":
        return check_copies(obj["spec"], obj["seed"], obj["warm"])
    if k == "pair":
        return check_pair(obj["spec"], obj["spec_b"], obj.get("must_equal", False), obj.get("label", ""))[0]
    if k == "write":
        r = check_write(obj["spec"], obj["seed"], obj["target"], obj["warm"])
        if r["outcome"] == "through" and not r["suspected"]:
            return [(write_signature(r, obj["spec"]["c"], obj["target"]), f"changed {r['changed']}")]
        return []
    if k == "raises":
        ref = reference(obj["spec"], obj["seed"])
        cls = obj["spec"]["c"]
        return [(f"op-raises:{cls}:{op}:{exc}", f"`{op}` raised {exc}") for op, exc in raised_ops(ref)
                if not raise_allowed(obj.get("variant", ""), cls, op, exc)]
    if k == "hash-raises":
        return check_hash_eq_callable(obj["spec"])
    if k == "construct":
        return check_constructible(obj["spec"])
    if k == "generate":
        rng = np.random.Generator(np.random.Philox(key=[int(obj["seed"]), 12345]))
        try:
            for _ in range(20):
                variants()[obj["variant"]](rng, obj["n"])
        except Exception as e:  # noqa: BLE001
            if _raised_in_mici(e) or obj.get("any_exception"):  # B10: see run()
                return [(f"constructor-raises:{obj['variant'].split('/')[0]}", f"raised {type(e).__name__}: {e}")]
            raise
        return []
    if k == "pickle-process":
        return check_pickle_process(obj["specs"])
    if k == "timeout":
        try:
            _with_timeout(lambda: reference(obj["spec"], 0), 60)
        except _Timeout:
            return [("timeout", "still hangs")]
        return []
    raise common.MachineryError(f"unknown replay kind {k!r}")


def replay(ctx, obj):  # noqa: ARG001
    bad = _replay_bad(obj)
    sig = obj.get("signature")
    return any(s == sig for s, _ in bad) if sig and any(s == sig for s, _ in bad) else bool(bad)


LEVEL_TEXT = (
    "Lean 4 proofs. (1) Lazy-cache model (parameters + finite map of cache slots; an access fills the slots it "
    "depends on, then its own): the coherence invariant is preserved by every access sequence "
    "(coherence_preserved), the value returned by any access after ANY prior sequence is f k p "
    "(lazy_order_irrelevant, repeated_access_same), parameters are never changed (access/run_preserves_params), "
    "permuted sequences end in the same state (perm_same_state) - for every parameter/slot/value type. (2) For "
    "EVERY class entry satisfying the decidable soundness predicate: eq => equal hash (eq_imp_hash_eq), eq => equal "
    "dense array as a function of the hand-listed denoteParams (eq_imp_same_denote), equal stored parameters => eq "
    "(same_params_imp_eq). (3) decide over the table the translator extracts from the tree under test: all 42 "
    "classes present (table_complete), all eq/hash/__init__ shapes understood and hash_array hashing by value, i.e. real "
    "dtypes cast to float64 (eq_hash_understood), equality "
    "fields cover denoteParams, hash fields within equality fields, equality reads stored parameters only, kwargs "
    "arrays and lazily cached / separately stored arrays frozen (table_sound and parts, kwargs_params_frozen, "
    "cached_and_stored_arrays_frozen). Tie: dynamic cross-check of the table on live objects; operations in "
    "random orders vs cold reference (bitwise), snapshots, copies, in-place writes, one-option variation pairs on "
    "every concrete class and constructor option, sizes 1..5."
    " (4) Source tie of the value-semantics MACHINERY (Props/C19S, builder B10; tools/extractors/matrix_value_skeleton.py -> "
    "Generated/MatrixValueSkeleton.lean, statement trees of 43 functions + module-wide tables, regenerated every run): "
    "skel_value_understood + six skel_*_eq_model (hash_array; Matrix.__init__/transpose/__hash__/__getstate__/__eq__; every "
    "lazy-cache property; the constructors that initialise slots / freeze arrays; _make_array_triangular and the _construct_* "
    "methods that hand cached data to new objects) against annotated expected trees; 13 named projections "
    "(skel_hash_normalises_real_dtypes, skel_hash_maps_negative_zero, skel_hash_digests_only_normalised_array, "
    "skel_hash_memoised_not_pickled, skel_eq_requires_same_class_then_fields, skel_lazy_property_computes_once, "
    "skel_cache_slots_start_empty, skel_eigval_eigvec_computed_together, skel_cached_arrays_frozen, "
    "skel_parameter_arrays_frozen, skel_make_triangular_copies, skel_shared_factors_not_remasked, "
    "skel_transpose_and_inverse_share_cached_data); readings Skel.VSem of the generated bodies: each of the ten lazy "
    "properties IS the precise access operation lazyAccess of the cache model (= MatricesCache.access when the construct "
    "expression reads no other slot; same value always), never writes parameters, preserves coherence, returns f k p, and a "
    "second access is free (sem_lazy_property_is_lazyAccess/_is_access, sem_access_preserves_params, "
    "sem_repeated_access_same, sem_lazy_value_eq_access_value); eigval/eigvec are filled together from one decomposition and "
    "stable afterwards on every state of the pair (sem_eig_pair_stable); __getstate__ drops exactly the memoised hash "
    "(sem_getstate_drops_only_hash); hash_array digests float64 values with -0.0 -> 0.0 for int/float/bool arrays, so "
    "array_equal real arrays hash equal (sem_hash_array_respects_array_equal). A broken C19S obligation triples the access "
    "orders per object, uses every size 1..5 and two objects per constructor variant."
)
LEVEL_NOTE = (
    "Trusted: Lean kernel, axioms {propext, Quot.sound}; the AST translator tools/extractors/matrix_eq.py (fail-closed, "
    "clean-tree output committed, cross-checked against live objects: attribute reads of _check_equality/_compute_hash, "
    "__dict__ after construction, aliases by identity, MRO); the hand-written denoteParams list (which stored parameters "
    "the dense array depends on) and the 5-pair hand alias map. Values are compared by an abstract relation r (equality of "
    "values) and hash/denote are assumed to respect it: for hash_array this is tested strictly across real dtypes "
    "(float64/int64/float32/bool pairs of equal values must hash equal) and across the sign of zeros. The cache model takes 'construction of slot k is a function f k p of the parameters' as its premise; the "
    "harness tests exactly that on the real objects. That in-place writes are impossible is "
    "tested (every parameter / caller / cached / returned array), the table only shows that the freezing statements are "
    "present; the private block index array _splits stays writable (counted, not failed). Results may differ in the last "
    "bits (tolerated <= 1e-12 relative, counted as O1) depending on whether SquareLowRankUpdateMatrix had memoised its "
    "capacitance matrix before T / scalar multiples were formed; anything larger is a violation. Precomputed factors are "
    "assumed consistent with the primary array. In the C19S readings: a lazy property is read by its SHAPE (if-None / store / "
    "freeze / return), the construct expression is an uninterpreted function f k p of the parameters whose own reads of other "
    "lazy slots are the supplied deps; hash_array is read on abstract arrays (dtype class, exact values with a signed zero; "
    "astype(float64) exact); the digest functions (xxhash / hash of bytes) are outside the theorems."
)
TECHNIQUE = (
    "Lean 4 theorems (cache model: induction over access sequences; eq/hash: generic theorems + decide over an "
    "AST-extracted table) + statement-tree translation of the caching / hashing / pickling / freezing machinery with expected "
    "trees, projections and semantic readings proved equal to the cache model + randomized differential testing of real "
    "objects against cold references"
)
